#!/usr/bin/env python3
"""False-alarm self-test: apply behaviour-preserving edits (renames, reordered arms, equivalent rewrites) to /repo's
working tree; every check must stay silent (exit 0).  The repository's own tests are run too, to confirm the edit still
compiles and passes.  Never commits anything.   usage: tools_benign.py [name-substring ...]"""
import json, os, shutil, subprocess, sys, tempfile
HERE = os.path.dirname(os.path.abspath(__file__))
REPO = "/repo"
vs = json.load(open(os.path.join(HERE, "fixtures", "benign.json")))
sel = sys.argv[1:]
EV = os.path.join(HERE, "evidence")
bak = tempfile.mkdtemp(prefix="vf-evidence-bak-", dir=os.path.join(HERE, ".cache"))
shutil.copytree(EV, os.path.join(bak, "evidence"))
bad = 0
for v in vs:
    if sel and not any(s in v["name"] for s in sel):
        continue
    saved = {}
    ok_apply = True
    try:
        for e in v["edits"]:
            p = os.path.join(REPO, e["file"])
            src = saved.get(p) or open(p).read()
            saved.setdefault(p, src)
            cur = open(p).read()
            n = cur.count(e["old"])
            if n == 0 or (n != 1 and not e.get("all")):
                print("SKIP %-32s anchor `%s` occurs %d times" % (v["name"], e["old"][:30], n)); ok_apply = False; break
            open(p, "w").write(cur.replace(e["old"], e["new"]))
        if not ok_apply:
            bad += 1
            continue
        t = subprocess.run(["cargo", "test", "--offline", "--lib", "--quiet"], cwd=REPO, stdout=subprocess.PIPE, stderr=subprocess.STDOUT, text=True)
        tests_ok = t.returncode == 0
        r = subprocess.run([os.path.join(HERE, "vf"), "all"], stdout=subprocess.PIPE, stderr=subprocess.STDOUT, text=True)
        alarms = [l for l in r.stdout.splitlines() if l.startswith("  VIOLATION") or l.startswith("  UNRECOGNISED") or l.startswith("MACHINERY")]
        status = "OK  " if (r.returncode == 0 and tests_ok) else "ALARM" if tests_ok else "TESTS-FAIL"
        if status != "OK  ":
            bad += 1
        print("%s %-32s rc=%d tests=%s %s" % (status, v["name"], r.returncode, tests_ok, alarms[0].strip()[:260] if alarms else ""))
        for a in alarms[1:4]:
            print("        " + a.strip()[:260])
    finally:
        for p, src in saved.items():
            open(p, "w").write(src)
shutil.rmtree(EV, ignore_errors=True)
shutil.copytree(os.path.join(bak, "evidence"), EV)
shutil.rmtree(bak, ignore_errors=True)
shutil.rmtree(os.path.join(HERE, "out", "violations"), ignore_errors=True)
print("benign edits that raised an alarm / could not be applied:", bad)
sys.exit(1 if bad else 0)
