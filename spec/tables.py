"""RFC 9535 tables (transcribed; trusted base).  Sections 2.3.5.2.2 (comparisons), 2.4 (function extensions)."""

# operator token -> disjunction of atoms; atoms: "eq" (symmetric), "lt(L,R)", "lt(R,L)", "!eq"
COMPARISON = {
    "==": {"eq"},
    "!=": {"!eq"},
    "<": {"lt(L,R)"},
    "<=": {"lt(L,R)", "eq"},
    ">": {"lt(R,L)"},
    ">=": {"lt(R,L)", "eq"},
}

# function name -> (parameter kinds, result kind); kinds: Value, Logical, Nodes
FUNCTIONS = {
    "length": (["Value"], "Value"),
    "count": (["Nodes"], "Value"),
    "match": (["Value", "Value"], "Logical"),
    "search": (["Value", "Value"], "Logical"),
    "value": (["Nodes"], "Value"),
}

# documented extension functions of the library (README / queryable.rs docs): quantifier signature
#   E = exists, A = forall; over L (elements of first array) / R (elements of second array); x = first argument itself
EXTENSIONS = {
    "in": "E r. r = x",
    "nin": "not E r. r = x",
    "any_of": "E l. E r. l = r",
    "none_of": "not E l. E r. l = r",
    "subset_of": "A l. E r. l = r",
}
