#!/usr/bin/env python3
"""debug aid: run one property's rules and list every obligation.  usage: tools_show.py C08 [rule-prefix]"""
import sys, os, importlib, importlib.machinery, importlib.util
HERE = os.path.dirname(os.path.abspath(__file__))
sys.path.insert(0, HERE)
loader = importlib.machinery.SourceFileLoader("vfmain", os.path.join(HERE, "vf"))
spec = importlib.util.spec_from_loader("vfmain", loader)
m = importlib.util.module_from_spec(spec); loader.exec_module(m)
from vflib import report
pid = sys.argv[1].upper()
mod = importlib.import_module("rules." + pid.lower())
ctx = m.Ctx("quick", 0); rep = report.Report(pid); mod.run(ctx, rep)
for i in rep.instances:
    if len(sys.argv) < 3 or i["rule"].startswith(sys.argv[2]):
        print(i["status"][:4], i["rule"], i["key"][:100], "|", i["where"], "|", i["msg"][:160])
print(rep.extra)
