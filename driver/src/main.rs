// vf-driver: a rustc_private driver that dumps a facts database (items, ADTs,
// trait-solver answers, THIR trees, MIR CFGs) of one crate as JSON.
//
// Used as RUSTC_WORKSPACE_WRAPPER under `cargo +nightly check`.  Environment:
//   VF_CRATE      crate name to dump (default jsonpath_rust); other crates are compiled normally
//   VF_FACTS_OUT  output file (one write per process)
#![feature(rustc_private)]
#![allow(clippy::all)]

extern crate rustc_abi;
extern crate rustc_ast;
extern crate rustc_data_structures;
extern crate rustc_driver;
extern crate rustc_hir;
extern crate rustc_index;
extern crate rustc_infer;
extern crate rustc_interface;
extern crate rustc_middle;
extern crate rustc_session;
extern crate rustc_span;
extern crate rustc_trait_selection;

mod json;
mod mirdump;
mod thirdump;

use json::J;
use rustc_driver::Compilation;
use rustc_hir::def::DefKind;
use rustc_hir::def_id::{DefId, LocalDefId, LOCAL_CRATE};
use rustc_infer::infer::TyCtxtInferExt;
use rustc_middle::ty::{self, Ty, TyCtxt, TypingEnv};
use rustc_span::Span;
use rustc_trait_selection::infer::InferCtxtExt;

pub struct Cb;

pub fn span_j(tcx: TyCtxt<'_>, sp: Span) -> J {
    let sm = tcx.sess.source_map();
    let root = sp.source_callsite();
    let lo = sm.lookup_char_pos(root.lo());
    let hi = sm.lookup_char_pos(root.hi());
    let file = match &lo.file.name {
        rustc_span::FileName::Real(r) => r
            .local_path()
            .map(|p| p.to_string_lossy().to_string())
            .unwrap_or_else(|| format!("{:?}", lo.file.name)),
        other => format!("{:?}", other),
    };
    let mut v = vec![
        ("file".to_string(), J::s(&file)),
        ("line".to_string(), J::n(lo.line as i64)),
        ("col".to_string(), J::n(lo.col.0 as i64 + 1)),
        ("eline".to_string(), J::n(hi.line as i64)),
    ];
    if sp.from_expansion() {
        v.push(("exp".to_string(), J::Bool(true)));
        let mut names = vec![];
        let mut crates = vec![];
        for e in sp.macro_backtrace() {
            names.push(J::s(&format!("{}", e.kind.descr())));
            crates.push(match e.macro_def_id {
                Some(d) => J::s(tcx.crate_name(d.krate).as_str()),
                None => J::s("?"),
            });
        }
        v.push(("mac".to_string(), J::Arr(names)));
        v.push(("mac_crates".to_string(), J::Arr(crates)));
    }
    J::Obj(v)
}

pub fn path_of(tcx: TyCtxt<'_>, did: DefId) -> String {
    ty::print::with_no_visible_paths!(ty::print::with_no_trimmed_paths!(ty::print::with_crate_prefix!(tcx.def_path_str(did))))
}

pub fn ty_s(t: Ty<'_>) -> String {
    ty::print::with_no_visible_paths!(ty::print::with_no_trimmed_paths!(ty::print::with_crate_prefix!(format!("{}", t))))
}

/// Structured type tree.
pub fn ty_j<'tcx>(tcx: TyCtxt<'tcx>, t: Ty<'tcx>, depth: usize) -> J {
    if depth > 8 {
        return J::obj(vec![("k", J::s("deep")), ("s", J::s(&ty_s(t)))]);
    }
    match t.kind() {
        ty::Adt(def, args) => J::obj(vec![
            ("k", J::s("adt")),
            ("path", J::s(&path_of(tcx, def.did()))),
            (
                "args",
                J::Arr(
                    args.iter()
                        .filter_map(|a| a.as_type())
                        .map(|a| ty_j(tcx, a, depth + 1))
                        .collect(),
                ),
            ),
        ]),
        ty::Ref(_, inner, m) => J::obj(vec![
            ("k", J::s("ref")),
            ("mut", J::Bool(m.is_mut())),
            ("to", ty_j(tcx, *inner, depth + 1)),
        ]),
        ty::RawPtr(inner, m) => J::obj(vec![
            ("k", J::s("rawptr")),
            ("mut", J::Bool(m.is_mut())),
            ("to", ty_j(tcx, *inner, depth + 1)),
        ]),
        ty::Param(p) => J::obj(vec![("k", J::s("param")), ("name", J::s(p.name.as_str()))]),
        ty::Tuple(ts) => J::obj(vec![
            ("k", J::s("tuple")),
            ("elems", J::Arr(ts.iter().map(|a| ty_j(tcx, a, depth + 1)).collect())),
        ]),
        ty::Slice(inner) => J::obj(vec![("k", J::s("slice")), ("of", ty_j(tcx, *inner, depth + 1))]),
        ty::Array(inner, _) => J::obj(vec![("k", J::s("array")), ("of", ty_j(tcx, *inner, depth + 1))]),
        ty::Closure(did, _) => J::obj(vec![("k", J::s("closure")), ("path", J::s(&path_of(tcx, *did)))]),
        ty::FnDef(did, _) => J::obj(vec![("k", J::s("fndef")), ("path", J::s(&path_of(tcx, *did)))]),
        ty::Dynamic(..) => J::obj(vec![("k", J::s("dyn")), ("s", J::s(&ty_s(t)))]),
        ty::FnPtr(..) => J::obj(vec![("k", J::s("fnptr")), ("s", J::s(&ty_s(t)))]),
        ty::Bool | ty::Char | ty::Int(_) | ty::Uint(_) | ty::Float(_) | ty::Str | ty::Never => {
            J::obj(vec![("k", J::s("prim")), ("name", J::s(&ty_s(t)))])
        }
        _ => J::obj(vec![("k", J::s("other")), ("s", J::s(&ty_s(t)))]),
    }
}

fn implements<'tcx>(tcx: TyCtxt<'tcx>, ty: Ty<'tcx>, trait_did: DefId, env_of: DefId) -> bool {
    let typing_env = TypingEnv::post_analysis(tcx, env_of);
    let (infcx, param_env) = tcx.infer_ctxt().build_with_typing_env(typing_env);
    infcx
        .type_implements_trait(trait_did, [ty], param_env)
        .must_apply_modulo_regions()
}

fn lang_trait(tcx: TyCtxt<'_>, name: &str) -> Option<DefId> {
    use rustc_hir::LangItem;
    match name {
        "Send" => tcx.get_diagnostic_item(rustc_span::sym::Send),
        "Sync" => tcx.lang_items().get(LangItem::Sync),
        "Freeze" => tcx.lang_items().get(LangItem::Freeze),
        "Copy" => tcx.lang_items().get(LangItem::Copy),
        "Unpin" => tcx.lang_items().get(LangItem::Unpin),
        _ => None,
    }
}

fn generics_j(tcx: TyCtxt<'_>, did: DefId) -> J {
    let mut params = vec![];
    let mut g = Some(tcx.generics_of(did));
    let mut chain = vec![];
    while let Some(gg) = g {
        chain.push(gg);
        g = gg.parent.map(|p| tcx.generics_of(p));
    }
    for gg in chain.iter().rev() {
        for p in &gg.own_params {
            let kind = match p.kind {
                ty::GenericParamDefKind::Lifetime => "lifetime",
                ty::GenericParamDefKind::Type { .. } => "type",
                ty::GenericParamDefKind::Const { .. } => "const",
            };
            params.push(J::obj(vec![("name", J::s(p.name.as_str())), ("kind", J::s(kind))]));
        }
    }
    let preds = tcx.predicates_of(did).instantiate_identity(tcx);
    let mut bounds = vec![];
    for (clause, _) in preds.predicates.iter().zip(preds.spans.iter()) {
        let c = clause.skip_norm_wip();
        bounds.push(J::s(&ty::print::with_no_visible_paths!(ty::print::with_no_trimmed_paths!(ty::print::with_crate_prefix!(format!("{}", c))))));
    }
    J::obj(vec![("params", J::Arr(params)), ("preds", J::Arr(bounds))])
}

fn items(tcx: TyCtxt<'_>) -> J {
    let mut out = vec![];
    for did in tcx.hir_body_owners() {
        out.push(item_j(tcx, did));
    }
    J::Arr(out)
}

fn item_j(tcx: TyCtxt<'_>, did: LocalDefId) -> J {
    let kind = tcx.def_kind(did);
    let mut v: Vec<(&str, J)> = vec![
        ("path", J::s(&path_of(tcx, did.to_def_id()))),
        ("dpath", J::s(&tcx.def_path(did.to_def_id()).to_string_no_crate_verbose())),
        ("kind", J::s(&format!("{:?}", kind))),
        ("span", span_j(tcx, tcx.def_span(did))),
    ];
    let parent = tcx.parent(did.to_def_id());
    v.push(("parent", J::s(&path_of(tcx, parent))));
    v.push(("parent_kind", J::s(&format!("{:?}", tcx.def_kind(parent)))));
    if matches!(kind, DefKind::Fn | DefKind::AssocFn) {
        v.push(("vis", J::s(&format!("{:?}", tcx.visibility(did)))));
        let sig = tcx.fn_sig(did).instantiate_identity().skip_norm_wip();
        let sig = sig.skip_binder();
        v.push((
            "inputs",
            J::Arr(sig.inputs().iter().map(|t| ty_j(tcx, *t, 0)).collect()),
        ));
        v.push(("inputs_s", J::Arr(sig.inputs().iter().map(|t| J::s(&ty_s(*t))).collect())));
        v.push(("output", ty_j(tcx, sig.output(), 0)));
        v.push(("output_s", J::s(&ty_s(sig.output()))));
        v.push(("sig_s", J::s(&ty::print::with_no_visible_paths!(ty::print::with_no_trimmed_paths!(ty::print::with_crate_prefix!(format!("{}", tcx.fn_sig(did).instantiate_identity().skip_norm_wip())))))));
        v.push(("unsafe", J::Bool(!sig.safety().is_safe())));
        v.push(("generics", generics_j(tcx, did.to_def_id())));
        if kind == DefKind::AssocFn {
            if let Some(imp) = tcx.impl_of_assoc(did.to_def_id()) {
                let self_ty = tcx.type_of(imp).instantiate_identity().skip_norm_wip();
                v.push(("impl_self", J::s(&ty_s(self_ty))));
                if tcx.impl_is_of_trait(imp) {
                    let tr = tcx.impl_trait_ref(imp).instantiate_identity().skip_norm_wip();
                    v.push(("impl_trait", J::s(&path_of(tcx, tr.def_id))));
                    v.push(("impl_trait_s", J::s(&ty::print::with_no_visible_paths!(ty::print::with_no_trimmed_paths!(ty::print::with_crate_prefix!(format!("{}", tr)))))));
                }
            } else if let Some(tr) = tcx.trait_of_assoc(did.to_def_id()) {
                v.push(("in_trait", J::s(&path_of(tcx, tr))));
            }
        }
    }
    // is the item reachable/exported API?
    v.push(("exported", J::Bool(tcx.effective_visibilities(()).is_reachable(did))));
    J::obj(v)
}

fn adts(tcx: TyCtxt<'_>) -> J {
    let mut out = vec![];
    let send = lang_trait(tcx, "Send");
    let sync = lang_trait(tcx, "Sync");
    let freeze = lang_trait(tcx, "Freeze");
    for id in tcx.hir_free_items() {
        let did = id.owner_id.def_id;
        let kind = tcx.def_kind(did);
        if !matches!(kind, DefKind::Struct | DefKind::Enum | DefKind::Union) {
            continue;
        }
        let adt = tcx.adt_def(did);
        let self_ty = tcx.type_of(did).instantiate_identity().skip_norm_wip();
        let mut variants = vec![];
        for vdef in adt.variants() {
            let mut fields = vec![];
            for f in &vdef.fields {
                let fty = tcx.type_of(f.did).instantiate_identity().skip_norm_wip();
                fields.push(J::obj(vec![
                    ("name", J::s(f.name.as_str())),
                    ("ty", ty_j(tcx, fty, 0)),
                    ("ty_s", J::s(&ty_s(fty))),
                    ("vis", J::s(&format!("{:?}", f.vis))),
                ]));
            }
            variants.push(J::obj(vec![("name", J::s(vdef.name.as_str())), ("fields", J::Arr(fields))]));
        }
        let mut v = vec![
            ("path", J::s(&path_of(tcx, did.to_def_id()))),
            ("kind", J::s(&format!("{:?}", kind))),
            ("span", span_j(tcx, tcx.def_span(did))),
            ("self_ty", J::s(&ty_s(self_ty))),
            ("generics", generics_j(tcx, did.to_def_id())),
            ("variants", J::Arr(variants)),
            ("exported", J::Bool(tcx.effective_visibilities(()).is_reachable(did))),
            ("vis", J::s(&format!("{:?}", tcx.visibility(did)))),
        ];
        for (n, t) in [("send", send), ("sync", sync), ("freeze", freeze)] {
            if let Some(t) = t {
                v.push((n, J::Bool(implements(tcx, self_ty, t, did.to_def_id()))));
            }
        }
        // instantiate single-type-parameter ADTs at every concrete implementor of a local trait
        let gens = tcx.generics_of(did);
        let ntypes = gens.own_params.iter().filter(|p| matches!(p.kind, ty::GenericParamDefKind::Type { .. })).count();
        if ntypes == 1 && gens.parent.is_none() {
            let mut insts = vec![];
            for cand in concrete_implementors(tcx) {
                let args = ty::GenericArgs::for_item(tcx, did.to_def_id(), |param, _| match param.kind {
                    ty::GenericParamDefKind::Lifetime => tcx.lifetimes.re_erased.into(),
                    ty::GenericParamDefKind::Type { .. } => cand.into(),
                    ty::GenericParamDefKind::Const { .. } => tcx.mk_param_from_def(param),
                });
                let t = Ty::new_adt(tcx, adt, args);
                let mut iv = vec![("with", J::s(&ty_s(cand)))];
                for (n, tr) in [("send", send), ("sync", sync), ("freeze", freeze)] {
                    if let Some(tr) = tr {
                        iv.push((n, J::Bool(implements(tcx, t, tr, did.to_def_id()))));
                    }
                }
                insts.push(J::obj(iv));
            }
            v.push(("inst", J::Arr(insts)));
        }
        out.push(J::obj(v));
    }
    J::Arr(out)
}

/// Concrete (parameter-free) self types of impls of local traits, e.g. serde_json::Value.
fn concrete_implementors<'tcx>(tcx: TyCtxt<'tcx>) -> Vec<Ty<'tcx>> {
    let mut out: Vec<Ty<'tcx>> = vec![];
    for id in tcx.hir_free_items() {
        let did = id.owner_id.def_id;
        if !matches!(tcx.def_kind(did), DefKind::Impl { .. }) || !tcx.impl_is_of_trait(did.to_def_id()) {
            continue;
        }
        let tr = tcx.impl_trait_ref(did.to_def_id()).instantiate_identity().skip_norm_wip();
        if !tr.def_id.is_local() {
            continue;
        }
        let st = tcx.type_of(did).instantiate_identity().skip_norm_wip();
        if tcx.generics_of(did).is_empty() && matches!(st.kind(), ty::Adt(..)) && !out.contains(&st) {
            out.push(st);
        }
    }
    out
}

fn statics_consts(tcx: TyCtxt<'_>) -> J {
    let mut out = vec![];
    let freeze = lang_trait(tcx, "Freeze");
    for did in tcx.hir_crate_items(()).definitions() {
        let kind = tcx.def_kind(did);
        match kind {
            DefKind::Static { mutability, nested, .. } => {
                let t = tcx.type_of(did).instantiate_identity().skip_norm_wip();
                let fr = freeze.map(|f| implements(tcx, t, f, did.to_def_id())).unwrap_or(false);
                let tl = tcx.is_thread_local_static(did.to_def_id());
                out.push(J::obj(vec![
                    ("kind", J::s("static")),
                    ("path", J::s(&path_of(tcx, did.to_def_id()))),
                    ("mut", J::Bool(mutability.is_mut())),
                    ("nested", J::Bool(nested)),
                    ("ty", J::s(&ty_s(t))),
                    ("freeze", J::Bool(fr)),
                    ("thread_local", J::Bool(tl)),
                    ("span", span_j(tcx, tcx.def_span(did))),
                ]));
            }
            DefKind::Const { .. } | DefKind::AssocConst { .. } => {
                let t = tcx.type_of(did).instantiate_identity().skip_norm_wip();
                let mut v = vec![
                    ("kind", J::s("const")),
                    ("path", J::s(&path_of(tcx, did.to_def_id()))),
                    ("ty", J::s(&ty_s(t))),
                    ("span", span_j(tcx, tcx.def_span(did))),
                ];
                if tcx.generics_of(did).is_empty() && (t.is_integral() || t.is_bool() || t.is_char()) {
                    if let Ok(val) = tcx.const_eval_poly(did.to_def_id()) {
                        if let Some(s) = val.try_to_scalar_int() {
                            let size = s.size();
                            let txt = if t.is_signed() {
                                format!("{}", s.to_int(size))
                            } else {
                                format!("{}", s.to_uint(size))
                            };
                            v.push(("value", J::s(&txt)));
                        }
                    }
                }
                out.push(J::obj(v));
            }
            _ => {}
        }
    }
    J::Arr(out)
}

fn impls(tcx: TyCtxt<'_>) -> J {
    let mut out = vec![];
    for id in tcx.hir_free_items() {
        let did = id.owner_id.def_id;
        if !matches!(tcx.def_kind(did), DefKind::Impl { .. }) {
            continue;
        }
        let self_ty = tcx.type_of(did).instantiate_identity().skip_norm_wip();
        let mut v = vec![
            ("self_ty", J::s(&ty_s(self_ty))),
            ("span", span_j(tcx, tcx.def_span(did))),
            ("generics", generics_j(tcx, did.to_def_id())),
        ];
        if tcx.impl_is_of_trait(did.to_def_id()) {
            let tr = tcx.impl_trait_ref(did.to_def_id()).instantiate_identity().skip_norm_wip();
            v.push(("trait", J::s(&path_of(tcx, tr.def_id))));
            v.push(("trait_s", J::s(&ty::print::with_no_visible_paths!(ty::print::with_no_trimmed_paths!(ty::print::with_crate_prefix!(format!("{}", tr)))))));
            let h = tcx.impl_trait_header(did.to_def_id());
            v.push(("unsafe", J::Bool(!h.safety.is_safe())));
        }
        let mut ms = vec![];
        for a in tcx.associated_items(did).in_definition_order() {
            ms.push(J::s(&path_of(tcx, a.def_id)));
        }
        v.push(("items", J::Arr(ms)));
        out.push(J::obj(v));
    }
    J::Arr(out)
}

fn traits(tcx: TyCtxt<'_>) -> J {
    let mut out = vec![];
    for id in tcx.hir_free_items() {
        let did = id.owner_id.def_id;
        if !matches!(tcx.def_kind(did), DefKind::Trait) {
            continue;
        }
        let mut ms = vec![];
        for a in tcx.associated_items(did).in_definition_order() {
            let mut m = vec![("path", J::s(&path_of(tcx, a.def_id))), ("name", J::s(a.name().as_str()))];
            if a.is_fn() {
                let sig = tcx.fn_sig(a.def_id).instantiate_identity().skip_norm_wip();
                m.push(("sig_s", J::s(&ty::print::with_no_visible_paths!(ty::print::with_no_trimmed_paths!(ty::print::with_crate_prefix!(format!("{}", sig)))))));
                m.push(("has_default", J::Bool(a.defaultness(tcx).has_value())));
            }
            ms.push(J::obj(m));
        }
        out.push(J::obj(vec![
            ("path", J::s(&path_of(tcx, did.to_def_id()))),
            ("generics", generics_j(tcx, did.to_def_id())),
            ("items", J::Arr(ms)),
            ("span", span_j(tcx, tcx.def_span(did))),
        ]));
    }
    J::Arr(out)
}

/// Ask the trait solver a list of (type string, trait) questions about exported types
/// instantiated at serde_json::Value where they are generic in one `T: Queryable`.
fn auto_trait_queries(tcx: TyCtxt<'_>) -> J {
    // For each ADT with exactly one type parameter, also ask Send/Sync with the parameter left
    // generic (the identity instantiation under its own where-clauses) -- done in `adts`.
    // Here: derive macro attributes (grammar attr) and crate-level attributes.
    let mut out = vec![];
    for attr in tcx.hir_krate_attrs() {
        out.push(J::s(&format!("{:?}", attr).chars().take(300).collect::<String>()));
    }
    J::Arr(out)
}

impl rustc_driver::Callbacks for Cb {
    fn after_analysis<'tcx>(&mut self, _c: &rustc_interface::interface::Compiler, tcx: TyCtxt<'tcx>) -> Compilation {
        let want = std::env::var("VF_CRATE").unwrap_or_else(|_| "jsonpath_rust".to_string());
        let name = tcx.crate_name(LOCAL_CRATE).to_string();
        if name != want {
            return Compilation::Continue;
        }
        // only the lib target: crate types contains rlib / lib
        let out_path = match std::env::var("VF_FACTS_OUT") {
            Ok(p) => p,
            Err(_) => return Compilation::Continue,
        };
        if tcx.dcx().has_errors().is_some() {
            return Compilation::Continue;
        }
        let is_test = tcx.sess.opts.test;
        let mut bodies = vec![];
        for did in tcx.hir_body_owners() {
            let kind = tcx.def_kind(did);
            let mut v: Vec<(&str, J)> = vec![
                ("path", J::s(&path_of(tcx, did.to_def_id()))),
                ("kind", J::s(&format!("{:?}", kind))),
            ];
            if matches!(kind, DefKind::Fn | DefKind::AssocFn | DefKind::Closure) {
                v.push(("thir", thirdump::body(tcx, did)));
                v.push(("mir", mirdump::body(tcx, did)));
            }
            bodies.push(J::obj(v));
        }
        let cfgs: Vec<J> = tcx
            .sess
            .opts
            .cg
            .target_feature
            .split(',')
            .map(|s| J::s(s))
            .collect();
        let doc = J::obj(vec![
            ("crate", J::s(&name)),
            ("is_test", J::Bool(is_test)),
            ("rustc", J::s(&rustc_interface::util::rustc_version_str().unwrap_or("?").to_string())),
            ("overflow_checks", J::Bool(tcx.sess.overflow_checks())),
            ("target_features", J::Arr(cfgs)),
            ("crate_attrs", auto_trait_queries(tcx)),
            ("items", items(tcx)),
            ("adts", adts(tcx)),
            ("impls", impls(tcx)),
            ("traits", traits(tcx)),
            ("statics_consts", statics_consts(tcx)),
            ("bodies", J::Arr(bodies)),
        ]);
        let mut s = String::new();
        doc.write(&mut s);
        let tmp = format!("{}.tmp.{}", out_path, std::process::id());
        std::fs::write(&tmp, s).expect("write facts");
        std::fs::rename(&tmp, &out_path).expect("rename facts");
        Compilation::Continue
    }
}

fn main() {
    let mut args: Vec<String> = std::env::args().collect();
    // RUSTC_WORKSPACE_WRAPPER: argv[1] is the path of the real rustc
    if args.len() > 1 && (args[1].ends_with("rustc") || args[1].contains("/rustc")) {
        args.remove(1);
    }
    let code = rustc_driver::catch_with_exit_code(|| {
        rustc_driver::run_compiler(&args, &mut Cb);
    });
    std::process::exit(if code == std::process::ExitCode::SUCCESS { 0 } else { 1 });
}
