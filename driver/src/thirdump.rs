// THIR -> JSON.  Scope nodes are skipped (transparent); everything else is kept.
use crate::json::J;
use crate::{path_of, span_j, ty_s};
use rustc_ast::LitKind;
use rustc_hir::def_id::LocalDefId;
use rustc_middle::thir::*;
use rustc_middle::ty::{self, Instance, TyCtxt, TypingEnv};

struct Cx<'a, 'tcx> {
    tcx: TyCtxt<'tcx>,
    thir: &'a Thir<'tcx>,
    owner: LocalDefId,
}

pub fn body(tcx: TyCtxt<'_>, did: LocalDefId) -> J {
    let Ok((steal, root)) = tcx.thir_body(did) else {
        return J::Null;
    };
    if steal.is_stolen() {
        return J::obj(vec![("stolen", J::Bool(true))]);
    }
    let thir = steal.borrow();
    let cx = Cx { tcx, thir: &thir, owner: did };
    let mut params = vec![];
    for p in thir.params.iter() {
        let mut v = vec![("ty", J::s(&ty_s(p.ty)))];
        if let Some(pat) = &p.pat {
            v.push(("pat", cx.pat(pat)));
        }
        if p.self_kind.is_some() {
            v.push(("self", J::Bool(true)));
        }
        params.push(J::obj(v));
    }
    J::obj(vec![("params", J::Arr(params)), ("root", cx.expr(root))])
}

impl<'a, 'tcx> Cx<'a, 'tcx> {
    fn var(&self, id: LocalVarId) -> J {
        let name = self.tcx.hir_name(id.0);
        J::obj(vec![
            ("id", J::s(&format!("{}#{}", name, id.0.local_id.as_u32()))),
            ("name", J::s(name.as_str())),
        ])
    }

    fn pat(&self, p: &Pat<'tcx>) -> J {
        let mut v: Vec<(&str, J)> = vec![];
        match &p.kind {
            PatKind::Missing => v.push(("k", J::s("Missing"))),
            PatKind::Wild => v.push(("k", J::s("Wild"))),
            PatKind::Binding { name, mode, var, subpattern, .. } => {
                v.push(("k", J::s("Binding")));
                v.push(("name", J::s(name.as_str())));
                v.push(("var", self.var(*var)));
                v.push(("mode", J::s(&format!("{:?}", mode))));
                if let Some(s) = subpattern {
                    v.push(("sub", self.pat(s)));
                }
            }
            PatKind::Variant { adt_def, variant_index, subpatterns, .. } => {
                v.push(("k", J::s("Variant")));
                v.push(("adt", J::s(&path_of(self.tcx, adt_def.did()))));
                let vd = adt_def.variant(*variant_index);
                v.push(("variant", J::s(vd.name.as_str())));
                v.push(("nfields", J::n(vd.fields.len() as i64)));
                v.push(("fields", self.fpats(subpatterns, Some(vd))));
            }
            PatKind::Leaf { subpatterns } => {
                v.push(("k", J::s("Leaf")));
                let vd = match p.ty.kind() {
                    ty::Adt(def, _) if def.is_struct() => {
                        v.push(("adt", J::s(&path_of(self.tcx, def.did()))));
                        Some(def.non_enum_variant())
                    }
                    _ => None,
                };
                if let ty::Tuple(ts) = p.ty.kind() {
                    v.push(("arity", J::n(ts.len() as i64)));
                }
                v.push(("fields", self.fpats(subpatterns, vd)));
            }
            PatKind::Deref { subpattern, .. } => {
                v.push(("k", J::s("Deref")));
                v.push(("sub", self.pat(subpattern)));
            }
            PatKind::DerefPattern { subpattern, .. } => {
                v.push(("k", J::s("DerefPattern")));
                v.push(("sub", self.pat(subpattern)));
            }
            PatKind::Constant { value } => {
                v.push(("k", J::s("Constant")));
                let mut txt = format!("{}", value);
                let strish = value.ty.is_str()
                    || matches!(value.ty.kind(), ty::Ref(_, inner, _) if inner.is_str());
                if strish {
                    let bytes: Option<Vec<u8>> = if value.ty.is_str() {
                        value
                            .to_branch()
                            .iter()
                            .map(|ct| (*ct).try_to_value().and_then(|v| v.try_to_leaf()).map(|l| l.to_u8()))
                            .collect()
                    } else {
                        value.try_to_raw_bytes(self.tcx).map(|b| b.to_vec())
                    };
                    if let Some(b) = bytes {
                        txt = String::from_utf8_lossy(&b).to_string();
                        v.push(("str", J::Bool(true)));
                    }
                }
                v.push(("value", J::s(&txt)));
            }
            PatKind::Range(r) => {
                v.push(("k", J::s("Range")));
                v.push(("s", J::s(&format!("{}", r))));
            }
            PatKind::Slice { prefix, slice, suffix } | PatKind::Array { prefix, slice, suffix } => {
                v.push(("k", J::s("Slice")));
                v.push(("prefix", J::Arr(prefix.iter().map(|p| self.pat(p)).collect())));
                v.push(("slice", J::opt(slice.as_ref().map(|p| self.pat(p)))));
                v.push(("suffix", J::Arr(suffix.iter().map(|p| self.pat(p)).collect())));
            }
            PatKind::Or { pats } => {
                v.push(("k", J::s("Or")));
                v.push(("pats", J::Arr(pats.iter().map(|p| self.pat(p)).collect())));
            }
            PatKind::Guard { subpattern, condition } => {
                v.push(("k", J::s("Guard")));
                v.push(("sub", self.pat(subpattern)));
                v.push(("cond", self.expr(*condition)));
            }
            PatKind::Never => v.push(("k", J::s("Never"))),
            PatKind::Error(_) => v.push(("k", J::s("Error"))),
        }
        v.push(("ty", J::s(&ty_s(p.ty))));
        J::obj(v)
    }

    fn fpats(&self, fs: &[FieldPat<'tcx>], vd: Option<&ty::VariantDef>) -> J {
        J::Arr(
            fs.iter()
                .map(|f| {
                    let mut v = vec![("idx", J::n(f.field.as_u32() as i64))];
                    if let Some(vd) = vd {
                        v.push(("name", J::s(vd.fields[f.field].name.as_str())));
                    }
                    v.push(("pat", self.pat(&f.pattern)));
                    J::obj(v)
                })
                .collect(),
        )
    }

    fn block(&self, b: BlockId) -> J {
        let blk = &self.thir[b];
        let mut stmts = vec![];
        for s in blk.stmts.iter() {
            match &self.thir[*s].kind {
                StmtKind::Expr { expr, .. } => {
                    stmts.push(J::obj(vec![("k", J::s("Expr")), ("e", self.expr(*expr))]));
                }
                StmtKind::Let { pattern, initializer, else_block, span, .. } => {
                    let mut v = vec![("k", J::s("Let")), ("pat", self.pat(pattern)), ("sp", span_j(self.tcx, *span))];
                    if let Some(i) = initializer {
                        v.push(("init", self.expr(*i)));
                    }
                    if let Some(e) = else_block {
                        v.push(("else", self.block(*e)));
                    }
                    stmts.push(J::obj(v));
                }
            }
        }
        let mut v = vec![("stmts", J::Arr(stmts))];
        if let Some(e) = blk.expr {
            v.push(("tail", self.expr(e)));
        }
        match blk.safety_mode {
            BlockSafety::ExplicitUnsafe(_) => v.push(("unsafe", J::Bool(true))),
            _ => {}
        }
        J::obj(v)
    }

    fn callee(&self, fun: ExprId, v: &mut Vec<(&str, J)>) {
        // strip scopes
        let mut f = fun;
        loop {
            match &self.thir[f].kind {
                ExprKind::Scope { value, .. } => f = *value,
                _ => break,
            }
        }
        let fe = &self.thir[f];
        if let ty::FnDef(did, args) = fe.ty.kind() {
            v.push(("fn", J::s(&path_of(self.tcx, *did))));
            v.push((
                "gargs",
                J::Arr(args.iter().map(|a| J::s(&ty::print::with_no_visible_paths!(ty::print::with_no_trimmed_paths!(ty::print::with_crate_prefix!(format!("{}", a)))))).collect()),
            ));
            if let Some(tr) = self.tcx.trait_of_assoc(*did) {
                v.push(("trait", J::s(&path_of(self.tcx, tr))));
                if let Some(self_ty) = args.types().next() {
                    v.push(("self_ty", J::s(&ty_s(self_ty))));
                }
            }
            if let Some(imp) = self.tcx.impl_of_assoc(*did) {
                let st = self.tcx.type_of(imp).instantiate_identity().skip_norm_wip();
                v.push(("impl_self", J::s(&ty_s(st))));
            }
            let env = TypingEnv::post_analysis(self.tcx, self.owner.to_def_id());
            if let Ok(Some(inst)) = Instance::try_resolve(self.tcx, env, *did, args) {
                let rd = inst.def_id();
                v.push(("res", J::s(&path_of(self.tcx, rd))));
                v.push(("res_kind", J::s(&format!("{:?}", std::mem::discriminant(&inst.def)).chars().take(0).collect::<String>())));
                let kind = match inst.def {
                    ty::InstanceKind::Item(_) => "Item",
                    ty::InstanceKind::Virtual(..) => "Virtual",
                    ty::InstanceKind::ClosureOnceShim { .. } => "ClosureOnceShim",
                    ty::InstanceKind::FnPtrShim(..) => "FnPtrShim",
                    ty::InstanceKind::Intrinsic(_) => "Intrinsic",
                    ty::InstanceKind::CloneShim(..) => "CloneShim",
                    ty::InstanceKind::DropGlue(..) => "DropGlue",
                    _ => "Other",
                };
                v.push(("res_kind", J::s(kind)));
                if rd.is_local() {
                    v.push(("res_local", J::Bool(true)));
                }
            }
            v.push(("local", J::Bool(did.is_local())));
        } else {
            v.push(("fun", self.expr(f)));
        }
    }

    fn expr(&self, id: ExprId) -> J {
        let e = &self.thir[id];
        let mut v: Vec<(&str, J)> = vec![];
        match &e.kind {
            ExprKind::Scope { value, .. } => return self.expr(*value),
            ExprKind::If { cond, then, else_opt, .. } => {
                v.push(("k", J::s("If")));
                v.push(("cond", self.expr(*cond)));
                v.push(("then", self.expr(*then)));
                if let Some(x) = else_opt {
                    v.push(("else", self.expr(*x)));
                }
            }
            ExprKind::Call { fun, args, from_hir_call, fn_span, .. } => {
                v.push(("k", J::s("Call")));
                self.callee(*fun, &mut v);
                v.push(("args", J::Arr(args.iter().map(|a| self.expr(*a)).collect())));
                v.push(("hir_call", J::Bool(*from_hir_call)));
                v.push(("fn_sp", span_j(self.tcx, *fn_span)));
            }
            ExprKind::ByUse { expr, .. } => {
                v.push(("k", J::s("ByUse")));
                v.push(("e", self.expr(*expr)));
            }
            ExprKind::Deref { arg } => {
                v.push(("k", J::s("Deref")));
                v.push(("e", self.expr(*arg)));
            }
            ExprKind::Binary { op, lhs, rhs } => {
                v.push(("k", J::s("Binary")));
                v.push(("op", J::s(&format!("{:?}", op))));
                v.push(("l", self.expr(*lhs)));
                v.push(("r", self.expr(*rhs)));
            }
            ExprKind::LogicalOp { op, lhs, rhs } => {
                v.push(("k", J::s("Logical")));
                v.push(("op", J::s(&format!("{:?}", op))));
                v.push(("l", self.expr(*lhs)));
                v.push(("r", self.expr(*rhs)));
            }
            ExprKind::Unary { op, arg } => {
                v.push(("k", J::s("Unary")));
                v.push(("op", J::s(&format!("{:?}", op))));
                v.push(("e", self.expr(*arg)));
            }
            ExprKind::Cast { source } => {
                v.push(("k", J::s("Cast")));
                v.push(("e", self.expr(*source)));
                v.push(("from", J::s(&ty_s(self.thir[*source].ty))));
            }
            ExprKind::Use { source } => {
                v.push(("k", J::s("Use")));
                v.push(("e", self.expr(*source)));
            }
            ExprKind::NeverToAny { source } => {
                v.push(("k", J::s("NeverToAny")));
                v.push(("e", self.expr(*source)));
            }
            ExprKind::PointerCoercion { cast, source, .. } => {
                v.push(("k", J::s("PointerCoercion")));
                v.push(("cast", J::s(&format!("{:?}", cast))));
                v.push(("e", self.expr(*source)));
            }
            ExprKind::Loop { body } => {
                v.push(("k", J::s("Loop")));
                v.push(("body", self.expr(*body)));
            }
            ExprKind::LoopMatch { .. } => v.push(("k", J::s("LoopMatch"))),
            ExprKind::Let { expr, pat } => {
                v.push(("k", J::s("Let")));
                v.push(("e", self.expr(*expr)));
                v.push(("pat", self.pat(pat)));
            }
            ExprKind::Match { scrutinee, arms, match_source } => {
                v.push(("k", J::s("Match")));
                v.push(("src", J::s(&format!("{:?}", match_source))));
                v.push(("scrut", self.expr(*scrutinee)));
                let mut as_ = vec![];
                for a in arms.iter() {
                    let arm = &self.thir[*a];
                    let mut av = vec![("pat", self.pat(&arm.pattern)), ("body", self.expr(arm.body)), ("sp", span_j(self.tcx, arm.span))];
                    if let Some(g) = arm.guard {
                        av.push(("guard", self.expr(g)));
                    }
                    as_.push(J::obj(av));
                }
                v.push(("arms", J::Arr(as_)));
            }
            ExprKind::Block { block } => {
                v.push(("k", J::s("Block")));
                v.push(("b", self.block(*block)));
            }
            ExprKind::Assign { lhs, rhs } => {
                v.push(("k", J::s("Assign")));
                v.push(("l", self.expr(*lhs)));
                v.push(("r", self.expr(*rhs)));
            }
            ExprKind::AssignOp { op, lhs, rhs } => {
                v.push(("k", J::s("AssignOp")));
                v.push(("op", J::s(&format!("{:?}", op))));
                v.push(("l", self.expr(*lhs)));
                v.push(("r", self.expr(*rhs)));
            }
            ExprKind::Field { lhs, variant_index, name } => {
                v.push(("k", J::s("Field")));
                v.push(("idx", J::n(name.as_u32() as i64)));
                let lty = self.thir[*lhs].ty;
                if let ty::Adt(def, _) = lty.kind() {
                    let vd = def.variant(*variant_index);
                    v.push(("name", J::s(vd.fields[*name].name.as_str())));
                    v.push(("adt", J::s(&path_of(self.tcx, def.did()))));
                }
                v.push(("e", self.expr(*lhs)));
            }
            ExprKind::Index { lhs, index } => {
                v.push(("k", J::s("Index")));
                v.push(("e", self.expr(*lhs)));
                v.push(("index", self.expr(*index)));
            }
            ExprKind::VarRef { id } => {
                v.push(("k", J::s("Var")));
                v.push(("var", self.var(*id)));
            }
            ExprKind::UpvarRef { var_hir_id, .. } => {
                v.push(("k", J::s("Upvar")));
                v.push(("var", self.var(*var_hir_id)));
            }
            ExprKind::Borrow { borrow_kind, arg } => {
                v.push(("k", J::s("Borrow")));
                v.push(("mut", J::Bool(matches!(borrow_kind, rustc_middle::mir::BorrowKind::Mut { .. }))));
                v.push(("e", self.expr(*arg)));
            }
            ExprKind::RawBorrow { mutability, arg } => {
                v.push(("k", J::s("RawBorrow")));
                v.push(("mut", J::Bool(mutability.is_mut())));
                v.push(("e", self.expr(*arg)));
            }
            ExprKind::Break { value, .. } => {
                v.push(("k", J::s("Break")));
                if let Some(x) = value {
                    v.push(("e", self.expr(*x)));
                }
            }
            ExprKind::Continue { .. } => v.push(("k", J::s("Continue"))),
            ExprKind::ConstContinue { .. } => v.push(("k", J::s("ConstContinue"))),
            ExprKind::Return { value } => {
                v.push(("k", J::s("Return")));
                if let Some(x) = value {
                    v.push(("e", self.expr(*x)));
                }
            }
            ExprKind::Become { value } => {
                v.push(("k", J::s("Become")));
                v.push(("e", self.expr(*value)));
            }
            ExprKind::ConstBlock { did, .. } => {
                v.push(("k", J::s("ConstBlock")));
                v.push(("def", J::s(&path_of(self.tcx, *did))));
            }
            ExprKind::Repeat { value, count } => {
                v.push(("k", J::s("Repeat")));
                v.push(("e", self.expr(*value)));
                v.push(("count", J::s(&format!("{}", count))));
            }
            ExprKind::Array { fields } => {
                v.push(("k", J::s("Array")));
                v.push(("elems", J::Arr(fields.iter().map(|a| self.expr(*a)).collect())));
            }
            ExprKind::Tuple { fields } => {
                v.push(("k", J::s("Tuple")));
                v.push(("elems", J::Arr(fields.iter().map(|a| self.expr(*a)).collect())));
            }
            ExprKind::Adt(adt) => {
                v.push(("k", J::s("Adt")));
                v.push(("adt", J::s(&path_of(self.tcx, adt.adt_def.did()))));
                let vd = adt.adt_def.variant(adt.variant_index);
                v.push(("variant", J::s(vd.name.as_str())));
                let mut fs = vec![];
                for f in adt.fields.iter() {
                    fs.push(J::obj(vec![
                        ("idx", J::n(f.name.as_u32() as i64)),
                        ("name", J::s(vd.fields[f.name].name.as_str())),
                        ("e", self.expr(f.expr)),
                    ]));
                }
                v.push(("fields", J::Arr(fs)));
                if let AdtExprBase::Base(fru) = &adt.base {
                    v.push(("base", self.expr(fru.base)));
                }
            }
            ExprKind::PlaceTypeAscription { source, .. } | ExprKind::ValueTypeAscription { source, .. } => {
                v.push(("k", J::s("Ascribe")));
                v.push(("e", self.expr(*source)));
            }
            ExprKind::PlaceUnwrapUnsafeBinder { source }
            | ExprKind::ValueUnwrapUnsafeBinder { source }
            | ExprKind::WrapUnsafeBinder { source } => {
                v.push(("k", J::s("UnsafeBinder")));
                v.push(("e", self.expr(*source)));
            }
            ExprKind::Closure(c) => {
                v.push(("k", J::s("Closure")));
                v.push(("def", J::s(&path_of(self.tcx, c.closure_id.to_def_id()))));
                v.push(("upvars", J::Arr(c.upvars.iter().map(|a| self.expr(*a)).collect())));
            }
            ExprKind::Literal { lit, neg } => {
                v.push(("k", J::s("Lit")));
                let (lk, val) = match &lit.node {
                    LitKind::Str(s, _) => ("str", s.as_str().to_string()),
                    LitKind::ByteStr(b, _) => {
                        v.push(("bytes", J::Arr(b.as_byte_str().iter().map(|x| J::n(*x as i64)).collect())));
                        ("bytestr", String::new())
                    }
                    LitKind::CStr(b, _) => ("cstr", format!("{:?}", b.as_byte_str())),
                    LitKind::Byte(b) => ("byte", format!("{}", b)),
                    LitKind::Char(c) => ("char", c.to_string()),
                    LitKind::Int(i, _) => ("int", format!("{}{}", if *neg { "-" } else { "" }, i.get())),
                    LitKind::Float(s, _) => ("float", format!("{}{}", if *neg { "-" } else { "" }, s.as_str())),
                    LitKind::Bool(b) => ("bool", format!("{}", b)),
                    LitKind::Err(_) => ("err", String::new()),
                };
                v.push(("lk", J::s(lk)));
                v.push(("v", J::s(&val)));
            }
            ExprKind::NonHirLiteral { lit, .. } => {
                v.push(("k", J::s("Lit")));
                v.push(("lk", J::s("scalar")));
                v.push(("v", J::s(&format!("{:?}", lit))));
            }
            ExprKind::ZstLiteral { .. } => {
                v.push(("k", J::s("Zst")));
                if let ty::FnDef(did, args) = e.ty.kind() {
                    v.push(("fn", J::s(&path_of(self.tcx, *did))));
                    v.push(("local", J::Bool(did.is_local())));
                    let env = TypingEnv::post_analysis(self.tcx, self.owner.to_def_id());
                    if let Ok(Some(inst)) = Instance::try_resolve(self.tcx, env, *did, args) {
                        v.push(("res", J::s(&path_of(self.tcx, inst.def_id()))));
                    }
                }
            }
            ExprKind::NamedConst { def_id, .. } => {
                v.push(("k", J::s("NamedConst")));
                v.push(("def", J::s(&path_of(self.tcx, *def_id))));
            }
            ExprKind::ConstParam { def_id, .. } => {
                v.push(("k", J::s("ConstParam")));
                v.push(("def", J::s(&path_of(self.tcx, *def_id))));
            }
            ExprKind::StaticRef { def_id, .. } => {
                v.push(("k", J::s("StaticRef")));
                v.push(("def", J::s(&path_of(self.tcx, *def_id))));
            }
            ExprKind::InlineAsm(_) => v.push(("k", J::s("InlineAsm"))),
            ExprKind::ThreadLocalRef(did) => {
                v.push(("k", J::s("ThreadLocalRef")));
                v.push(("def", J::s(&path_of(self.tcx, *did))));
            }
            ExprKind::Yield { value } => {
                v.push(("k", J::s("Yield")));
                v.push(("e", self.expr(*value)));
            }
        }
        v.push(("ty", J::s(&ty_s(e.ty))));
        v.push(("sp", span_j(self.tcx, e.span)));
        J::obj(v)
    }
}
