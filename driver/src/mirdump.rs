// MIR -> JSON (CFG with structured assignments, calls, asserts, switches).
use crate::json::J;
use crate::{path_of, span_j, ty_s};
use rustc_hir::def_id::LocalDefId;
use rustc_middle::mir::*;
use rustc_middle::ty::{self, Instance, TyCtxt, TypingEnv};

fn place_j(p: &Place<'_>) -> J {
    let mut proj = vec![];
    for e in p.projection.iter() {
        proj.push(match e {
            ProjectionElem::Deref => J::s("*"),
            ProjectionElem::Field(f, _) => J::s(&format!(".{}", f.as_u32())),
            ProjectionElem::Index(l) => J::s(&format!("[_{}]", l.as_u32())),
            ProjectionElem::Downcast(name, idx) => J::s(&format!(
                "as {}",
                name.map(|n| n.to_string()).unwrap_or_else(|| format!("{}", idx.as_u32()))
            )),
            other => J::s(&format!("{:?}", other)),
        });
    }
    J::obj(vec![("l", J::n(p.local.as_u32() as i64)), ("proj", J::Arr(proj))])
}

fn operand_j<'tcx>(tcx: TyCtxt<'tcx>, owner: LocalDefId, o: &Operand<'tcx>) -> J {
    match o {
        Operand::Copy(p) => J::obj(vec![("k", J::s("copy")), ("p", place_j(p))]),
        Operand::Move(p) => J::obj(vec![("k", J::s("move")), ("p", place_j(p))]),
        Operand::Constant(c) => {
            let t = c.const_.ty();
            let mut v = vec![("k", J::s("const")), ("ty", J::s(&ty_s(t)))];
            if let ty::FnDef(did, args) = t.kind() {
                v.push(("fn", J::s(&path_of(tcx, *did))));
                let env = TypingEnv::post_analysis(tcx, owner.to_def_id());
                if let Ok(Some(inst)) = Instance::try_resolve(tcx, env, *did, args) {
                    v.push(("res", J::s(&path_of(tcx, inst.def_id()))));
                }
            } else {
                let env = TypingEnv::post_analysis(tcx, owner.to_def_id());
                if let Some(s) = c.const_.try_eval_scalar_int(tcx, env) {
                    let size = s.size();
                    let txt = if t.is_signed() {
                        format!("{}", s.to_int(size))
                    } else {
                        format!("{}", s.to_uint(size))
                    };
                    v.push(("v", J::s(&txt)));
                } else {
                    v.push(("s", J::s(&ty::print::with_no_trimmed_paths!(format!("{}", c.const_)))));
                }
            }
            J::obj(v)
        }
        #[allow(unreachable_patterns)]
        other => J::obj(vec![("k", J::s("other")), ("s", J::s(&format!("{:?}", other)))]),
    }
}

fn rvalue_j<'tcx>(tcx: TyCtxt<'tcx>, owner: LocalDefId, rv: &Rvalue<'tcx>) -> J {
    let op = |o: &Operand<'tcx>| operand_j(tcx, owner, o);
    match rv {
        Rvalue::Use(o, ..) => J::obj(vec![("k", J::s("Use")), ("ops", J::Arr(vec![op(o)]))]),
        Rvalue::Repeat(o, _) => J::obj(vec![("k", J::s("Repeat")), ("ops", J::Arr(vec![op(o)]))]),
        Rvalue::Ref(_, bk, p) => J::obj(vec![
            ("k", J::s("Ref")),
            ("mut", J::Bool(matches!(bk, BorrowKind::Mut { .. }))),
            ("p", place_j(p)),
        ]),
        Rvalue::ThreadLocalRef(d) => J::obj(vec![("k", J::s("ThreadLocalRef")), ("def", J::s(&path_of(tcx, *d)))]),
        Rvalue::RawPtr(_, p) => J::obj(vec![("k", J::s("RawPtr")), ("p", place_j(p))]),
        Rvalue::Cast(kind, o, t) => J::obj(vec![
            ("k", J::s("Cast")),
            ("cast", J::s(&format!("{:?}", kind))),
            ("ops", J::Arr(vec![op(o)])),
            ("to", J::s(&ty_s(*t))),
        ]),
        Rvalue::BinaryOp(b, ops) => J::obj(vec![
            ("k", J::s("BinaryOp")),
            ("op", J::s(&format!("{:?}", b))),
            ("ops", J::Arr(vec![op(&ops.0), op(&ops.1)])),
        ]),
        Rvalue::UnaryOp(u, o) => J::obj(vec![
            ("k", J::s("UnaryOp")),
            ("op", J::s(&format!("{:?}", u))),
            ("ops", J::Arr(vec![op(o)])),
        ]),
        Rvalue::Discriminant(p) => J::obj(vec![("k", J::s("Discriminant")), ("p", place_j(p))]),
        Rvalue::Aggregate(kind, ops) => {
            let ks = match &**kind {
                AggregateKind::Array(_) => "Array".to_string(),
                AggregateKind::Tuple => "Tuple".to_string(),
                AggregateKind::Adt(did, vidx, ..) => {
                    let adt = tcx.adt_def(*did);
                    format!("Adt:{}::{}", path_of(tcx, *did), adt.variant(*vidx).name)
                }
                AggregateKind::Closure(did, _) => format!("Closure:{}", path_of(tcx, *did)),
                other => format!("{:?}", other),
            };
            J::obj(vec![
                ("k", J::s("Aggregate")),
                ("agg", J::s(&ks)),
                ("ops", J::Arr(ops.iter().map(|o| op(o)).collect())),
            ])
        }
        Rvalue::CopyForDeref(p) => J::obj(vec![("k", J::s("CopyForDeref")), ("p", place_j(p))]),
        other => J::obj(vec![("k", J::s("Other")), ("s", J::s(&format!("{:?}", other)))]),
    }
}

pub fn body(tcx: TyCtxt<'_>, did: LocalDefId) -> J {
    if !tcx.is_mir_available(did.to_def_id()) {
        return J::Null;
    }
    let body = tcx.optimized_mir(did.to_def_id());
    let mut locals = vec![];
    for (_, d) in body.local_decls.iter_enumerated() {
        locals.push(J::obj(vec![
            ("ty", J::s(&ty_s(d.ty))),
        ]));
    }
    let mut dbg = vec![];
    for vdi in body.var_debug_info.iter() {
        if let VarDebugInfoContents::Place(p) = &vdi.value {
            dbg.push(J::obj(vec![("name", J::s(vdi.name.as_str())), ("p", place_j(p))]));
        }
    }
    let mut blocks = vec![];
    for (_, bb) in body.basic_blocks.iter_enumerated() {
        let mut stmts = vec![];
        for st in bb.statements.iter() {
            match &st.kind {
                StatementKind::Assign(b) => {
                    let (p, rv) = &**b;
                    stmts.push(J::obj(vec![
                        ("k", J::s("Assign")),
                        ("p", place_j(p)),
                        ("rv", rvalue_j(tcx, did, rv)),
                        ("sp", span_j(tcx, st.source_info.span)),
                    ]));
                }
                StatementKind::SetDiscriminant { place, variant_index } => {
                    stmts.push(J::obj(vec![
                        ("k", J::s("SetDiscriminant")),
                        ("p", place_j(place)),
                        ("variant", J::n(variant_index.as_u32() as i64)),
                    ]));
                }
                StatementKind::Intrinsic(i) => {
                    stmts.push(J::obj(vec![("k", J::s("Intrinsic")), ("s", J::s(&format!("{:?}", i)))]));
                }
                _ => {}
            }
        }
        let term = bb.terminator();
        let mut t: Vec<(&str, J)> = vec![];
        let tgt = |b: BasicBlock| J::n(b.as_u32() as i64);
        match &term.kind {
            TerminatorKind::Goto { target } => {
                t.push(("k", J::s("Goto")));
                t.push(("targets", J::Arr(vec![tgt(*target)])));
            }
            TerminatorKind::SwitchInt { discr, targets } => {
                t.push(("k", J::s("SwitchInt")));
                t.push(("discr", operand_j(tcx, did, discr)));
                let mut vals = vec![];
                let mut tg = vec![];
                for (val, b) in targets.iter() {
                    vals.push(J::s(&format!("{}", val)));
                    tg.push(tgt(b));
                }
                tg.push(tgt(targets.otherwise()));
                t.push(("values", J::Arr(vals)));
                t.push(("targets", J::Arr(tg)));
            }
            TerminatorKind::Return => t.push(("k", J::s("Return"))),
            TerminatorKind::Unreachable => t.push(("k", J::s("Unreachable"))),
            TerminatorKind::UnwindResume => t.push(("k", J::s("UnwindResume"))),
            TerminatorKind::UnwindTerminate(_) => t.push(("k", J::s("UnwindTerminate"))),
            TerminatorKind::Drop { place, target, unwind, .. } => {
                t.push(("k", J::s("Drop")));
                t.push(("p", place_j(place)));
                t.push(("targets", J::Arr(vec![tgt(*target)])));
                if let UnwindAction::Cleanup(b) = unwind {
                    t.push(("cleanup", tgt(*b)));
                }
            }
            TerminatorKind::Call { func, args, destination, target, unwind, .. } => {
                t.push(("k", J::s("Call")));
                t.push(("func", operand_j(tcx, did, func)));
                t.push(("args", J::Arr(args.iter().map(|a| operand_j(tcx, did, &a.node)).collect())));
                t.push(("dest", place_j(destination)));
                t.push(("targets", J::Arr(target.iter().map(|b| tgt(*b)).collect())));
                if let UnwindAction::Cleanup(b) = unwind {
                    t.push(("cleanup", tgt(*b)));
                }
            }
            TerminatorKind::Assert { cond, expected, msg, target, unwind } => {
                t.push(("k", J::s("Assert")));
                t.push(("cond", operand_j(tcx, did, cond)));
                t.push(("expected", J::Bool(*expected)));
                let (mk, mops): (String, Vec<J>) = match &**msg {
                    AssertKind::BoundsCheck { len, index } => (
                        "BoundsCheck".into(),
                        vec![operand_j(tcx, did, len), operand_j(tcx, did, index)],
                    ),
                    AssertKind::Overflow(op, l, r) => (
                        format!("Overflow:{:?}", op),
                        vec![operand_j(tcx, did, l), operand_j(tcx, did, r)],
                    ),
                    AssertKind::OverflowNeg(o) => ("OverflowNeg".into(), vec![operand_j(tcx, did, o)]),
                    AssertKind::DivisionByZero(o) => ("DivisionByZero".into(), vec![operand_j(tcx, did, o)]),
                    AssertKind::RemainderByZero(o) => ("RemainderByZero".into(), vec![operand_j(tcx, did, o)]),
                    AssertKind::MisalignedPointerDereference { .. } => ("ub_check:Misaligned".into(), vec![]),
                    AssertKind::NullPointerDereference => ("ub_check:Null".into(), vec![]),
                    AssertKind::InvalidEnumConstruction(_) => ("ub_check:InvalidEnum".into(), vec![]),
                    other => (format!("{:?}", other), vec![]),
                };
                t.push(("msg", J::s(&mk)));
                t.push(("msg_ops", J::Arr(mops)));
                t.push(("targets", J::Arr(vec![tgt(*target)])));
                if let UnwindAction::Cleanup(b) = unwind {
                    t.push(("cleanup", tgt(*b)));
                }
            }
            TerminatorKind::FalseEdge { real_target, .. } => {
                t.push(("k", J::s("Goto")));
                t.push(("targets", J::Arr(vec![tgt(*real_target)])));
            }
            TerminatorKind::FalseUnwind { real_target, .. } => {
                t.push(("k", J::s("Goto")));
                t.push(("targets", J::Arr(vec![tgt(*real_target)])));
            }
            other => {
                t.push(("k", J::s("Other")));
                t.push(("s", J::s(&format!("{:?}", other))));
                t.push(("targets", J::Arr(other_succ(term))));
            }
        }
        t.push(("sp", span_j(tcx, term.source_info.span)));
        blocks.push(J::obj(vec![
            ("stmts", J::Arr(stmts)),
            ("term", J::obj(t)),
            ("cleanup", J::Bool(bb.is_cleanup)),
        ]));
    }
    J::obj(vec![
        ("arg_count", J::n(body.arg_count as i64)),
        ("locals", J::Arr(locals)),
        ("debug", J::Arr(dbg)),
        ("blocks", J::Arr(blocks)),
    ])
}

fn other_succ(term: &Terminator<'_>) -> Vec<J> {
    term.successors().map(|b| J::n(b.as_u32() as i64)).collect()
}
