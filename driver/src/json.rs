// Minimal JSON value + writer (the driver has no cargo dependencies).
pub enum J {
    Null,
    Bool(bool),
    Num(i64),
    Str(String),
    Arr(Vec<J>),
    Obj(Vec<(String, J)>),
}

impl J {
    pub fn s(s: &str) -> J {
        J::Str(s.to_string())
    }
    pub fn n(n: i64) -> J {
        J::Num(n)
    }
    pub fn obj(v: Vec<(&str, J)>) -> J {
        J::Obj(v.into_iter().map(|(k, v)| (k.to_string(), v)).collect())
    }
    pub fn opt(o: Option<J>) -> J {
        o.unwrap_or(J::Null)
    }
    pub fn write(&self, out: &mut String) {
        match self {
            J::Null => out.push_str("null"),
            J::Bool(b) => out.push_str(if *b { "true" } else { "false" }),
            J::Num(n) => out.push_str(&n.to_string()),
            J::Str(s) => write_str(s, out),
            J::Arr(a) => {
                out.push('[');
                for (i, x) in a.iter().enumerate() {
                    if i > 0 {
                        out.push(',');
                    }
                    x.write(out);
                }
                out.push(']');
            }
            J::Obj(o) => {
                out.push('{');
                for (i, (k, v)) in o.iter().enumerate() {
                    if i > 0 {
                        out.push(',');
                    }
                    write_str(k, out);
                    out.push(':');
                    v.write(out);
                }
                out.push('}');
            }
        }
    }
}

fn write_str(s: &str, out: &mut String) {
    out.push('"');
    for c in s.chars() {
        match c {
            '"' => out.push_str("\\\""),
            '\\' => out.push_str("\\\\"),
            '\n' => out.push_str("\\n"),
            '\r' => out.push_str("\\r"),
            '\t' => out.push_str("\\t"),
            c if (c as u32) < 0x20 => out.push_str(&format!("\\u{:04x}", c as u32)),
            c => out.push(c),
        }
    }
    out.push('"');
}
