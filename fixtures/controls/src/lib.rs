//! Positive controls for the zero-expected rules of /verif: every construct below MUST be flagged
//! by the corresponding census on every run, otherwise the check is broken (exit 2).
#![allow(warnings)]
use std::cell::RefCell;
use std::collections::HashMap;
use std::rc::Rc;
use std::sync::atomic::{AtomicUsize, Ordering};
use std::sync::Mutex;

pub static mut COUNTER: u32 = 0;
pub static CACHE: Mutex<Vec<u32>> = Mutex::new(Vec::new());
pub static HITS: AtomicUsize = AtomicUsize::new(0);
thread_local! { pub static TL: RefCell<u32> = RefCell::new(0); }

pub struct HasCell {
    pub c: RefCell<u32>,
}
pub struct HasRcInside {
    pub inner: Vec<Option<Box<Inner>>>,
}
pub struct Inner {
    pub r: Rc<str>,
}

pub trait View: Default + Clone + PartialEq + std::fmt::Debug {
    fn as_i64(&self) -> Option<i64>;
    fn as_f64(&self) -> Option<f64>;
    fn null() -> Self;
}

pub fn c12_effects(x: u32) -> u32 {
    HITS.fetch_add(1, Ordering::SeqCst);
    let t = std::time::Instant::now();
    let _ = std::env::var("HOME");
    let _ = std::fs::read("/dev/null");
    let m: HashMap<u32, u32> = HashMap::new();
    let r = Rc::new(5u32);
    let c = RefCell::new(1u32);
    *c.borrow_mut() += 1;
    TL.with(|v| *v.borrow_mut() += 1);
    let a = &x as *const u32;
    let same = std::ptr::eq(a, a);
    std::thread::yield_now();
    CACHE.lock().map(|mut g| g.push(x));
    x + (*r) + t.elapsed().as_secs() as u32 + m.len() as u32 + same as u32
}

pub fn c01_forge<T: Clone>(v: &T) -> &'static T {
    Box::leak(Box::new(v.clone()))
}

pub fn c01_unsafe(v: &u32) -> u32 {
    unsafe {
        COUNTER += 1;
        *(v as *const u32)
    }
}

pub unsafe fn c01_unsafe_fn() {}

pub fn c01_transmute(v: u32) -> f32 {
    unsafe { std::mem::transmute::<u32, f32>(v) }
}

pub fn c15_reflection<T: 'static + View>(v: &T) -> usize {
    let n = std::any::type_name::<T>().len();
    let id = std::any::TypeId::of::<T>() == std::any::TypeId::of::<u32>();
    let d = T::default();
    n + std::mem::size_of::<T>() + id as usize + (d == *v) as usize
}

pub fn c15_any(v: &dyn std::any::Any) -> bool {
    v.downcast_ref::<u32>().is_some()
}

pub fn c08_panics(v: Option<u32>, r: Result<u32, String>) -> u32 {
    let a = v.unwrap();
    let b = r.expect("boom");
    if a > b {
        panic!("explicit");
    }
    if a == 7 {
        unreachable!();
    }
    assert!(a < 100);
    if a == 9 {
        std::process::exit(1);
    }
    a + b
}

pub fn c02_order(mut v: Vec<u32>) -> Vec<u32> {
    v.sort();
    v.dedup();
    v.reverse();
    let w: Vec<u32> = v.iter().rev().cloned().collect();
    let s: std::collections::BTreeSet<u32> = w.iter().cloned().collect();
    s.into_iter().collect()
}

pub fn c08_loop_forever(mut x: u32) -> u32 {
    loop {
        if x == 3 {
            x = 0;
        }
        x += 1;
    }
}

pub fn c08_infinite_iter() -> u32 {
    let mut s = 0;
    for i in std::iter::repeat(1u32) {
        s += i;
    }
    s
}

pub fn c08_recursion(n: u32) -> u32 {
    if n == 0 { 0 } else { c08_recursion(n - 1) + 1 }
}

pub fn c08_index(v: &Vec<u32>, i: usize, a: i64) -> u32 {
    let s = "abc";
    let _t = &s[1..i];
    let _n = a.abs();
    v[i] + (v.len() - i) as u32
}

pub fn c15_concrete(v: &Vec<u32>) -> usize {
    v.len()
}

pub fn c15_single_view<T: View>(v: &T) -> Option<f64> {
    v.as_f64()
}


/// C01-R6 positive control: a two-pass rewrite in which the first replacement feeds the second
pub fn c01_replace_chain(s: &str) -> String {
    s.replace("\\\\", "\\").replace("\\/", "/")
}

/// C01-R6 negative control: the second pattern cannot be formed by the first replacement
pub fn c01_replace_chain_ok(s: &str) -> String {
    s.replace('~', "~0").replace('/', "~1")
}
