"""A9 -- the hand-written post-checks of the parser, extracted as *facts* from the resolved program.

Each post-check repairs an over-acceptance of the PEG (implicit whitespace etc.).  It is modelled as a regular filter on
the span of one grammar rule; the filter's presence and parameters are read from THIR terms, never assumed: deleting or
weakening a check removes/changes the filter and the difference it used to hide reappears as a divergence.
"""
import os
import re
from . import thir as T
from .terms import Evaluator, Tm, subterms

M = "crate::parser::model::"


def _is_err(t):
    return t.k == "adt" and t.a[0] == "core::result::Result" and t.a[1] == "Err"


def _calls(t, suffix):
    return [x for x in subterms(t) if x.k == "call" and x.a[0].endswith(suffix)]


def _ne(t):
    """t is `a != b` -> (a, b)"""
    if t.k == "bin" and t.a[0] == "Ne":
        return t.a[1], t.a[2]
    if t.k == "call" and t.a[0].endswith("::ne") and "PartialEq" in t.a[0] and len(t.a) == 3:
        return t.a[1], t.a[2]
    if t.k == "un" and t.a[0] == "Not":
        x = t.a[1]
        if x.k == "bin" and x.a[0] == "Eq":
            return x.a[1], x.a[2]
        if x.k == "call" and x.a[0].endswith("::eq") and "PartialEq" in x.a[0] and len(x.a) == 3:
            return x.a[1], x.a[2]
    return None


TRIMS = {"trim": ("both", "unicode"), "trim_start": ("start", "unicode"), "trim_end": ("end", "unicode"),
         "trim_ascii": ("both", "ascii"), "trim_ascii_start": ("start", "ascii"), "trim_ascii_end": ("end", "ascii")}


# std methods that produce a text with other characters than their receiver's
REWRITES = {"replace", "replacen", "to_lowercase", "to_uppercase", "to_ascii_lowercase", "to_ascii_uppercase", "repeat",
            "escape_default", "escape_debug", "escape_unicode", "make_ascii_lowercase", "make_ascii_uppercase", "push_str",
            "insert_str", "insert", "remove", "retain", "truncate", "replace_range"}

# lookups by position whose None means "the grammar did not deliver what it always delivers"
STRUCTURAL_LOOKUPS = {"next", "nth", "first", "last", "get", "pop", "split_first", "split_last", "next_back", "peek"}

TRIM_MATCHES = {"trim_matches": "both", "trim_start_matches": "start", "trim_end_matches": "end"}


def _trim_of(t, base, pm=None):
    """t == base.trim*()  -> (side, charset) or None.  charset: "unicode" | "ascii" | ("set", [code points])"""
    if t.k == "call" and len(t.a) == 2 and t.a[1] == base:
        m = t.a[0].rsplit("::", 1)[-1]
        if "<impl str>" in t.a[0] and m in TRIMS:
            return TRIMS[m]
    if t.k == "call" and len(t.a) == 3 and t.a[1] == base and pm is not None:
        m = t.a[0].rsplit("::", 1)[-1]
        if "<impl str>" in t.a[0] and m in TRIM_MATCHES:
            cs = pm.char_pred_set(t.a[2])
            if cs is not None:
                return (TRIM_MATCHES[m], ("set", cs))
    return None


class _NotAGate(Exception):
    pass


class ParserModel:
    def __init__(self, prog):
        self.prog = prog
        self.ev = Evaluator(prog)
        self.notes = []
        self.p1 = self.extract_p1()
        self.seg = self.extract_segment_checks()
        self.p4 = self.extract_p4()
        self.ctrl = self.extract_ctrl_validator()
        self.slots = self.extract_slots()
        self.ops = self.extract_ops()

    def char_pred_set(self, f):
        """Code points accepted by a char predicate given as fn item / closure / char literal; None if unknown."""
        if f.k == "lit" and f.a[0] == "char":
            return [ord(f.a[1])]
        if f.k in ("fnitem", "closure"):
            body = self.ev.apply(f, [Tm("param", (31, "c"))])
            return self._pred_set(body, Tm("param", (31, "c")))
        return None

    def _pred_set(self, body, c):
        if body.k == "match" and body.a[0] == c:
            out = []
            for pat, g, b in body.a[1]:
                if b.k == "lit" and b.a[1] == "true" and g is None:
                    cs = self._pat_chars(pat)
                    if cs is None:
                        return None
                    out.extend(cs)
                elif not (b.k == "lit" and b.a[1] == "false"):
                    return None
            return sorted(set(out))
        if body.k == "logic" and body.a[0] == "Or":
            a, b = self._pred_set(body.a[1], c), self._pred_set(body.a[2], c)
            return sorted(set(a + b)) if a is not None and b is not None else None
        if body.k == "bin" and body.a[0] == "Eq" and body.a[1] == c and body.a[2].k == "lit" and body.a[2].a[0] == "char":
            return [ord(body.a[2].a[1])]
        if body.k == "call" and body.a[0].endswith("<impl char>::is_whitespace") and body.a[1] == c:
            return "unicode"
        return None

    def _pat_chars(self, pat):
        k = pat.get("k")
        if k == "Constant":
            v = pat["value"]
            m = re.fullmatch(r"'(.*)'", v)
            if m:
                ch = m.group(1)
                try:
                    ch = ch.encode().decode("unicode_escape") if ch.startswith("\\") else ch
                except Exception:
                    return None
                return [ord(ch)] if len(ch) == 1 else None
            return None
        if k == "Or":
            out = []
            for q in pat["pats"]:
                cs = self._pat_chars(q)
                if cs is None:
                    return None
                out.extend(cs)
            return out
        return None

    # ---- P1: whole input must equal its trim ---------------------------------------------------
    def extract_p1(self):
        p = self.prog.find_fn("crate::parser::parse_json_path")
        t = self.ev.summary(p)
        if t.k == "if" and _is_err(t.a[1]):
            ne = _ne(t.a[0])
            if ne:
                a, b = ne
                for x, y in ((a, b), (b, a)):
                    tr = _trim_of(y, x, self)
                    if tr and x.k == "param" and x.a[0] == 0:
                        return {"side": tr[0], "charset": tr[1]}
        self.notes.append("P1 (input == input.trim()) not found in parse_json_path")
        return None

    # ---- P2 / P3: checks in `segment` ----------------------------------------------------------------
    def extract_segment_checks(self):
        out = {}
        p = "crate::parser::segment"
        if p not in self.prog.bodies:
            self.notes.append("fn segment not found")
            return out
        t = self.ev.summary(p)
        if t.k != "match":
            return out
        for pat, g, b in t.a[1]:
            if pat.get("k") != "Variant":
                continue
            rule = pat["variant"]
            # the rejecting test of this arm: an `if` whose taken branch is Err (directly, or below a let-else / early return
            # that was rebuilt as a conditional), or the negated form with the Err in the else branch
            cands = []
            for x in subterms(b):
                if x.k == "if" and _is_err(x.a[1]):
                    cands.append((x.a[0], x))
                elif x.k == "if" and _is_err(x.a[2]) and x.a[0].k == "un" and x.a[0].a[0] == "Not":
                    cands.append((x.a[0].a[1], x))
            if cands:
                c, b = cands[0]
            if cands:
                # a local helper as the condition: look at what it computes
                for _ in range(3):
                    if c.k == "call" and c.a[0] in self.prog.bodies and self.prog.items[c.a[0]]["kind"] in ("Fn", "AssocFn") \
                            and self.char_pred_set(Tm("fnitem", (c.a[0],))) is None:
                        c = self.ev.apply(Tm("fnitem", (c.a[0],)), list(c.a[1:]))
                    else:
                        break
                ne = _ne(c)
                if ne:
                    a, bb = ne
                    for x, y in ((a, bb), (bb, a)):
                        tr = _trim_of(y, x, self)
                        if tr:
                            sp = _calls(x, "<impl str>::strip_prefix")
                            if sp and sp[0].a[2].k == "lit":
                                out[rule] = {"kind": "after-prefix-no-space", "prefix": sp[0].a[2].a[1], "side": tr[0], "charset": tr[1]}
                ws = _calls(c, "<impl char>::is_whitespace") + _calls(c, "<impl char>::is_ascii_whitespace")
                nth = _calls(c, "Iterator::nth")
                if ws and rule not in out:
                    if nth and nth[0].a[2].k == "lit":
                        out[rule] = {"kind": "no-space-at", "index": int(nth[0].a[2].a[1]),
                                     "charset": "ascii" if "ascii" in ws[0].a[0] else "unicode"}
                elif rule not in out and nth and nth[0].a[2].k == "lit" and c.k == "call" and c.a[0] in self.prog.bodies and len(c.a) == 2:
                    cs = self.char_pred_set(Tm("fnitem", (c.a[0],)))
                    if cs is not None:
                        out[rule] = {"kind": "no-space-at", "index": int(nth[0].a[2].a[1]), "charset": cs if cs == "unicode" else ("set", cs)}
                if rule not in out and nth and nth[0].a[2].k == "lit":
                    # nth(i).map(pred) / is_some_and(pred) / and_then ... with a character predicate
                    for x in subterms(c):
                        if x.k == "call" and x.a[0].startswith("core::option::Option::<T>::") and len(x.a) == 3 and x.a[2].k in ("fnitem", "closure") \
                                and any(y is nth[0] or y == nth[0] for y in subterms(x.a[1])):
                            cs = self.char_pred_set(x.a[2])
                            if cs is not None:
                                out[rule] = {"kind": "no-space-at", "index": int(nth[0].a[2].a[1]), "charset": cs if cs == "unicode" else ("set", cs)}
                if rule not in out:
                    out[rule] = {"kind": "unknown", "cond": str(c)[:200]}
        for r in ("child_segment", "descendant_segment"):
            if r not in out:
                self.notes.append("no blank-space check found for Rule::%s in fn segment" % r)
        return out

    # ---- P4: nothing between function name and "(" ---------------------------------------------
    def extract_p4(self):
        p = "crate::parser::function_expr"
        if p not in self.prog.bodies:
            return None
        t, trace, conds = self.ev.traced(p)
        for c in conds:
            nth = _calls(c, "Iterator::nth")
            if not nth:
                continue
            lens = _calls(nth[0].a[2], "<impl str>::len")
            # closure |c| c != '('
            for x in subterms(c):
                if x.k == "closure":
                    body = self.ev.apply(x, [Tm("param", (30, "c"))])
                    ne = _ne(body)
                    if ne and any(y.k == "lit" and y.a[1] == "(" for y in ne) and lens:
                        return {"char": "("}
        self.notes.append("P4 (char after the function name must be `(`) not found in function_expr")
        # a rejecting test that reads the rule's text but could not be interpreted: fail closed rather than model no check
        t0 = self.ev.summary(p)
        for x in subterms(t0):
            if x.k == "if" and (_is_err(x.a[1]) or _is_err(x.a[2])) and any(y.k == "call" and y.a[0].endswith("as_str") for y in subterms(x.a[0])):
                return {"unknown": "function_expr rejects some texts under a condition the model cannot read: %s" % str(x.a[0])[:160]}
        return None

    # ---- P5: character validators -------------------------------------------------------------------
    CHAR_CLASSES = {
        "is_control": [[0, 0x1F], [0x7F, 0x9F]],
        "is_ascii_control": [[0, 0x1F], [0x7F, 0x7F]],
        "is_whitespace": [[0x09, 0x0D], [0x20, 0x20], [0x85, 0x85], [0xA0, 0xA0], [0x1680, 0x1680], [0x2000, 0x200A], [0x2028, 0x2029], [0x202F, 0x202F], [0x205F, 0x205F], [0x3000, 0x3000]],
        "is_ascii_whitespace": [[0x09, 0x0A], [0x0C, 0x0D], [0x20, 0x20]],
        "is_ascii_digit": [[0x30, 0x39]],
        "is_ascii": [[0, 0x7F]],
    }

    def reject_set(self, c):
        """Ranges of characters for which the condition term `c` (over one <item> of chars()) is true; None if unknown."""
        def is_item(x):
            return any(y.k == "call" and y.a[0] == "<item>" for y in subterms(x)) or x.k == "field"
        if c.k == "bin" and c.a[0] in ("Le", "Lt", "Ge", "Gt", "Eq") and c.a[2].k == "lit" and c.a[2].a[0] == "char" and is_item(c.a[1]):
            o = ord(c.a[2].a[1])
            return {"Le": [[0, o]], "Lt": [[0, o - 1]] if o else [], "Ge": [[o, 0x10FFFF]], "Gt": [[o + 1, 0x10FFFF]], "Eq": [[o, o]]}[c.a[0]]
        if c.k == "call" and "<impl char>::" in c.a[0] and len(c.a) == 2 and is_item(c.a[1]):
            m = c.a[0].rsplit("::", 1)[1]
            return self.CHAR_CLASSES.get(m)
        if c.k == "logic" and c.a[0] == "Or":
            a, b = self.reject_set(c.a[1]), self.reject_set(c.a[2])
            return (a + b) if a is not None and b is not None else None
        return None

    def extract_ctrl_validator(self):
        """{fn path: rejected ranges | None} for local fns (&str) -> Result<&str,_>: a loop over chars() that returns Err when
        a character predicate holds.  None = a check whose effect could not be determined (fail closed by the users)."""
        out = {}
        for p, it in self.prog.items.items():
            if it["kind"] != "Fn" or p not in self.prog.bodies or len(it.get("inputs_s", [])) != 1 or "str" not in it["inputs_s"][0]:
                continue
            if not it.get("output_s", "").startswith("core::result::Result<&"):
                continue
            t, trace, conds = self.ev.traced(p)
            sets = [self.reject_set(c) for c in conds]
            # the search forms: chars()..find(pred) / any(pred) / position(pred) deciding Err
            for c in trace:
                if c.k == "call" and len(c.a) == 3 and c.a[2].k in ("closure", "fnitem") and c.a[0].rsplit("::", 1)[-1] in ("find", "any", "position") \
                        and any(y.k == "call" and y.a[0].endswith("<impl str>::chars") for y in subterms(c.a[1])):
                    try:
                        body = self.ev.apply(c.a[2], [self.ev.item_of(c.a[1])])
                    except Exception:
                        body = None
                    if body is not None:
                        sets.append(self.reject_set(body))
            known = [x for x in sets if x is not None]
            if known:
                rs = []
                for x in known:
                    rs.extend(x)
                out[p] = sorted(rs)
                if len(known) != len([c for c in conds if not (c.k == "call" and c.a[0].endswith("Iterator>::next"))]):
                    # further conditions of unknown effect
                    pass
            else:
                out[p] = None
        if not out:
            self.notes.append("no character validator found")
        return out

    # ---- per-slot transformations --------------------------------------------------------------
    SLOTS = {
        (M + "Selector", "Name", "0"): "Selector::Name",
        (M + "Literal", "String", "0"): "Literal::String",
        (M + "SingularQuerySegment", "Name", "0"): "SingularQuerySegment::Name",
        (M + "Selector", "Index", "0"): "Selector::Index",
        (M + "Selector", "Slice", "0"): "Selector::Slice.0",
        (M + "Selector", "Slice", "1"): "Selector::Slice.1",
        (M + "Selector", "Slice", "2"): "Selector::Slice.2",
        (M + "SingularQuerySegment", "Index", "0"): "SingularQuerySegment::Index",
        (M + "Literal", "Int", "0"): "Literal::Int",
        (M + "Literal", "Float", "0"): "Literal::Float",
    }

    def extract_slots(self):
        """slot label -> {"sites": n, "steps": set of steps every site applies}
        steps: "trim", "ctrl<=N", "parse:i64", "parse:f64", "range[lo,hi]"."""
        from rules import shared
        prog, ev = self.prog, self.ev
        validators = shared.range_validators(prog, ev)
        region, _ = prog.parser_region()
        tops = sorted(p for p in region if "::{closure#" not in p and not prog.is_expansion(p))
        found = {}
        for p in tops:
            t, trace, conds = ev.traced(p)
            cands = [x for x in subterms(t) if x.k == "adt"]
            # values built inside closures handed to iterator adaptors (`into_inner().map(|r| ..).collect()`)
            for cp in prog.closures_in(p):
                try:
                    cands.extend(x for x in subterms(ev.summary(cp)) if x.k == "adt")
                except Exception:
                    pass
            for c in trace:
                for a in c.a[1:]:
                    if isinstance(a, Tm):
                        cands.extend(x for x in subterms(a) if x.k == "adt")
                # Segment::name(text) is a constructor function for Selector::Name
                if c.k == "call" and c.a[0] == M + "Segment::name":
                    found.setdefault("Segment::name", []).append(self.steps_of(c.a[1], validators, p))
            seen = set()
            for x in cands:
                for (adt, variant, field), label in self.SLOTS.items():
                    if x.a[0] == adt and x.a[1] == variant and (id(x.n), field) not in seen:
                        seen.add((id(x.n), field))
                        ft = dict(x.a[2]).get(field)
                        if ft is None:
                            continue
                        if p.startswith("crate::parser::model::"):
                            continue        # pass-through constructor (e.g. Segment::name): its call sites are censused instead
                        for alt in shared.alternatives(prog, ev, ft):
                            if alt.k == "adt" and alt.a[1] == "None":
                                continue
                            if alt.k == "loopvar":
                                continue
                            if alt.k == "adt" and alt.a[1] == "Some":
                                alt = alt.a[2][0][1]
                            found.setdefault(label, []).append(self.steps_of(alt, validators, p))
        out = {}
        for label, lst in found.items():
            common = set(lst[0])
            for s in lst[1:]:
                common &= set(s)
            trans = sorted({x for s_ in lst for x in s_ if x.startswith("transform:")})
            out[label] = {"sites": len(lst), "steps": sorted(x for x in common if not x.startswith("transform:")), "transforms": trans}
        return out

    def _verbatim(self, t, depth=0):
        """is the text term a (trimmed / cut / validated) part of a parameter's text, characters unchanged?"""
        if depth > 12 or not isinstance(t, Tm):
            return False
        if t.k == "param":
            return True
        if t.k == "try":
            return self._verbatim(t.a[0], depth + 1)
        if t.k == "adt" and t.a[1] in ("Ok", "Some") and len(t.a[2]) == 1:
            return self._verbatim(t.a[2][0][1], depth + 1)
        if t.k in ("if",):
            return self._verbatim(t.a[1], depth + 1) and self._verbatim(t.a[2], depth + 1)
        if t.k == "match":
            return all(self._verbatim(b, depth + 1) or (b.k == "adt" and b.a[1] in ("Err", "None")) for _, _, b in t.a[1])
        if t.k == "index":
            return self._verbatim(t.a[0], depth + 1)
        if t.k == "call" and len(t.a) >= 2:
            m = t.a[0].rsplit("::", 1)[-1]
            if m in ("to_string", "to_owned", "as_str", "deref", "as_ref", "borrow", "clone", "into", "from", "index", "get", "unwrap_or_default",
                     "strip_prefix", "strip_suffix", "unwrap_or", "unwrap") or m in TRIMS or m in TRIM_MATCHES or t.a[0] in self.ctrl:
                return self._verbatim(t.a[1], depth + 1)
        return False

    def steps_of(self, t, validators, fn, depth=0):
        steps = []
        for x in subterms(t):
            if x.k == "closure" and depth < 3:
                # what a combinator's closure does to the text / value (opt.map(|x| validate(parse(x))).transpose()?)
                try:
                    body = self.ev.apply(x, [Tm("param", (95, "x"))])
                except Exception:
                    body = None
                if body is not None and not (body.k == "call" and body.a[0] == "<apply>"):
                    steps.extend(self.steps_of(body, validators, fn, depth + 1))
                continue
            if x.k != "call":
                continue
            name = x.a[0]
            m = name.rsplit("::", 1)[-1]
            if "<impl str>" in name and m in TRIMS:
                steps.append("trim:%s:%s" % TRIMS[m])
            if name in self.ctrl:
                rs = self.ctrl[name]
                if rs is None:
                    steps.append("unknown-check:" + name.rsplit("::", 1)[1])
                elif rs == [[0, rs[0][1]]] and len(rs) == 1:
                    steps.append("ctrl<=%d" % rs[0][1])
                else:
                    steps.append("reject:" + ",".join("%d-%d" % (a, b) for a, b in rs))
            if name in validators:
                steps.append("range[%d,%d]" % validators[name])
            if m in REWRITES and ("<impl str>" in name or "string::String" in name or "alloc::str" in name):
                steps.append("transform:" + m)
            if name == "core::str::<impl str>::parse":
                ty = (x.n or {}).get("gargs") or []
                steps.append("parse:%s" % (ty[0] if ty else "?"))
            if name in self.prog.bodies and name not in self.ctrl and name not in validators:
                # helper functions such as parse_string / parse_number: look inside
                inner = self.ev.summary(name)
                steps.extend(self.steps_of(inner, validators, name))
                # a text-to-text helper that is not a plain cut of its argument rewrites the text between the query and the AST
                out_s = self.prog.items.get(name, {}).get("output_s", "") or ""
                if re.search(r"(^|[^\w])(String|str)($|[^\w])", out_s) and self.prog.items.get(name, {}).get("kind") in ("Fn", "AssocFn") \
                        and not name.startswith(M) and not self._verbatim(inner):
                    steps.append("transform:" + name.rsplit("::", 1)[1])
        # bounds checks against named constants directly in the constructing function (parse_number)
        return steps

    def extract_validator_sites(self, grammar):
        """[{"fn", "validator", "where", "rules": set | None, "trims", "reject"}]: every call of a shape-recognised
        character validator in the AST builder, with the grammar rule(s) whose span it is applied to."""
        pt = PairTyping(self.prog, self.ev, grammar)
        out = []
        for p in pt.tops:
            for sd in pt.sited(p):
                t = sd["term"]
                if t is not None and t.k == "call" and t.a[0] in self.ctrl and len(t.a) >= 2 and p != t.a[0]:
                    rules, trims = pt.text_rules(t.a[1], sd["pc"], p)
                    out.append({"fn": p, "validator": t.a[0], "where": T.loc(sd["node"]) if sd.get("node") else "-",
                                "rules": sorted(rules) if rules is not None else None, "trims": [list(x) for x in trims],
                                "reject": self.ctrl[t.a[0]], "arg": str(t.a[1])[:160]})
        return out

    # ---- acceptance conditions of text-taking constructors (parse_string) ------------------------------------
    def extract_text_gates(self, grammar):
        """Functions fn(text: &str) -> Result<_, _> of the AST builder whose result is decided by conditions on the text alone
        (starts_with / ends_with / contains / len comparisons / is_empty, combined by && || !): the accepted texts as a
        regular expression over the (trimmed, validated) text.  -> [{"fn", "contexts", "trims", "accept": expr}]
        Functions whose result depends on anything else (a number parse, ...) are not gates and are skipped."""
        from . import grammarmodel as GM
        pt = PairTyping(self.prog, self.ev, grammar)
        pt.validators = set(self.ctrl)
        out = []
        for p in pt.tops:
            it = self.prog.items.get(p, {})
            ins = it.get("inputs_s") or []
            if it.get("kind") != "Fn" or len(ins) != 1 or "str" not in ins[0] or not (it.get("output_s") or "").startswith("core::result::Result<"):
                continue
            if p in self.ctrl:
                continue
            t = self.ev.summary(p)
            try:
                acc, trims = self._accept_lang(t, GM)
            except _NotAGate:
                continue
            if acc is None:
                continue
            ctxs, tr2 = pt.text_contexts(Tm("param", (0, self.prog.params(p)[0]["pat"].get("name", "s"))), [], p)
            out.append({"fn": p, "contexts": sorted(ctxs) if ctxs is not None else None, "trims": [list(x) for x in trims + tuple(x for x in tr2 if x not in trims)],
                        "accept": acc})
        return out

    def _subject(self, s):
        """s is the function's text parameter, possibly trimmed / validated: -> trims tuple, or raise"""
        trims = ()
        for _ in range(8):
            if s.k == "try":
                s = s.a[0]
            elif s.k == "call" and len(s.a) >= 2 and "<impl str>" in s.a[0] and s.a[0].rsplit("::", 1)[-1] in TRIMS:
                trims = trims + (TRIMS[s.a[0].rsplit("::", 1)[-1]],)
                s = s.a[1]
            elif s.k == "call" and len(s.a) >= 2 and s.a[0] in self.ctrl:
                s = s.a[1]
            else:
                break
        if s.k == "param" and s.a[0] == 0:
            return trims
        raise _NotAGate()

    def _accept_lang(self, t, GM):
        trims_seen = []

        def bytes_le(k):
            if k < 0:
                return GM.cset([])
            if k == 0:
                return GM.eps()
            if k > 8:
                raise _NotAGate()
            W = [GM.cset([[0, 0x7F]]), GM.cset([[0x80, 0x7FF]]), GM.cset([[0x800, 0xFFFF]]), GM.cset([[0x10000, 0x10FFFF]])]
            return GM.alt(GM.eps(), *[GM.seq(W[w - 1], bytes_le(k - w)) for w in range(1, 5) if w <= k])

        def lit_of(x):
            if x.k == "lit" and x.a[0] in ("char", "str"):
                return x.a[1]
            raise _NotAGate()

        def cond(c):
            if c.k == "logic":
                a, b = cond(c.a[1]), cond(c.a[2])
                return GM.and_(a, b) if c.a[0] == "And" else GM.alt(a, b)
            if c.k == "un" and c.a[0] == "Not":
                return GM.not_(cond(c.a[1]))
            if c.k == "call" and "<impl str>" in c.a[0] and len(c.a) >= 2:
                m = c.a[0].rsplit("::", 1)[-1]
                trims_seen.append(self._subject(c.a[1]))
                if m == "starts_with" and len(c.a) == 3:
                    return GM.seq(GM.lit(lit_of(c.a[2])), GM.anystar())
                if m == "ends_with" and len(c.a) == 3:
                    return GM.seq(GM.anystar(), GM.lit(lit_of(c.a[2])))
                if m == "contains" and len(c.a) == 3:
                    return GM.seq(GM.anystar(), GM.lit(lit_of(c.a[2])), GM.anystar())
                if m == "is_empty" and len(c.a) == 2:
                    return GM.eps()
                raise _NotAGate()
            if c.k == "bin" and c.a[0] in ("Gt", "Ge", "Lt", "Le", "Eq", "Ne"):
                l, r = c.a[1], c.a[2]
                op = c.a[0]
                if r.k == "call" and r.a[0].endswith("<impl str>::len") and l.k == "lit":
                    l, r = r, l
                    op = {"Gt": "Lt", "Ge": "Le", "Lt": "Gt", "Le": "Ge"}.get(op, op)
                if l.k == "call" and l.a[0].endswith("<impl str>::len") and len(l.a) == 2 and r.k == "lit" and r.a[0] == "int":
                    trims_seen.append(self._subject(l.a[1]))
                    k = int(r.a[1])
                    if op == "Gt":
                        return GM.not_(bytes_le(k))
                    if op == "Ge":
                        return GM.not_(bytes_le(k - 1))
                    if op == "Lt":
                        return bytes_le(k - 1)
                    if op == "Le":
                        return bytes_le(k)
                    eq = GM.and_(bytes_le(k), GM.not_(bytes_le(k - 1)))
                    return eq if op == "Eq" else GM.not_(eq)
            raise _NotAGate()

        def acc(t, depth=0):
            if depth > 12:
                raise _NotAGate()
            if t.k == "adt" and t.a[1] == "Ok":
                return GM.anystar()
            if t.k == "adt" and t.a[1] == "Err":
                return GM.cset([])
            if t.k == "if":
                c = cond(t.a[0])
                return GM.alt(GM.and_(c, acc(t.a[1], depth + 1)), GM.and_(GM.not_(c), acc(t.a[2], depth + 1)))
            raise _NotAGate()

        a = acc(t)
        if not trims_seen:
            return None, ()
        if any(x != trims_seen[0] for x in trims_seen):
            raise _NotAGate()
        return a, trims_seen[0]

    # ---- P8: comparison operators ---------------------------------------------------------------
    def extract_ops(self):
        from . import tables
        p = self.prog.inherent_method(M + "Comparison", "try_new")
        t = self.ev.summary(p)
        acc = []
        if t.k == "match":
            for tok in tables.str_constants(t.a[1]):
                sel = tables.select(t.a[1], ("s", tok))
                if len(sel) == 1 and t.a[1][sel[0][0]][2].k == "adt" and t.a[1][sel[0][0]][2].a[1] == "Ok":
                    acc.append(tok)
            sel = tables.select(t.a[1], ("s*",))
            other_ok = len(sel) == 1 and t.a[1][sel[0][0]][2].k == "adt" and t.a[1][sel[0][0]][2].a[1] == "Ok"
            return {"accepted": acc, "other_accepted": other_ok}
        self.notes.append("Comparison::try_new is not a match on the operator")
        return {"accepted": [], "other_accepted": True, "unknown": "Comparison::try_new does not decide by a match on the operator text: which "
                "operator strings it accepts could not be read"}


# ---- census of rejecting checks in the AST builder ---------------------------------------------------------
def rejection_census(prog):
    """Every construction of `Err` in the functions reachable from parse_json_path, classified:
    * "fallthrough": the whole body of a catch-all arm of a dispatch on `<pair>.as_rule()` (the arm for rule kinds the
      grammar cannot produce at this place);
    * "check": anything else - a condition under which a text that the grammar accepted is rejected.
    Checks are attributed to the function a reader would look for them in: closures to their function, a private helper
    that is not in the inventory of known functions and has exactly one calling function to that caller.
    -> (list of {"owner", "fn", "where", "kind"}, number of bodies walked)"""
    import json as _json
    from . import thir as T, facts as _facts
    region, _ = prog.parser_region()
    inv_path = os.path.join(_facts.VERIF, "spec", "inventory.json")
    try:
        inventory = set(_json.load(open(inv_path))["functions"])
    except Exception:
        inventory = None
    bodies = sorted(p for p in region if p in prog.bodies and not prog.is_expansion(p))
    E = prog.edges()
    callers = {}
    for p in bodies:
        for callee, _site in E.get(p, []):
            if callee in prog.bodies:
                callers.setdefault(prog.owner_fn(callee), set()).add(prog.owner_fn(p))

    def attribute(owner):
        for _ in range(4):
            if inventory is None or owner in inventory:
                return owner
            cs = {c for c in callers.get(owner, ()) if c != owner}
            if len(cs) != 1:
                return owner
            owner = next(iter(cs))
        return owner

    def is_err(e):
        e = T.strip(e)
        if e.get("k") == "Return" and isinstance(e.get("e"), dict):
            e = T.strip(e["e"])
        return e if e.get("k") == "Adt" and e.get("variant") == "Err" and "Result" in (e.get("adt") or e.get("ty") or "") else None

    out = []
    for p in bodies:
        ft_nodes = set()
        for x in T.walk(prog.bodies[p]["thir"]["root"]):
            if x.get("k") == "Match":
                sc = T.peel(x["scrut"])
                if sc.get("k") == "Call" and (sc.get("fn") or "").endswith("::as_rule"):
                    for a in x["arms"]:
                        pat = a["pat"]
                        while pat.get("k") in ("Deref", "DerefPattern"):
                            pat = pat["sub"]
                        if "guard" not in a and (pat.get("k") == "Wild" or (pat.get("k") == "Binding" and not pat.get("sub"))):
                            e = is_err(a["body"])
                            if e is not None:
                                ft_nodes.add(id(e))
        # "a child / character that the grammar guarantees is missing": the None side of next()/nth()/first()/... written as
        # let-else, match or if-let (the same thing as `.ok_or(err)?` on that call, which constructs no Err here at all)
        def positional(e):
            e = T.peel(e)
            return e.get("k") == "Call" and (e.get("fn") or "").rsplit("::", 1)[-1] in STRUCTURAL_LOOKUPS

        def errs_in(e):
            return [id(y) for y in T.walk(e) if y.get("k") == "Adt" and y.get("variant") == "Err"]

        for x in T.walk(prog.bodies[p]["thir"]["root"]):
            k = x.get("k")
            if k == "Block":
                for st in x["b"]["stmts"]:
                    if st.get("k") != "Expr" and "else" in st and "init" in st and positional(st["init"]):
                        ft_nodes.update(errs_in({"k": "Block", "b": st["else"]}))
            elif k == "Match" and positional(x["scrut"]):
                for a in x["arms"]:
                    pat = a["pat"]
                    while pat.get("k") in ("Deref", "DerefPattern"):
                        pat = pat["sub"]
                    if "guard" not in a and ((pat.get("k") == "Variant" and pat.get("variant") == "None") or pat.get("k") == "Wild"):
                        e = is_err(a["body"])
                        if e is not None:
                            ft_nodes.add(id(e))
            elif k == "If" and "else" in x:
                c = T.peel(x["cond"])
                if c.get("k") == "Let" and positional(c["e"]):
                    e = is_err(x["else"])
                    if e is not None:
                        ft_nodes.add(id(e))
        for x in T.walk(prog.bodies[p]["thir"]["root"]):
            if x.get("k") == "Adt" and x.get("variant") == "Err" and "Result" in (x.get("adt") or x.get("ty") or ""):
                out.append({"fn": p, "owner": attribute(prog.owner_fn(p)), "where": T.loc(x),
                            "kind": "fallthrough" if id(x) in ft_nodes else "check"})
    return out, len(bodies)


# ---- which grammar rule's text does a validator see? ---------------------------------------------------------
def grammar_children(grammar):
    """rule -> (set of rules that can be direct child pairs, set of rules that can be the FIRST child pair).
    Silent rules are looked through; an atomic rule (`@`) produces no inner pairs."""
    rules = grammar.rules

    def pairs(e, first, stack):
        k = e["k"]
        if k == "ident":
            n = e["v"]
            if n not in rules:
                return set(), True
            if rules[n]["ty"] == "silent":
                if n in stack:
                    return set(), True
                return pairs(rules[n]["expr"], first, stack | {n})
            return {n}, False
        if k == "seq":
            a, na = pairs(e["a"], first, stack)
            if first and not na:
                return a, False
            b, nb = pairs(e["b"], first, stack)
            return a | b, na and nb
        if k == "choice":
            a, na = pairs(e["a"], first, stack)
            b, nb = pairs(e["b"], first, stack)
            return a | b, na or nb
        if k in ("opt", "rep"):
            return pairs(e["e"], first, stack)[0], True
        if k == "rep1":
            return pairs(e["e"], first, stack)
        if k == "repn":
            s, n = pairs(e["e"], first, stack)
            return s, n or e.get("min", 0) == 0
        if k == "push":
            return pairs(e["e"], first, stack)
        return set(), True

    out = {}
    for n, r in rules.items():
        if r["ty"] == "atomic":
            out[n] = (set(), set())
        else:
            out[n] = (pairs(r["expr"], False, {n})[0], pairs(r["expr"], True, {n})[0])
    return out


class PairTyping:
    """Abstract interpretation of the pest `Pair` values of the AST builder: the set of grammar rules a pair term can
    be an instance of, from (1) the arm of a dispatch on `.as_rule()` it is used under, (2) its position in the parent
    (`into_inner()` item / first child) and (3) for parameters, the union over the call sites."""

    def __init__(self, prog, ev, grammar):
        self.prog, self.ev, self.grammar = prog, ev, grammar
        self.kids = grammar_children(grammar)
        region, _ = prog.parser_region()
        self.tops = sorted(p for p in region if "::{closure#" not in p and p in prog.bodies and not prog.is_expansion(p))
        self._sited = {}

    def sited(self, p):
        if p not in self._sited:
            try:
                self._sited[p] = self.ev.sited(p)
            except Exception:
                self._sited[p] = []
        return self._sited[p]

    def call_sites(self, f):
        out = []
        for p in self.tops:
            for s in self.sited(p):
                t = s["term"]
                if t is not None and t.k == "call" and t.a[0] == f:
                    out.append((p, t, s["pc"]))
        return out

    def _arm_rule(self, x, pc):
        got = None
        for c in pc:
            if c[0] == "arm" and c[1].k == "call" and c[1].a[0].endswith("::as_rule") and len(c[1].a) == 2 and c[1].a[1] == x:
                pat = c[2]
                while pat.get("k") in ("Deref", "DerefPattern"):
                    pat = pat["sub"]
                if pat.get("k") == "Variant":
                    got = {pat["variant"]}
        return got

    def pair_rules(self, x, pc, fn, depth=0):
        """set of rule names or None (unknown)"""
        if depth > 30 or not isinstance(x, Tm):
            return None
        by_arm = self._arm_rule(x, pc)
        if by_arm is not None:
            return by_arm
        st = self.structural(x, pc, fn, depth)
        return st

    def structural(self, x, pc, fn, depth):
        if x.k == "try":
            return self.pair_rules(x.a[0], pc, fn, depth + 1)
        if x.k == "proj" and str(x.a[1]).split(".")[0] in ("Option::Some", "Result::Ok"):
            return self.pair_rules(x.a[0], pc, fn, depth + 1)
        if x.k == "call":
            name = x.a[0]
            m = name.rsplit("::", 1)[-1]
            if name == "<item>" and len(x.a) == 2:
                src = x.a[1]
                if src.k == "call" and src.a[0].endswith("::into_inner") and len(src.a) == 2:
                    par = self.pair_rules(src.a[1], pc, fn, depth + 1)
                    if par is None:
                        return None
                    out = set()
                    for r in par:
                        out |= self.kids.get(r, (set(), set()))[0]
                    return out
                return None
            if m in ("ok_or", "ok_or_else") and name.startswith("core::option::Option"):
                return self.pair_rules(x.a[1], pc, fn, depth + 1)
            if m == "next" and len(x.a) == 2:
                src = x.a[1]
                if src.k == "call" and src.a[0].endswith("::into_inner") and len(src.a) == 2:
                    par = self.pair_rules(src.a[1], pc, fn, depth + 1)
                    if par is None:
                        return None
                    out = set()
                    for r in par:
                        out |= self.kids.get(r, (set(), set()))[1]
                    return out
                return None
            if m == "clone" and len(x.a) == 2:
                return self.pair_rules(x.a[1], pc, fn, depth + 1)
            if name in self.prog.bodies and self.prog.items.get(name, {}).get("kind") in ("Fn", "AssocFn"):
                inner = self.ev.apply(Tm("fnitem", (name,)), list(x.a[1:]))
                if inner is not None and not (inner.k == "call" and inner.a[0] == name):
                    return self.pair_rules(inner, pc, fn, depth + 1)
            return None
        if x.k == "param":
            out = set()
            sites = self.call_sites(fn)
            if not sites:
                return None
            for caller, t, cpc in sites:
                i = x.a[0] + 1
                if i >= len(t.a):
                    return None
                r = self.pair_rules(t.a[i], cpc, caller, depth + 1)
                if r is None:
                    return None
                out |= r
            return out
        return None

    def parent_rules(self, x, pc, fn, depth=0):
        """rules of the pair whose child `x` is (None when not derivable from the term's structure)"""
        for _ in range(6):
            if x.k == "try" or (x.k == "proj" and str(x.a[1]).split(".")[0] in ("Option::Some", "Result::Ok")):
                x = x.a[0]
            elif x.k == "call" and x.a[0].rsplit("::", 1)[-1] in ("ok_or", "ok_or_else", "clone") and len(x.a) >= 2:
                x = x.a[1]
            else:
                break
        if x.k == "call" and x.a[0] in self.prog.bodies and self.prog.items.get(x.a[0], {}).get("kind") in ("Fn", "AssocFn"):
            inner = self.ev.apply(Tm("fnitem", (x.a[0],)), list(x.a[1:]))
            if inner is not None and not (inner.k == "call" and inner.a[0] == x.a[0]) and depth < 4:
                return self.parent_rules(inner, pc, fn, depth + 1)
            return None
        if x.k == "call" and len(x.a) == 2 and (x.a[0] == "<item>" or x.a[0].rsplit("::", 1)[-1] == "next"):
            src = x.a[1]
            if src.k == "call" and src.a[0].endswith("::into_inner") and len(src.a) == 2:
                return self.pair_rules(src.a[1], pc, fn, 1)
        return None

    def text_contexts(self, t, pc, fn, depth=0):
        """like text_rules, with the parent rule where the term's structure shows it: -> (set of (parent, rule) / (rule,) | None, trims)"""
        trims = ()
        for _ in range(8):
            if t.k == "call" and "<impl str>" in t.a[0] and t.a[0].rsplit("::", 1)[-1] in TRIMS and len(t.a) >= 2:
                trims = trims + (TRIMS[t.a[0].rsplit("::", 1)[-1]],)
                t = t.a[1]
            elif t.k == "try":
                t = t.a[0]
            elif t.k == "call" and t.a[0] in getattr(self, "validators", ()) and len(t.a) >= 2:
                t = t.a[1]
            else:
                break
        if t.k == "call" and t.a[0].endswith("::as_str") and "Pair" in t.a[0] and len(t.a) == 2:
            names = self.pair_rules(t.a[1], pc, fn, 1)
            if names is None:
                return None, trims
            par = self.parent_rules(t.a[1], pc, fn)
            out = set()
            for n in names:
                ps = [p for p in (par or ()) if n in self.kids.get(p, (set(), set()))[0]]
                if ps:
                    out |= {(p, n) for p in ps}
                else:
                    out.add((n,))
            return out, trims
        if t.k == "param" and depth < 24:
            out = set()
            sites = self.call_sites(fn)
            if not sites:
                return None, trims
            for caller, ct, cpc in sites:
                i = t.a[0] + 1
                if i >= len(ct.a):
                    return None, trims
                r, tr = self.text_contexts(ct.a[i], cpc, caller, depth + 1)
                if r is None:
                    return None, trims
                trims = trims + tuple(x for x in tr if x not in trims)
                out |= r
            return out, trims
        return None, trims

    def text_rules(self, t, pc, fn, depth=0):
        """rules whose span the &str term `t` is (a part of); trims are looked through.  -> (set | None, ((side, charset), ..))"""
        trimmed = ()
        for _ in range(8):
            if t.k == "call" and "<impl str>" in t.a[0] and t.a[0].rsplit("::", 1)[-1] in TRIMS and len(t.a) >= 2:
                trimmed = trimmed + (TRIMS[t.a[0].rsplit("::", 1)[-1]],)
                t = t.a[1]
            elif t.k == "try":
                t = t.a[0]
            else:
                break
        if t.k == "call" and t.a[0].endswith("::as_str") and "Pair" in t.a[0] and len(t.a) == 2:
            return self.pair_rules(t.a[1], pc, fn, depth + 1), trimmed
        if t.k == "param" and depth < 24:
            out = set()
            sites = self.call_sites(fn)
            if not sites:
                return None, trimmed
            for caller, ct, cpc in sites:
                i = t.a[0] + 1
                if i >= len(ct.a):
                    return None, trimmed
                r, tr = self.text_rules(ct.a[i], cpc, caller, depth + 1)
                if r is None:
                    return None, trimmed
                trimmed = trimmed + tuple(x for x in tr if x not in trimmed)
                out |= r
            return out, trimmed
        return None, trimmed
