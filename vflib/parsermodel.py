"""A9 -- the hand-written post-checks of the parser, extracted as *facts* from the resolved program.

Each post-check repairs an over-acceptance of the PEG (implicit whitespace etc.).  It is modelled as a regular filter on
the span of one grammar rule; the filter's presence and parameters are read from THIR terms, never assumed: deleting or
weakening a check removes/changes the filter and the difference it used to hide reappears as a divergence.
"""
import re
from . import thir as T
from .terms import Evaluator, Tm, subterms

M = "crate::parser::model::"


def _is_err(t):
    return t.k == "adt" and t.a[0] == "core::result::Result" and t.a[1] == "Err"


def _calls(t, suffix):
    return [x for x in subterms(t) if x.k == "call" and x.a[0].endswith(suffix)]


def _ne(t):
    """t is `a != b` -> (a, b)"""
    if t.k == "bin" and t.a[0] == "Ne":
        return t.a[1], t.a[2]
    if t.k == "call" and t.a[0].endswith("::ne") and "PartialEq" in t.a[0] and len(t.a) == 3:
        return t.a[1], t.a[2]
    if t.k == "un" and t.a[0] == "Not":
        x = t.a[1]
        if x.k == "bin" and x.a[0] == "Eq":
            return x.a[1], x.a[2]
        if x.k == "call" and x.a[0].endswith("::eq") and "PartialEq" in x.a[0] and len(x.a) == 3:
            return x.a[1], x.a[2]
    return None


TRIMS = {"trim": ("both", "unicode"), "trim_start": ("start", "unicode"), "trim_end": ("end", "unicode"),
         "trim_ascii": ("both", "ascii"), "trim_ascii_start": ("start", "ascii"), "trim_ascii_end": ("end", "ascii")}


TRIM_MATCHES = {"trim_matches": "both", "trim_start_matches": "start", "trim_end_matches": "end"}


def _trim_of(t, base, pm=None):
    """t == base.trim*()  -> (side, charset) or None.  charset: "unicode" | "ascii" | ("set", [code points])"""
    if t.k == "call" and len(t.a) == 2 and t.a[1] == base:
        m = t.a[0].rsplit("::", 1)[-1]
        if "<impl str>" in t.a[0] and m in TRIMS:
            return TRIMS[m]
    if t.k == "call" and len(t.a) == 3 and t.a[1] == base and pm is not None:
        m = t.a[0].rsplit("::", 1)[-1]
        if "<impl str>" in t.a[0] and m in TRIM_MATCHES:
            cs = pm.char_pred_set(t.a[2])
            if cs is not None:
                return (TRIM_MATCHES[m], ("set", cs))
    return None


class ParserModel:
    def __init__(self, prog):
        self.prog = prog
        self.ev = Evaluator(prog)
        self.notes = []
        self.p1 = self.extract_p1()
        self.seg = self.extract_segment_checks()
        self.p4 = self.extract_p4()
        self.ctrl = self.extract_ctrl_validator()
        self.slots = self.extract_slots()
        self.ops = self.extract_ops()

    def char_pred_set(self, f):
        """Code points accepted by a char predicate given as fn item / closure / char literal; None if unknown."""
        if f.k == "lit" and f.a[0] == "char":
            return [ord(f.a[1])]
        if f.k in ("fnitem", "closure"):
            body = self.ev.apply(f, [Tm("param", (31, "c"))])
            return self._pred_set(body, Tm("param", (31, "c")))
        return None

    def _pred_set(self, body, c):
        if body.k == "match" and body.a[0] == c:
            out = []
            for pat, g, b in body.a[1]:
                if b.k == "lit" and b.a[1] == "true" and g is None:
                    cs = self._pat_chars(pat)
                    if cs is None:
                        return None
                    out.extend(cs)
                elif not (b.k == "lit" and b.a[1] == "false"):
                    return None
            return sorted(set(out))
        if body.k == "logic" and body.a[0] == "Or":
            a, b = self._pred_set(body.a[1], c), self._pred_set(body.a[2], c)
            return sorted(set(a + b)) if a is not None and b is not None else None
        if body.k == "bin" and body.a[0] == "Eq" and body.a[1] == c and body.a[2].k == "lit" and body.a[2].a[0] == "char":
            return [ord(body.a[2].a[1])]
        if body.k == "call" and body.a[0].endswith("<impl char>::is_whitespace") and body.a[1] == c:
            return "unicode"
        return None

    def _pat_chars(self, pat):
        k = pat.get("k")
        if k == "Constant":
            v = pat["value"]
            m = re.fullmatch(r"'(.*)'", v)
            if m:
                ch = m.group(1)
                try:
                    ch = ch.encode().decode("unicode_escape") if ch.startswith("\\") else ch
                except Exception:
                    return None
                return [ord(ch)] if len(ch) == 1 else None
            return None
        if k == "Or":
            out = []
            for q in pat["pats"]:
                cs = self._pat_chars(q)
                if cs is None:
                    return None
                out.extend(cs)
            return out
        return None

    # ---- P1: whole input must equal its trim ---------------------------------------------------
    def extract_p1(self):
        p = self.prog.find_fn("crate::parser::parse_json_path")
        t = self.ev.summary(p)
        if t.k == "if" and _is_err(t.a[1]):
            ne = _ne(t.a[0])
            if ne:
                a, b = ne
                for x, y in ((a, b), (b, a)):
                    tr = _trim_of(y, x, self)
                    if tr and x.k == "param" and x.a[0] == 0:
                        return {"side": tr[0], "charset": tr[1]}
        self.notes.append("P1 (input == input.trim()) not found in parse_json_path")
        return None

    # ---- P2 / P3: checks in `segment` ----------------------------------------------------------------
    def extract_segment_checks(self):
        out = {}
        p = "crate::parser::segment"
        if p not in self.prog.bodies:
            self.notes.append("fn segment not found")
            return out
        t = self.ev.summary(p)
        if t.k != "match":
            return out
        for pat, g, b in t.a[1]:
            if pat.get("k") != "Variant":
                continue
            rule = pat["variant"]
            # the rejecting test of this arm: an `if` whose taken branch is Err (directly, or below a let-else / early return
            # that was rebuilt as a conditional), or the negated form with the Err in the else branch
            cands = []
            for x in subterms(b):
                if x.k == "if" and _is_err(x.a[1]):
                    cands.append((x.a[0], x))
                elif x.k == "if" and _is_err(x.a[2]) and x.a[0].k == "un" and x.a[0].a[0] == "Not":
                    cands.append((x.a[0].a[1], x))
            if cands:
                c, b = cands[0]
            if cands:
                # a local helper as the condition: look at what it computes
                for _ in range(3):
                    if c.k == "call" and c.a[0] in self.prog.bodies and self.prog.items[c.a[0]]["kind"] in ("Fn", "AssocFn") \
                            and self.char_pred_set(Tm("fnitem", (c.a[0],))) is None:
                        c = self.ev.apply(Tm("fnitem", (c.a[0],)), list(c.a[1:]))
                    else:
                        break
                ne = _ne(c)
                if ne:
                    a, bb = ne
                    for x, y in ((a, bb), (bb, a)):
                        tr = _trim_of(y, x, self)
                        if tr:
                            sp = _calls(x, "<impl str>::strip_prefix")
                            if sp and sp[0].a[2].k == "lit":
                                out[rule] = {"kind": "after-prefix-no-space", "prefix": sp[0].a[2].a[1], "side": tr[0], "charset": tr[1]}
                ws = _calls(c, "<impl char>::is_whitespace") + _calls(c, "<impl char>::is_ascii_whitespace")
                nth = _calls(c, "Iterator::nth")
                if ws and rule not in out:
                    if nth and nth[0].a[2].k == "lit":
                        out[rule] = {"kind": "no-space-at", "index": int(nth[0].a[2].a[1]),
                                     "charset": "ascii" if "ascii" in ws[0].a[0] else "unicode"}
                elif rule not in out and nth and nth[0].a[2].k == "lit" and c.k == "call" and c.a[0] in self.prog.bodies and len(c.a) == 2:
                    cs = self.char_pred_set(Tm("fnitem", (c.a[0],)))
                    if cs is not None:
                        out[rule] = {"kind": "no-space-at", "index": int(nth[0].a[2].a[1]), "charset": cs if cs == "unicode" else ("set", cs)}
                if rule not in out and nth and nth[0].a[2].k == "lit":
                    # nth(i).map(pred) / is_some_and(pred) / and_then ... with a character predicate
                    for x in subterms(c):
                        if x.k == "call" and x.a[0].startswith("core::option::Option::<T>::") and len(x.a) == 3 and x.a[2].k in ("fnitem", "closure") \
                                and any(y is nth[0] or y == nth[0] for y in subterms(x.a[1])):
                            cs = self.char_pred_set(x.a[2])
                            if cs is not None:
                                out[rule] = {"kind": "no-space-at", "index": int(nth[0].a[2].a[1]), "charset": cs if cs == "unicode" else ("set", cs)}
                if rule not in out:
                    out[rule] = {"kind": "unknown", "cond": str(c)[:200]}
        for r in ("child_segment", "descendant_segment"):
            if r not in out:
                self.notes.append("no blank-space check found for Rule::%s in fn segment" % r)
        return out

    # ---- P4: nothing between function name and "(" ---------------------------------------------
    def extract_p4(self):
        p = "crate::parser::function_expr"
        if p not in self.prog.bodies:
            return None
        t, trace, conds = self.ev.traced(p)
        for c in conds:
            nth = _calls(c, "Iterator::nth")
            if not nth:
                continue
            lens = _calls(nth[0].a[2], "<impl str>::len")
            # closure |c| c != '('
            for x in subterms(c):
                if x.k == "closure":
                    body = self.ev.apply(x, [Tm("param", (30, "c"))])
                    ne = _ne(body)
                    if ne and any(y.k == "lit" and y.a[1] == "(" for y in ne) and lens:
                        return {"char": "("}
        self.notes.append("P4 (char after the function name must be `(`) not found in function_expr")
        # a rejecting test that reads the rule's text but could not be interpreted: fail closed rather than model no check
        t0 = self.ev.summary(p)
        for x in subterms(t0):
            if x.k == "if" and (_is_err(x.a[1]) or _is_err(x.a[2])) and any(y.k == "call" and y.a[0].endswith("as_str") for y in subterms(x.a[0])):
                return {"unknown": "function_expr rejects some texts under a condition the model cannot read: %s" % str(x.a[0])[:160]}
        return None

    # ---- P5: character validators -------------------------------------------------------------------
    CHAR_CLASSES = {
        "is_control": [[0, 0x1F], [0x7F, 0x9F]],
        "is_ascii_control": [[0, 0x1F], [0x7F, 0x7F]],
        "is_whitespace": [[0x09, 0x0D], [0x20, 0x20], [0x85, 0x85], [0xA0, 0xA0], [0x1680, 0x1680], [0x2000, 0x200A], [0x2028, 0x2029], [0x202F, 0x202F], [0x205F, 0x205F], [0x3000, 0x3000]],
        "is_ascii_whitespace": [[0x09, 0x0A], [0x0C, 0x0D], [0x20, 0x20]],
        "is_ascii_digit": [[0x30, 0x39]],
        "is_ascii": [[0, 0x7F]],
    }

    def reject_set(self, c):
        """Ranges of characters for which the condition term `c` (over one <item> of chars()) is true; None if unknown."""
        def is_item(x):
            return any(y.k == "call" and y.a[0] == "<item>" for y in subterms(x)) or x.k == "field"
        if c.k == "bin" and c.a[0] in ("Le", "Lt", "Ge", "Gt", "Eq") and c.a[2].k == "lit" and c.a[2].a[0] == "char" and is_item(c.a[1]):
            o = ord(c.a[2].a[1])
            return {"Le": [[0, o]], "Lt": [[0, o - 1]] if o else [], "Ge": [[o, 0x10FFFF]], "Gt": [[o + 1, 0x10FFFF]], "Eq": [[o, o]]}[c.a[0]]
        if c.k == "call" and "<impl char>::" in c.a[0] and len(c.a) == 2 and is_item(c.a[1]):
            m = c.a[0].rsplit("::", 1)[1]
            return self.CHAR_CLASSES.get(m)
        if c.k == "logic" and c.a[0] == "Or":
            a, b = self.reject_set(c.a[1]), self.reject_set(c.a[2])
            return (a + b) if a is not None and b is not None else None
        return None

    def extract_ctrl_validator(self):
        """{fn path: rejected ranges | None} for local fns (&str) -> Result<&str,_>: a loop over chars() that returns Err when
        a character predicate holds.  None = a check whose effect could not be determined (fail closed by the users)."""
        out = {}
        for p, it in self.prog.items.items():
            if it["kind"] != "Fn" or p not in self.prog.bodies or len(it.get("inputs_s", [])) != 1 or "str" not in it["inputs_s"][0]:
                continue
            if not it.get("output_s", "").startswith("core::result::Result<&"):
                continue
            t, trace, conds = self.ev.traced(p)
            sets = [self.reject_set(c) for c in conds]
            known = [x for x in sets if x is not None]
            if known:
                rs = []
                for x in known:
                    rs.extend(x)
                out[p] = sorted(rs)
                if len(known) != len([c for c in conds if not (c.k == "call" and c.a[0].endswith("Iterator>::next"))]):
                    # further conditions of unknown effect
                    pass
            else:
                out[p] = None
        if not out:
            self.notes.append("no character validator found")
        return out

    # ---- per-slot transformations --------------------------------------------------------------
    SLOTS = {
        (M + "Selector", "Name", "0"): "Selector::Name",
        (M + "Literal", "String", "0"): "Literal::String",
        (M + "SingularQuerySegment", "Name", "0"): "SingularQuerySegment::Name",
        (M + "Selector", "Index", "0"): "Selector::Index",
        (M + "Selector", "Slice", "0"): "Selector::Slice.0",
        (M + "Selector", "Slice", "1"): "Selector::Slice.1",
        (M + "Selector", "Slice", "2"): "Selector::Slice.2",
        (M + "SingularQuerySegment", "Index", "0"): "SingularQuerySegment::Index",
        (M + "Literal", "Int", "0"): "Literal::Int",
        (M + "Literal", "Float", "0"): "Literal::Float",
    }

    def extract_slots(self):
        """slot label -> {"sites": n, "steps": set of steps every site applies}
        steps: "trim", "ctrl<=N", "parse:i64", "parse:f64", "range[lo,hi]"."""
        from rules import shared
        prog, ev = self.prog, self.ev
        validators = shared.range_validators(prog, ev)
        region, _ = prog.parser_region()
        tops = sorted(p for p in region if "::{closure#" not in p and not prog.is_expansion(p))
        found = {}
        for p in tops:
            t, trace, conds = ev.traced(p)
            cands = [x for x in subterms(t) if x.k == "adt"]
            for c in trace:
                for a in c.a[1:]:
                    if isinstance(a, Tm):
                        cands.extend(x for x in subterms(a) if x.k == "adt")
                # Segment::name(text) is a constructor function for Selector::Name
                if c.k == "call" and c.a[0] == M + "Segment::name":
                    found.setdefault("Segment::name", []).append(self.steps_of(c.a[1], validators, p))
            seen = set()
            for x in cands:
                for (adt, variant, field), label in self.SLOTS.items():
                    if x.a[0] == adt and x.a[1] == variant and (id(x.n), field) not in seen:
                        seen.add((id(x.n), field))
                        ft = dict(x.a[2]).get(field)
                        if ft is None:
                            continue
                        if p.startswith("crate::parser::model::"):
                            continue        # pass-through constructor (e.g. Segment::name): its call sites are censused instead
                        for alt in shared.alternatives(prog, ev, ft):
                            if alt.k == "adt" and alt.a[1] == "None":
                                continue
                            if alt.k == "loopvar":
                                continue
                            if alt.k == "adt" and alt.a[1] == "Some":
                                alt = alt.a[2][0][1]
                            found.setdefault(label, []).append(self.steps_of(alt, validators, p))
        out = {}
        for label, lst in found.items():
            common = set(lst[0])
            for s in lst[1:]:
                common &= set(s)
            out[label] = {"sites": len(lst), "steps": sorted(common)}
        return out

    def steps_of(self, t, validators, fn):
        steps = []
        for x in subterms(t):
            if x.k != "call":
                continue
            name = x.a[0]
            m = name.rsplit("::", 1)[-1]
            if "<impl str>" in name and m in TRIMS:
                steps.append("trim:%s:%s" % TRIMS[m])
            if name in self.ctrl:
                rs = self.ctrl[name]
                if rs is None:
                    steps.append("unknown-check:" + name.rsplit("::", 1)[1])
                elif rs == [[0, rs[0][1]]] and len(rs) == 1:
                    steps.append("ctrl<=%d" % rs[0][1])
                else:
                    steps.append("reject:" + ",".join("%d-%d" % (a, b) for a, b in rs))
            if name in validators:
                steps.append("range[%d,%d]" % validators[name])
            if name == "core::str::<impl str>::parse":
                ty = (x.n or {}).get("gargs") or []
                steps.append("parse:%s" % (ty[0] if ty else "?"))
            if name in self.prog.bodies and name not in self.ctrl and name not in validators:
                # helper functions such as parse_string / parse_number: look inside
                inner = self.ev.summary(name)
                steps.extend(self.steps_of(inner, validators, name))
        # bounds checks against named constants directly in the constructing function (parse_number)
        return steps

    # ---- P8: comparison operators ---------------------------------------------------------------
    def extract_ops(self):
        from . import tables
        p = self.prog.inherent_method(M + "Comparison", "try_new")
        t = self.ev.summary(p)
        acc = []
        if t.k == "match":
            for tok in tables.str_constants(t.a[1]):
                sel = tables.select(t.a[1], ("s", tok))
                if len(sel) == 1 and t.a[1][sel[0][0]][2].k == "adt" and t.a[1][sel[0][0]][2].a[1] == "Ok":
                    acc.append(tok)
            sel = tables.select(t.a[1], ("s*",))
            other_ok = len(sel) == 1 and t.a[1][sel[0][0]][2].k == "adt" and t.a[1][sel[0][0]][2].a[1] == "Ok"
            return {"accepted": acc, "other_accepted": other_ok}
        self.notes.append("Comparison::try_new is not a match on the operator")
        return {"accepted": [], "other_accepted": True, "unknown": "Comparison::try_new does not decide by a match on the operator text: which "
                "operator strings it accepts could not be read"}
