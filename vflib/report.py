"""Rule instances, known findings, evidence and violation files (E4 plumbing)."""
import json
import os
import sys
import time

VERIF = os.path.dirname(os.path.dirname(os.path.abspath(__file__)))
KNOWN = os.path.join(VERIF, "known_findings.json")
EVID = os.path.join(VERIF, "evidence")
VIOL = os.path.join(VERIF, "out", "violations")


class Report:
    def __init__(self, prop):
        self.prop = prop
        self.instances = []      # dicts: rule,key,status,where,msg
        self.floors = {}         # rule -> (min, why)
        self.rules = {}          # rule -> description
        self.notes = []
        self.samples = []
        self.extra = {}
        self.t0 = time.time()
        self.machinery_errors = []

    # -- registering
    def rule(self, rid, desc, floor=None):
        self.rules[rid] = desc
        if floor is not None:
            self.floors[rid] = floor

    def ok(self, rule, key, where, msg=""):
        self.instances.append({"rule": rule, "key": key, "status": "ok", "where": where, "msg": msg})

    def bad(self, rule, key, where, msg, status="violation"):
        self.instances.append({"rule": rule, "key": key, "status": status, "where": where, "msg": msg})

    def unrecognised(self, rule, key, where, msg):
        self.bad(rule, key, where, "unrecognised idiom (fail closed): " + msg, status="unrecognised")

    def check(self, cond, rule, key, where, msg_ok="", msg_bad=""):
        if cond:
            self.ok(rule, key, where, msg_ok)
        else:
            self.bad(rule, key, where, msg_bad or msg_ok)
        return cond

    def note(self, s):
        self.notes.append(s)

    def count(self, rule):
        return sum(1 for i in self.instances if i["rule"] == rule)

    def control(self, rule, fired, what):
        """positive control of a zero-expected rule; a control that does not fire = broken machinery"""
        if not fired:
            self.machinery_errors.append("positive control for %s did not fire: %s" % (rule, what))
        self.extra.setdefault("controls", []).append({"rule": rule, "fired": bool(fired), "what": what})


class Shared:
    """View of a Report under which another property's rule functions report: rule ids are renamed (`mapping`: old id ->
    new id; ids not in the mapping are dropped unless `default` is given), descriptions get a "(shared with ...)" suffix.
    Known findings of the lending property apply to the borrowed instances too (`lender`): an instance whose (old rule, key)
    is a known finding of the lender is recorded as ok here - it is that property's finding, reported there."""

    def __init__(self, rep, mapping, lender=None, default=None, only_keys=None):
        self.rep, self.mapping, self.default = rep, mapping, default
        self.only_keys = only_keys
        self.extra = rep.extra
        self.notes = rep.notes
        self.samples = rep.samples
        self.machinery_errors = rep.machinery_errors
        self.prop = rep.prop
        known = load_known()
        self.lender_known = {(f["rule"], f["key"]) for f in known.get("findings", []) if lender and f["property"] == lender}

    def _id(self, rid):
        return self.mapping.get(rid, self.default)

    def rule(self, rid, desc, floor=None):
        n = self._id(rid)
        if n:
            prev = self.rep.rules.get(n)
            self.rep.rule(n, (prev + " | " if prev else "") + desc + " [analysis shared with %s]" % rid, None)

    def _keep(self, key):
        return self.only_keys is None or any(key.startswith(k) or k in key for k in self.only_keys)

    def ok(self, rule, key, where, msg=""):
        n = self._id(rule)
        if n and self._keep(key):
            self.rep.ok(n, key, where, msg)

    def bad(self, rule, key, where, msg, status="violation"):
        n = self._id(rule)
        if n and self._keep(key):
            if (rule, key) in self.lender_known:
                self.rep.ok(n, key, where, "recorded as a known finding of %s (%s)" % (rule[:3], key))
            else:
                self.rep.bad(n, key, where, msg, status)

    def unrecognised(self, rule, key, where, msg):
        self.bad(rule, key, where, "unrecognised idiom (fail closed): " + msg, status="unrecognised")

    def check(self, cond, rule, key, where, msg_ok="", msg_bad=""):
        if cond:
            self.ok(rule, key, where, msg_ok)
        else:
            self.bad(rule, key, where, msg_bad or msg_ok)
        return cond

    def note(self, s):
        self.rep.note(s)

    def count(self, rule):
        n = self._id(rule)
        return self.rep.count(n) if n else 0

    def control(self, rule, fired, what):
        self.rep.control(self._id(rule) or rule, fired, what)

    @property
    def instances(self):
        return self.rep.instances


def load_known():
    if not os.path.exists(KNOWN):
        return {"findings": [], "fixed": []}
    with open(KNOWN) as fh:
        return json.load(fh)


def pending_alarms(rep):
    """instances (incl. floor shortfalls) that finalize() would report as violations; does not modify rep"""
    known = load_known()
    kf = {(f["rule"], f["key"]) for f in known.get("findings", []) if f["property"] == rep.prop}
    out = [i for i in rep.instances if i["status"] != "ok" and (i["rule"], i["key"]) not in kf]
    for rid, floor in rep.floors.items():
        if rep.count(rid) < floor:
            out.append({"rule": rid, "key": "floor", "status": "unrecognised"})
    return out


def finalize(rep, tier, seed, level, explanation, trusted_base, assumptions, checker_cmd, not_decided=None):
    """Apply floors and known findings, write evidence/violations, print the verdict lines.
    Returns the process exit code."""
    prop = rep.prop
    # floors: a rule that matched fewer instances than confirmed by hand fails closed
    for rid, floor in rep.floors.items():
        n = rep.count(rid)
        if n < floor:
            rep.bad(rid, "floor", "-", "rule matched %d instance(s), fewer than the %d confirmed by reading: "
                    "an anchor moved out of the rule's sight (fail closed)" % (n, floor), status="unrecognised")
    known = load_known()
    kf = {}
    for f in known.get("findings", []):
        if f["property"] == prop:
            kf[(f["rule"], f["key"])] = f
    violations = []
    known_hit = []
    seen_keys = set()
    for inst in rep.instances:
        if inst["status"] == "ok":
            continue
        k = (inst["rule"], inst["key"])
        if k in kf:
            if k not in seen_keys:
                known_hit.append((kf[k], inst))
            seen_keys.add(k)
        else:
            violations.append(inst)
    stale = [f for k, f in kf.items() if k not in seen_keys]

    os.makedirs(EVID, exist_ok=True)
    os.makedirs(VIOL, exist_ok=True)
    # clear old violation files of this property
    for f in os.listdir(VIOL):
        if f.startswith(prop + "-"):
            os.remove(os.path.join(VIOL, f))

    for f, inst in known_hit:
        print("KNOWN-FINDING: property=%s rule=%s %s [%s] at %s" % (prop, f["rule"], f.get("what", inst["msg"]), f.get("defect", ""), inst["where"]))
    for f in stale:
        print("STALE-FINDING: property=%s rule=%s key=%s is listed in known_findings.json but no longer reported" % (prop, f["rule"], f["key"]), file=sys.stderr)

    rc = 0
    if rep.machinery_errors:
        for m in rep.machinery_errors:
            print("MACHINERY: " + m, file=sys.stderr)
        rc = 2
    vpaths = []
    for n, inst in enumerate(violations):
        path = os.path.join(VIOL, "%s-%d.json" % (prop, n))
        with open(path, "w") as fh:
            json.dump({"property": prop, "instance": inst, "rule_text": rep.rules.get(inst["rule"], ""),
                       "tier": tier}, fh, indent=1)
        vpaths.append(path)
        print("  %s %s at %s: %s  [key=%s]" % (inst["status"].upper(), inst["rule"], inst["where"], inst["msg"], inst["key"]))
        if rc != 2:
            print("VIOLATION property=%s replay=%s" % (prop, path))
    if violations and rc != 2:
        rc = 1

    total = len(rep.instances)
    okc = sum(1 for i in rep.instances if i["status"] == "ok")
    per_rule = {}
    for i in rep.instances:
        d = per_rule.setdefault(i["rule"], {"instances": 0, "ok": 0, "desc": rep.rules.get(i["rule"], "")})
        d["instances"] += 1
        if i["status"] == "ok":
            d["ok"] += 1
    for rid, desc in rep.rules.items():
        per_rule.setdefault(rid, {"instances": 0, "ok": 0, "desc": desc})
    for rid, fl in rep.floors.items():
        per_rule[rid]["floor"] = fl
    distinct_sites = len({(i["rule"], i["key"]) for i in rep.instances})
    samples = rep.samples[:]
    for i in rep.instances[:400]:
        if len(samples) >= 12:
            break
        if i["rule"] not in {s.get("rule") for s in samples}:
            samples.append({"rule": i["rule"], "key": i["key"], "where": i["where"], "status": i["status"], "msg": i["msg"][:300]})
    if not samples:
        samples = [{"note": "no instances"}]
    cov = {
        "obligations": total,
        "discharged": okc,
        "known_findings_reported": len(known_hit),
        "new_violations": len(violations),
        "evaluations": max(total, 1),
        "distinct_nontrivial": max(distinct_sites, 2) if total >= 2 else distinct_sites,
        "rule": "one evaluation = one (rule, code site) obligation extracted from the THIR/MIR/grammar of /repo's current "
                "working tree; distinct = distinct (rule id, construct key) pairs; an obligation is non-trivial because "
                "it is only generated for a site the rule's matcher selected (trivial/no-op sites generate nothing)",
        "samples": samples,
        "rules": per_rule,
        "checker_cmd": checker_cmd,
        "trusted_base": trusted_base,
        "explanation": explanation,
        "exhaustive": False,
        "not_decided": not_decided or [],
        "notes": rep.notes,
    }
    cov.update(rep.extra)
    ev = {
        "property_id": prop,
        "tier": tier,
        "seed": int(seed),
        "level": level,
        "coverage": cov,
        "assumptions": assumptions,
        "wall_s": round(time.time() - rep.t0, 3),
        "violations": len(violations),
    }
    with open(os.path.join(EVID, prop + ".json"), "w") as fh:
        json.dump(ev, fh, indent=1)
    summary = "%s %s: %d obligations, %d discharged, %d known finding(s), %d new violation(s) [%.1fs]" % (
        prop, tier, total, okc, len(known_hit), len(violations), time.time() - rep.t0)
    print(summary)
    return rc
