"""Region analysis for piecewise-linear integer formulas (used by C11-R6).

A formula built from integer constants, `len`, integer variables, + , - , min, max and if/else over linear comparisons
denotes a piecewise-linear function.  `cases()` partitions its domain into regions (conjunctions of linear inequalities
`form >= 0`) on each of which the formula is one linear form.  Two formulas are compared region by region:

  * a conjunction of regions is *empty* when Fourier-Motzkin elimination over the rationals derives a contradiction --
    then it has no integer point either (sound `equal` verdicts);
  * a difference is reported only together with an integer point of the region found by back-substitution and re-checked
    against every inequality (sound `different` verdicts);
  * anything else (a non-linear operator, a rationally non-empty region in which no integer point was found) is
    `Undecided` and the caller abstains.

No solver is involved and nothing of the analysed program is executed: the inputs are normalised expression trees.
"""
from fractions import Fraction
from itertools import product
import math


class Undecided(Exception):
    pass


# ------------------------------------------------------------------------------------------------ linear forms
# a linear form is a dict {var: int, 1: int}; missing keys are 0
def lf(c=0, **vs):
    d = {k: v for k, v in vs.items() if v}
    if c:
        d[1] = c
    return d


def ladd(a, b, kb=1):
    out = dict(a)
    for k, v in b.items():
        nv = out.get(k, 0) + kb * v
        if nv:
            out[k] = nv
        else:
            out.pop(k, None)
    return out


def lscale(a, k):
    return {x: v * k for x, v in a.items() if v * k}


def lvars(a):
    return [k for k in a if k != 1]


def lshow(a):
    parts = []
    for k in sorted(lvars(a)):
        v = a[k]
        parts.append(("%s" % k) if v == 1 else ("-%s" % k) if v == -1 else "%d*%s" % (v, k))
    if a.get(1) or not parts:
        parts.append(str(a.get(1, 0)))
    return " + ".join(parts).replace("+ -", "- ")


def leval(a, env):
    return sum(v * (1 if k == 1 else env[k]) for k, v in a.items())


def ge(a, b):
    """constraint a >= b as a form >= 0"""
    return ladd(a, b, -1)


def gt(a, b):
    """a > b over the integers: a - b - 1 >= 0"""
    return ladd(ladd(a, b, -1), {1: -1})


# ------------------------------------------------------------------------------------------------ case expansion
def cases(t, limit=4000):
    """t: tree of ('const', n) | ('len',) | ('val', name) | ('neg', x) | ('add', (xs)) | ('min', (xs)) | ('max', (xs)) |
    ('ite', cond, a, b) with cond = ('lt', x, y) | ('nlt', x, y)   ->   [(constraints, linear form)]"""
    h = t[0]
    if h == "const":
        return [([], lf(t[1]))]
    if h == "len":
        return [([], {"len": 1})]
    if h == "val":
        return [([], {t[1]: 1})]
    if h == "neg":
        return [(c, lscale(r, -1)) for c, r in cases(t[1], limit)]
    if h == "add":
        out = [([], {})]
        for x in t[1]:
            out = [(c1 + c2, ladd(r1, r2)) for (c1, r1), (c2, r2) in product(out, cases(x, limit))]
            if len(out) > limit:
                raise Undecided("too many regions")
        return out
    if h == "abs":
        return cases(("max", (t[1], ("neg", t[1]))), limit)
    if h in ("min", "max"):
        argc = [cases(x, limit) for x in t[1]]
        out = []
        for combo in product(*argc):
            base = [c for cs, _ in combo for c in cs]
            rs = [r for _, r in combo]
            for i, ri in enumerate(rs):
                cons = list(base)
                dup = False
                for j, rj in enumerate(rs):
                    if j == i:
                        continue
                    if rj == ri and j < i:
                        dup = True
                    cons.append(ge(rj, ri) if h == "min" else ge(ri, rj))
                if not dup:
                    out.append((cons, ri))
            if len(out) > limit:
                raise Undecided("too many regions")
        return out
    if h == "ite":
        cond = t[1]
        if cond[0] not in ("lt", "nlt"):
            raise Undecided("condition `%s`" % (cond[0],))
        out = []
        for (cx, rx), (cy, ry) in product(cases(cond[1], limit), cases(cond[2], limit)):
            lt_true = gt(ry, rx)          # x < y
            lt_false = ge(rx, ry)         # x >= y
            tcons, fcons = (lt_true, lt_false) if cond[0] == "lt" else (lt_false, lt_true)
            for c, r in cases(t[2], limit):
                out.append((cx + cy + [tcons] + c, r))
            for c, r in cases(t[3], limit):
                out.append((cx + cy + [fcons] + c, r))
        if len(out) > limit:
            raise Undecided("too many regions")
        return out
    raise Undecided("operator `%s` is not piecewise linear" % (h,))


# ------------------------------------------------------------------------------------------------ feasibility
def _trivial(c):
    """None if the constraint mentions variables, else True/False for the constant constraint c >= 0"""
    if lvars(c):
        return None
    return c.get(1, 0) >= 0


def fm_project(cons, var):
    """eliminate `var` (rational Fourier-Motzkin).  cons: list of forms (dict with Fraction/int coefficients) >= 0"""
    lo, hi, rest = [], [], []
    for c in cons:
        a = c.get(var, 0)
        if a == 0:
            rest.append(c)
        elif a > 0:
            lo.append(c)       # var >= -(rest)/a
        else:
            hi.append(c)
    for l in lo:
        for h in hi:
            al, ah = l[var], -h[var]
            # ah*l + al*h eliminates var
            n = {}
            for k in set(l) | set(h):
                if k == var:
                    continue
                v = ah * l.get(k, 0) + al * h.get(k, 0)
                if v:
                    n[k] = v
            rest.append(n)
    # drop duplicates / trivially true
    out, seen = [], set()
    for c in rest:
        t = _trivial(c)
        if t is True:
            continue
        key = tuple(sorted((str(k), v) for k, v in c.items()))
        if key not in seen:
            seen.add(key)
            out.append(c)
    return out


def rational_feasible(cons, order):
    cur = list(cons)
    for c in cur:
        if _trivial(c) is False:
            return False
    for v in order:
        cur = fm_project(cur, v)
        for c in cur:
            if _trivial(c) is False:
                return False
        if len(cur) > 5000:
            raise Undecided("Fourier-Motzkin blow-up")
    return all(_trivial(c) is not False for c in cur)


def _interval(cons, var, others):
    """real interval of `var` in the projection of cons onto var"""
    cur = list(cons)
    for o in others:
        cur = fm_project(cur, o)
    lo, hi = None, None
    for c in cur:
        a = c.get(var, 0)
        if a == 0:
            if _trivial(c) is False:
                return None
            continue
        b = Fraction(-c.get(1, 0), a)
        if a > 0:
            lo = b if lo is None or b > lo else lo
        else:
            hi = b if hi is None or b < hi else hi
    return lo, hi


def integer_point(cons, order, tries=7):
    """an integer point satisfying all constraints, by back-substitution with a few candidates per variable; None if
    none was found (which does NOT prove there is none)."""
    if not order:
        return {} if all(_trivial(c) is not False for c in cons) else None
    v, rest = order[0], order[1:]
    iv = _interval(cons, v, rest)
    if iv is None:
        return None
    lo, hi = iv
    lo_i = None if lo is None else math.ceil(lo)
    hi_i = None if hi is None else math.floor(hi)
    if lo_i is not None and hi_i is not None and lo_i > hi_i:
        return None
    cands = []
    def add(x):
        if (lo_i is None or x >= lo_i) and (hi_i is None or x <= hi_i) and x not in cands:
            cands.append(x)
    # prefer small magnitudes (readable witnesses), then the ends of the interval
    for x in (0, 1, -1, 2, -2, 3, -3, 5, -5, 6, -6, 4, -4):
        add(x)
    for base in (lo_i, hi_i):
        if base is not None:
            for d in range(0, tries):
                add(base + d if base is lo_i else base - d)
    for x in cands[:3 * tries]:
        sub = []
        bad = False
        for c in cons:
            a = c.get(v, 0)
            if a:
                n = {k: w for k, w in c.items() if k != v}
                n[1] = n.get(1, 0) + a * x
                if not n[1]:
                    n.pop(1)
                c2 = n
            else:
                c2 = c
            if _trivial(c2) is False:
                bad = True
                break
            sub.append(c2)
        if bad:
            continue
        p = integer_point(sub, rest, tries)
        if p is not None:
            p[v] = x
            return p
    return None


def decide(cons, order):
    """-> ('empty', None) | ('point', env) ; raises Undecided"""
    if not rational_feasible(cons, order):
        return "empty", None
    p = integer_point(cons, order)
    if p is None:
        raise Undecided("a region is non-empty over the rationals but no integer point was found")
    for c in cons:
        if leval(c, p) < 0:
            raise Undecided("internal: witness does not satisfy its region")
    return "point", p


# ------------------------------------------------------------------------------------------------ loop comparison
def _extend(cs, f, domain, order):
    """cs: [(cons, tuple of forms)] ; f(forms) -> [(extra constraints, extra form)] ; keeps the rationally feasible ones"""
    out = []
    for cons, forms in cs:
        for extra, form in f(forms):
            c2 = cons + extra
            if rational_feasible(domain + c2, order):
                out.append((c2, forms + (form,)))
    return out


ZERO, MINUS1 = {}, {1: -1}
LEN = {"len": 1}
LENM1 = {"len": 1, 1: -1}


def walk_sides(direction, init, bound, domain, order):
    """-> (starts, ends): starts = [(cons, (init, first))] with first = the walk's first candidate clipped to the array
    (max(init, 0) going up, min(init, len-1) going down); ends = [(cons, (stop,))] with stop = the effective stop bound
    (min(bound, len) going up, max(bound, -1) going down)."""
    ic = [(c, (r,)) for c, r in cases(init) if rational_feasible(domain + c, order)]
    bc = [(c, (r,)) for c, r in cases(bound) if rational_feasible(domain + c, order)]
    if direction == "pos":
        starts = _extend(ic, lambda f: [([ge(f[0], ZERO)], f[0]), ([ge(ZERO, f[0])], ZERO)], domain, order)
        ends = _extend(bc, lambda f: [([ge(LEN, f[0])], f[0]), ([ge(f[0], LEN)], LEN)], domain, order)
    else:
        starts = _extend(ic, lambda f: [([ge(LENM1, f[0])], f[0]), ([ge(f[0], LENM1)], LENM1)], domain, order)
        ends = _extend(bc, lambda f: [([ge(f[0], MINUS1)], f[0]), ([ge(MINUS1, f[0])], MINUS1)], domain, order)
    return starts, ends


def walk_diff(direction, got, want, domain, order):
    """got / want: (init tree, bound tree) of the walk
           idx = init; while idx < bound { if idx in 0..len { emit idx }; idx += step }        (direction 'pos', step >= 1)
           idx = init; while bound < idx { if idx in 0..len { emit idx }; idx += step }        (direction 'neg', step <= -1)
    With first = init clipped into the array from the walking side and stop = bound clipped likewise, a walk emits
    something for some step iff  first < stop (pos) / stop < first (neg)  [=: live], and two walks emit the same
    indices for EVERY step of that sign iff
           live <=> live'   and   (live => init = init' and stop = stop').
    (=>: equal init and equal clipped stop give equal sets.  <=: a live walk emits for step +-1; with different inits a
    step larger than the array, or -init, separates the first emitted index; with equal inits step +-1 separates the stops.)
    -> (None, None, stats) if proved equivalent, else (witness env, values, stats).  Raises Undecided."""
    gs, ge_ = walk_sides(direction, got[0], got[1], domain, order)
    ws, we = walk_sides(direction, want[0], want[1], domain, order)
    stats = {"regions": 0, "queries": 0, "code_cases": len(gs) * len(ge_), "rfc_cases": len(ws) * len(we)}
    spairs = []
    for (c1, f1), (c2, f2) in product(gs, ws):
        stats["queries"] += 1
        if rational_feasible(domain + c1 + c2, order):
            spairs.append((c1 + c2, f1, f2))
    epairs = []
    for (c1, f1), (c2, f2) in product(ge_, we):
        stats["queries"] += 1
        if rational_feasible(domain + c1 + c2, order):
            epairs.append((c1 + c2, f1, f2))
    for (cs, (i1, m1), (i2, m2)), (ce, (b1, s1), (b2, s2)) in product(spairs, epairs):
        base = domain + cs + ce
        stats["queries"] += 1
        if not rational_feasible(base, order):
            continue
        stats["regions"] += 1
        if direction == "pos":
            live1, dead1 = gt(s1, m1), ge(m1, s1)
            live2, dead2 = gt(s2, m2), ge(m2, s2)
        else:
            live1, dead1 = gt(m1, s1), ge(s1, m1)
            live2, dead2 = gt(m2, s2), ge(s2, m2)
        queries = [[live1, dead2], [dead1, live2]]
        for a, b in ((i1, i2), (s1, s2)):
            if a != b:
                queries.append([live1, live2, gt(a, b)])
                queries.append([live1, live2, gt(b, a)])
        for q in queries:
            stats["queries"] += 1
            verdict, p = decide(base + q, order)
            if verdict == "point":
                vals = {"init": (leval(i1, p), leval(i2, p)), "stop": (leval(s1, p), leval(s2, p)),
                        "first": (leval(m1, p), leval(m2, p))}
                return p, vals, stats
    return None, None, stats


def emitted(direction, init, stop, step, length, cap=8):
    """indices a walk emits (for messages; evaluates the *model* walk at a witness point)"""
    out, idx, n = [], init, 0
    while (idx < stop if direction == "pos" else stop < idx) and n < 10000:
        if 0 <= idx < length:
            out.append(idx)
            if len(out) >= cap:
                break
        idx += step
        n += 1
    return out
