"""E2 front: the repository's pest grammar as rule ASTs (parsed by pest_meta through `pestfacts dump`)."""
import json
import os
import re
import subprocess

from . import facts


class Grammar:
    def __init__(self, path, rules, pest_version):
        self.path = path
        self.rules = {r["name"]: r for r in rules}
        self.order = [r["name"] for r in rules]
        self.pest_version = pest_version

    def expr(self, name):
        return self.rules[name]["expr"]

    # ---- simple syntactic facts --------------------------------------------------------------
    BUILTIN_MINMAX = {"SOI": (0, 0), "EOI": (0, 0), "ANY": (1, 1), "ASCII_DIGIT": (1, 1), "ASCII_NONZERO_DIGIT": (1, 1),
                      "ASCII_ALPHA": (1, 1), "ASCII_ALPHANUMERIC": (1, 1), "ASCII_HEX_DIGIT": (1, 1), "NEWLINE": (1, 2),
                      "ASCII_ALPHA_LOWER": (1, 1), "ASCII_ALPHA_UPPER": (1, 1), "ASCII": (1, 1), "ASCII_BIN_DIGIT": (1, 1), "ASCII_OCT_DIGIT": (1, 1)}

    def min_len(self, name, _stack=None):
        """Minimum number of characters of any sentence of rule `name` (implicit whitespace counts 0)."""
        _stack = _stack or set()
        if name in self.BUILTIN_MINMAX:
            return self.BUILTIN_MINMAX[name][0]
        if name not in self.rules or name in _stack:
            return 0
        return self._min(self.rules[name]["expr"], _stack | {name})

    def _min(self, e, stack):
        k = e["k"]
        if k in ("str", "insens"):
            return len(e["v"])
        if k == "range":
            return 1
        if k == "ident":
            return self.min_len(e["v"], stack)
        if k == "seq":
            return self._min(e["a"], stack) + self._min(e["b"], stack)
        if k == "choice":
            return min(self._min(e["a"], stack), self._min(e["b"], stack))
        if k in ("opt", "rep", "pospred", "negpred"):
            return 0
        if k == "rep1":
            return self._min(e["e"], stack)
        if k == "repn":
            return e["min"] * self._min(e["e"], stack)
        return 0

    def first_last_literals(self, name):
        """If every sentence of rule `name` starts with one of a finite set of literal characters and ends with one,
        return (set(first chars), set(last chars)) else None.  Only looks at the top-level choice/seq skeleton."""
        def first(e):
            k = e["k"]
            if k == "str" and e["v"]:
                return {e["v"][0]}
            if k == "seq":
                return first(e["a"])
            if k == "choice":
                a, b = first(e["a"]), first(e["b"])
                return (a | b) if a is not None and b is not None else None
            if k == "ident" and e["v"] in self.rules:
                return first(self.rules[e["v"]]["expr"])
            return None

        def last(e):
            k = e["k"]
            if k == "str" and e["v"]:
                return {e["v"][-1]}
            if k == "seq":
                return last(e["b"])
            if k == "choice":
                a, b = last(e["a"]), last(e["b"])
                return (a | b) if a is not None and b is not None else None
            if k == "ident" and e["v"] in self.rules:
                return last(self.rules[e["v"]]["expr"])
            return None
        e = self.rules[name]["expr"]
        return first(e), last(e)


def find_grammar_file(repo=None):
    repo = repo or facts.REPO
    hits = []
    for root, dirs, fs in os.walk(os.path.join(repo, "src")):
        for f in fs:
            if f.endswith(".rs"):
                txt = open(os.path.join(root, f), encoding="utf-8", errors="replace").read()
                for m in re.finditer(r'#\[grammar\s*=\s*"([^"]+)"\]', txt):
                    hits.append(m.group(1))
    if len(set(hits)) != 1:
        raise facts.MachineryError("expected exactly one #[grammar = \"..\"] attribute in /repo/src, found %s" % hits)
    p = os.path.join(repo, "src", hits[0])
    if not os.path.exists(p):
        raise facts.MachineryError("grammar file %s not found" % p)
    return p


def pest_version(repo=None):
    repo = repo or facts.REPO
    lock = open(os.path.join(repo, "Cargo.lock")).read()
    vs = {}
    for m in re.finditer(r'name = "(pest|pest_generator|pest_derive|pest_meta)"\nversion = "([^"]+)"', lock):
        vs[m.group(1)] = m.group(2)
    return vs


def load(ctx=None, repo=None):
    facts.build_pestfacts()
    path = find_grammar_file(repo)
    r = subprocess.run([facts.PESTFACTS_BIN, "dump", path], stdout=subprocess.PIPE, stderr=subprocess.PIPE, text=True)
    if r.returncode != 0:
        raise facts.MachineryError("pestfacts could not read the grammar: %s" % r.stderr[-2000:])
    g = json.loads(r.stdout)
    return Grammar(path, g["rules"], pest_version(repo))
