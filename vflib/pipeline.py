"""A6 -- iterator pipelines recovered from terms: source, adaptor stages, sink."""
from .terms import Tm

PRESERVING = {"iter", "into_iter", "iter_mut", "enumerate", "map", "cloned", "copied", "peekable", "zip", "chain",
              "inspect", "by_ref", "once", "empty", "chars", "char_indices", "bytes", "into_values", "values", "keys"}
CARD_CHANGING = {"filter", "filter_map", "flat_map", "flatten", "skip", "take", "skip_while", "take_while",
                 "step_by", "map_while"}
ORDER_CHANGING = {"rev", "sorted", "sorted_by", "sorted_by_key"}
SINKS = {"collect", "any", "all", "fold", "reduce", "count", "next", "nth", "last", "for_each", "find", "position",
         "sum", "min", "max", "min_by", "max_by", "min_by_key", "max_by_key", "find_map", "try_fold", "unzip",
         "product", "partition", "is_empty", "len", "extend"}


def method_name(callee):
    return callee.rsplit("::", 1)[-1]


def is_iter_call(callee):
    n = method_name(callee)
    if "Iterator" in callee or "IntoIterator" in callee or "::iter::" in callee:
        return True
    if n in ("iter", "iter_mut", "into_iter", "chars", "char_indices", "bytes") and (
            "<impl [T]>" in callee or "alloc::vec::Vec" in callee or "<impl str>" in callee or "Map" in callee):
        return True
    return False


def unwind(t):
    """-> (source term, [(method, extra args tuple, call term)...] from source to sink)."""
    stages = []
    while isinstance(t, Tm) and t.k == "call" and len(t.a) >= 2 and is_iter_call(t.a[0]):
        stages.append((method_name(t.a[0]), t.a[2:], t))
        t = t.a[1]
    stages.reverse()
    return t, stages


def classify(method):
    if method in PRESERVING:
        return "preserving"
    if method in CARD_CHANGING:
        return "card-changing"
    if method in ORDER_CHANGING:
        return "order-changing"
    if method in SINKS:
        return "sink"
    return "unknown"
