"""Helpers over the THIR JSON trees produced by the driver."""

TRANSPARENT = {"Use", "NeverToAny", "Ascribe", "ByUse", "UnsafeBinder"}


def strip(e):
    """Skip nodes that do not change the value (Use/NeverToAny/ascriptions) and
    blocks that consist of a tail expression only."""
    while isinstance(e, dict):
        k = e.get("k")
        if k in TRANSPARENT:
            e = e["e"]
        elif k == "Block" and not e["b"]["stmts"] and "tail" in e["b"]:
            e = e["b"]["tail"]
        else:
            break
    return e


def peel(e):
    """strip + look through Borrow/Deref/PointerCoercion (address-of noise)."""
    while isinstance(e, dict):
        e = strip(e)
        k = e.get("k")
        if k in ("Borrow", "Deref", "PointerCoercion"):
            e = e["e"]
        else:
            break
    return e


def children(e):
    """Direct sub-expressions of a THIR expression node (not patterns)."""
    k = e.get("k")
    out = []
    if k == "Call":
        if "fun" in e:
            out.append(e["fun"])
        out.extend(e["args"])
    elif k == "If":
        out.append(e["cond"]); out.append(e["then"])
        if "else" in e:
            out.append(e["else"])
    elif k in ("Binary", "Logical", "Assign", "AssignOp"):
        out.append(e["l"]); out.append(e["r"])
    elif k == "Match":
        out.append(e["scrut"])
        for a in e["arms"]:
            if "guard" in a:
                out.append(a["guard"])
            out.append(a["body"])
            out.extend(pat_exprs(a["pat"]))
    elif k == "Block":
        b = e["b"]
        for s in b["stmts"]:
            if s["k"] == "Expr":
                out.append(s["e"])
            else:
                if "init" in s:
                    out.append(s["init"])
                if "else" in s:
                    out.append({"k": "Block", "b": s["else"], "ty": "!", "sp": s.get("sp", {})})
                out.extend(pat_exprs(s["pat"]))
        if "tail" in b:
            out.append(b["tail"])
    elif k == "Loop":
        out.append(e["body"])
    elif k == "Let":
        out.append(e["e"]); out.extend(pat_exprs(e["pat"]))
    elif k == "Index":
        out.append(e["e"]); out.append(e["index"])
    elif k in ("Array", "Tuple"):
        out.extend(e["elems"])
    elif k == "Adt":
        out.extend(f["e"] for f in e["fields"])
        if "base" in e:
            out.append(e["base"])
    elif k == "Closure":
        out.extend(e["upvars"])
    elif "e" in e and isinstance(e["e"], dict):
        out.append(e["e"])
    return out


def pat_exprs(p):
    out = []
    if p is None:
        return out
    k = p.get("k")
    if k == "Guard":
        out.append(p["cond"]); out.extend(pat_exprs(p["sub"]))
    elif k in ("Binding", "Deref", "DerefPattern"):
        if p.get("sub"):
            out.extend(pat_exprs(p["sub"]))
    elif k in ("Variant", "Leaf"):
        for f in p["fields"]:
            out.extend(pat_exprs(f["pat"]))
    elif k == "Slice":
        for q in p["prefix"] + p["suffix"]:
            out.extend(pat_exprs(q))
        if p.get("slice"):
            out.extend(pat_exprs(p["slice"]))
    elif k == "Or":
        for q in p["pats"]:
            out.extend(pat_exprs(q))
    return out


def walk(e):
    """Pre-order walk over all expression nodes."""
    stack = [e]
    while stack:
        x = stack.pop()
        if not isinstance(x, dict):
            continue
        yield x
        stack.extend(reversed(children(x)))


def calls(e):
    for x in walk(e):
        if x.get("k") == "Call":
            yield x


def callee(c):
    """Most specific callee name for a Call / Zst node: resolved instance if any."""
    return c.get("res") or c.get("fn")


def loc(e):
    sp = e.get("sp") or e.get("span") or {}
    return "%s:%s" % (sp.get("file", "?"), sp.get("line", "?"))


def from_expansion(e):
    return bool((e.get("sp") or {}).get("exp"))


def macros(e):
    return (e.get("sp") or {}).get("mac") or []


# ---------------------------------------------------------------- pretty printer

def pp_pat(p):
    k = p["k"]
    if k == "Wild":
        return "_"
    if k == "Binding":
        s = p["name"]
        if p.get("sub"):
            s += " @ " + pp_pat(p["sub"])
        return s
    if k == "Variant":
        inner = ", ".join("%s: %s" % (f.get("name", f["idx"]), pp_pat(f["pat"])) for f in p["fields"])
        return "%s::%s{%s}" % (p["adt"].split("::")[-1], p["variant"], inner)
    if k == "Leaf":
        inner = ", ".join("%s: %s" % (f.get("name", f["idx"]), pp_pat(f["pat"])) for f in p["fields"])
        return "(%s)" % inner
    if k in ("Deref", "DerefPattern"):
        return "&" + pp_pat(p["sub"])
    if k == "Constant":
        return repr(p["value"]) if p.get("str") else p["value"]
    if k == "Range":
        return p["s"]
    if k == "Slice":
        parts = [pp_pat(q) for q in p["prefix"]]
        if p.get("slice"):
            parts.append(pp_pat(p["slice"]) + "..")
        parts += [pp_pat(q) for q in p["suffix"]]
        return "[" + ", ".join(parts) + "]"
    if k == "Or":
        return " | ".join(pp_pat(q) for q in p["pats"])
    if k == "Guard":
        return pp_pat(p["sub"]) + " if " + pp(p["cond"])
    return k


def pp(e, ind=0):
    pad = "  " * ind
    e0 = e
    k = e.get("k")
    if k in TRANSPARENT:
        return pp(e["e"], ind)
    if k == "Call":
        name = callee(e) or ("(" + pp(e["fun"], ind) + ")")
        return "%s(%s)" % (name, ", ".join(pp(a, ind) for a in e["args"]))
    if k == "Var":
        return e["var"]["name"]
    if k == "Upvar":
        return "^" + e["var"]["name"]
    if k == "Lit":
        return repr(e["v"]) if e["lk"] in ("str", "char") else e["v"]
    if k == "Borrow":
        return ("&mut " if e["mut"] else "&") + pp(e["e"], ind)
    if k == "Deref":
        return "*" + pp(e["e"], ind)
    if k == "Field":
        return "%s.%s" % (pp(e["e"], ind), e.get("name", e["idx"]))
    if k in ("Binary", "Logical"):
        return "(%s %s %s)" % (pp(e["l"], ind), e["op"], pp(e["r"], ind))
    if k == "Unary":
        return "%s(%s)" % (e["op"], pp(e["e"], ind))
    if k == "Cast":
        return "(%s as %s)" % (pp(e["e"], ind), e["ty"])
    if k == "PointerCoercion":
        return pp(e["e"], ind)
    if k == "If":
        s = "if %s {\n%s  %s\n%s}" % (pp(e["cond"], ind), pad, pp(e["then"], ind + 1), pad)
        if "else" in e:
            s += " else {\n%s  %s\n%s}" % (pad, pp(e["else"], ind + 1), pad)
        return s
    if k == "Let":
        return "let %s = %s" % (pp_pat(e["pat"]), pp(e["e"], ind))
    if k == "Match":
        s = "match %s {\n" % pp(e["scrut"], ind)
        for a in e["arms"]:
            g = (" if " + pp(a["guard"], ind + 1)) if "guard" in a else ""
            s += "%s  %s%s => %s,\n" % (pad, pp_pat(a["pat"]), g, pp(a["body"], ind + 1))
        return s + pad + "}"
    if k == "Block":
        b = e["b"]
        if not b["stmts"] and "tail" in b:
            return pp(b["tail"], ind)
        s = "{\n"
        for st in b["stmts"]:
            if st["k"] == "Expr":
                s += "%s  %s;\n" % (pad, pp(st["e"], ind + 1))
            else:
                s += "%s  let %s%s;\n" % (pad, pp_pat(st["pat"]), (" = " + pp(st["init"], ind + 1)) if "init" in st else "")
        if "tail" in b:
            s += "%s  %s\n" % (pad, pp(b["tail"], ind + 1))
        return s + pad + "}"
    if k == "Loop":
        return "loop " + pp(e["body"], ind)
    if k in ("Assign", "AssignOp"):
        return "%s %s= %s" % (pp(e["l"], ind), e.get("op", ""), pp(e["r"], ind))
    if k == "Index":
        return "%s[%s]" % (pp(e["e"], ind), pp(e["index"], ind))
    if k == "Tuple":
        return "(" + ", ".join(pp(x, ind) for x in e["elems"]) + ")"
    if k == "Array":
        return "[" + ", ".join(pp(x, ind) for x in e["elems"]) + "]"
    if k == "Adt":
        return "%s::%s{%s}" % (e["adt"].split("::")[-1], e["variant"], ", ".join("%s: %s" % (f["name"], pp(f["e"], ind)) for f in e["fields"]))
    if k == "Closure":
        return "closure<%s>" % e["def"].split("::", 1)[-1]
    if k == "Zst":
        return "fn:" + (e.get("res") or e.get("fn") or e["ty"])
    if k in ("NamedConst", "StaticRef", "ConstParam", "ThreadLocalRef", "ConstBlock"):
        return "%s:%s" % (k, e["def"])
    if k == "Return":
        return "return " + (pp(e["e"], ind) if "e" in e else "")
    if k == "Break":
        return "break " + (pp(e["e"], ind) if "e" in e else "")
    if k == "Continue":
        return "continue"
    return "<%s>" % k
