"""E3 -- compile_fail witnesses (thorough tier): rustc itself refuses the violating programs."""
import os
import re
import shutil
import subprocess

from . import facts

WDIR = os.path.join(facts.VERIF, "witness")


def run():
    """-> {witness name: {"compile_fail": bool ok, "twin": bool ok}}; raises MachineryError if cargo itself fails."""
    env = facts._env()
    env["CARGO_TARGET_DIR"] = os.path.join(facts.CACHE, "target-witness")
    try:
        shutil.copy(os.path.join(facts.REPO, "Cargo.lock"), os.path.join(WDIR, "Cargo.lock"))
    except OSError:
        pass
    r = subprocess.run(["cargo", "+nightly", "test", "--doc", "--offline"], cwd=WDIR, env=env, stdout=subprocess.PIPE,
                       stderr=subprocess.STDOUT, text=True)
    out = {}
    for m in re.finditer(r"^test src/lib\.rs - (\w+) \(line \d+\)( - compile fail| - compile)? \.\.\. (\w+)", r.stdout, re.M):
        name, cf, res = m.group(1), (m.group(2) or "").strip() == "- compile fail", m.group(3) == "ok"
        d = out.setdefault(name, {"compile_fail": None, "twin": None})
        d["compile_fail" if cf else "twin"] = res if d["compile_fail" if cf else "twin"] in (None, True) else False
    if not out:
        raise facts.MachineryError("witness crate did not build/run:\n" + r.stdout[-3000:])
    return out


def report(rep, rule, names, desc):
    """Add one obligation per witness (and its twin) to the report."""
    res = run()
    rep.rule(rule, desc, floor=len(names))
    for n in names:
        d = res.get(n)
        if d is None:
            rep.unrecognised(rule, n, "witness/src/lib.rs", "witness `%s` did not run" % n)
            continue
        rep.check(d["compile_fail"] is True, rule, n + "/compile_fail", "witness/src/lib.rs", "rustc rejects the violating program with the expected error code",
                  "the violating program of witness %s now COMPILES (or fails with another error): the type-level guarantee is gone" % n)
        rep.check(d["twin"] is True, rule, n + "/twin", "witness/src/lib.rs", "the twin that differs only by the offending line compiles",
                  "the compiling twin of witness %s no longer compiles: the witness cannot be trusted" % n)
