"""Indexes over the facts DB: bodies, items, call graph (A1), anchors (A2), reachability (A3)."""
import re
from . import thir as T


class AnchorMissing(Exception):
    pass


class Program:
    def __init__(self, db):
        self.db = db
        self.looked_up = set()      # function paths some rule has asked for by name (anchors: never unfolded)
        self.items = {}
        for i in db["items"]:
            self.items[i["path"]] = i
        self.bodies = {}
        for b in db["bodies"]:
            if b.get("thir") and isinstance(b["thir"], dict) and "root" in b["thir"]:
                self.bodies[b["path"]] = b
        self.adts = {a["path"]: a for a in db["adts"]}
        self.impls = db["impls"]
        self.traits = {t["path"]: t for t in db["traits"]}
        self.consts = {c["path"]: c for c in db["statics_consts"] if c["kind"] == "const"}
        self.statics = [c for c in db["statics_consts"] if c["kind"] == "static"]
        self._edges = None
        self._trait_impl_methods = None

    # ------------------------------------------------------------------ basic access
    def root(self, path):
        return self.bodies[path]["thir"]["root"]

    def params(self, path):
        return self.bodies[path]["thir"]["params"]

    def mir(self, path):
        return self.bodies[path].get("mir")

    def item(self, path):
        return self.items.get(path)

    def is_expansion(self, path):
        it = self.items.get(path)
        return bool(it and it["span"].get("exp"))

    def file_of(self, path):
        it = self.items.get(path)
        return it["span"]["file"] if it else "?"

    def loc_of(self, path):
        it = self.items.get(path)
        return "%s:%s" % (it["span"]["file"], it["span"]["line"]) if it else "?"

    def closures_in(self, path):
        """All closure bodies lexically nested in `path` (transitively)."""
        pre = path + "::{closure#"
        return [p for p in self.bodies if p.startswith(pre)]

    def family(self, path):
        """A function together with its nested closures and nested fns."""
        pre = path + "::"
        return [path] + [p for p in self.bodies if p.startswith(pre)]

    def owner_fn(self, path):
        """Strip ::{closure#n} suffixes."""
        return re.sub(r"(::\{closure#\d+\})+$", "", path)

    # ------------------------------------------------------------------ anchors
    def find_fn(self, path):
        if path not in self.bodies:
            raise AnchorMissing("anchor `%s` not found among the crate's bodies" % path)
        self.looked_up.add(path)
        return path

    def unfoldable(self, keep):
        """Local functions whose calls may be replaced by their bodies: free functions and inherent methods that are not
        trait methods, not macro-generated, not recursive and that no rule anchors on (keep)."""
        rec = set()
        for comp in self.sccs(sorted(self.bodies)):
            if len(comp) > 1:
                owners = {self.owner_fn(c) for c in comp}
                if owners & set(keep):
                    continue        # the cycle passes through an anchor that stays a call: unfolding the others terminates there
                rec.update(owners)
            elif comp[0] in [n for n, _ in self.edges().get(comp[0], [])]:
                rec.add(self.owner_fn(comp[0]))
        import json, os
        inv = set()
        try:
            inv = set(json.load(open(os.path.join(os.path.dirname(os.path.dirname(os.path.abspath(__file__))), "spec", "inventory.json")))["functions"])
        except Exception:
            pass
        out = set()
        for p, it in self.items.items():
            if p not in self.bodies or it["kind"] not in ("Fn", "AssocFn") or "::{closure#" in p:
                continue
            if p in inv:
                continue        # a function the recognisers were confirmed against as a unit
            # (a function outside the inventory cannot be an anchor the recognisers were confirmed against, even when an
            # enumeration - "all inherent methods of Pointer" - looked it up: it is unfolded like any other helper)
            if it.get("impl_trait") or self.is_expansion(p) or p in rec:
                continue
            if p in keep and inv and p in inv:
                continue
            if "::tests::" in p or p.endswith("::main"):
                continue
            out.add(p)
        return out

    def impl_method(self, trait, self_ty, method):
        """Body path of `impl <trait> for <self_ty> { fn method }`."""
        hits = []
        for p, it in self.items.items():
            if it.get("impl_trait") == trait and it.get("impl_self") == self_ty and p.endswith("::" + method):
                hits.append(p)
        if len(hits) != 1:
            raise AnchorMissing("impl %s for %s :: %s -> %d candidates" % (trait, self_ty, method, len(hits)))
        self.looked_up.add(hits[0])
        return hits[0]

    def inherent_method(self, self_ty_prefix, method):
        """Body path of an inherent method; self type matched on ADT path prefix (generics ignored)."""
        hits = []
        for p, it in self.items.items():
            if it["kind"] != "AssocFn" or it.get("impl_trait") or not p.endswith("::" + method):
                continue
            st = it.get("impl_self") or ""
            if st == self_ty_prefix or st.startswith(self_ty_prefix + "<"):
                hits.append(p)
        if len(hits) != 1:
            raise AnchorMissing("inherent %s::%s -> %d candidates" % (self_ty_prefix, method, len(hits)))
        self.looked_up.add(hits[0])
        return hits[0]

    def trait_impl_methods(self, trait):
        """{method name: [body paths of all impls]} for a local trait."""
        out = {}
        for p, it in self.items.items():
            if it.get("impl_trait") == trait:
                out.setdefault(p.rsplit("::", 1)[1], []).append(p)
        return out

    def trait_default_methods(self, trait):
        out = {}
        for p, it in self.items.items():
            if it.get("in_trait") == trait:
                out[p.rsplit("::", 1)[1]] = p
        return out

    # ------------------------------------------------------------------ call graph
    def edges(self):
        if self._edges is not None:
            return self._edges
        local_trait_methods = {}
        for tpath in self.traits:
            for name, ps in self.trait_impl_methods(tpath).items():
                local_trait_methods[tpath + "::" + name] = list(ps)
            for name, p in self.trait_default_methods(tpath).items():
                local_trait_methods.setdefault(tpath + "::" + name, []).append(p)
        E = {}
        for path, b in self.bodies.items():
            outs = []
            for x in T.walk(b["thir"]["root"]):
                k = x.get("k")
                if k in ("Call", "Zst"):
                    name = x.get("res") or x.get("fn")
                    if not name:
                        continue
                    outs.append((name, x))
                    # unresolved call of a local trait method: conservatively all impls
                    if not x.get("res") and x.get("fn") in local_trait_methods:
                        for p in local_trait_methods[x["fn"]]:
                            outs.append((p, x))
                    elif x.get("res") and x.get("fn") in local_trait_methods and x["res"] == x["fn"]:
                        # resolved to the trait's own default method: may be overridden for some T
                        for p in local_trait_methods[x["fn"]]:
                            outs.append((p, x))
                elif k == "Closure":
                    outs.append((x["def"], x))
            # patterns with guards etc are covered by walk
            E[path] = outs
        self._edges = E
        return E

    def callees(self, path):
        return self.edges().get(path, [])

    def reach(self, roots, stop=None):
        """Set of *local* body paths reachable from roots; also returns all (incl. foreign) callee names.
        `stop(path)` -> True prunes the traversal at that body (it is not included)."""
        E = self.edges()
        seen = set()
        foreign = {}
        stack = [r for r in roots]
        while stack:
            p = stack.pop()
            if p in seen:
                continue
            if stop is not None and stop(p):
                continue
            seen.add(p)
            for name, node in E.get(p, []):
                if name in self.bodies:
                    if name not in seen:
                        stack.append(name)
                else:
                    foreign.setdefault(name, []).append((p, node))
        return seen, foreign

    def call_sites(self, within, pred):
        """All Call/Zst nodes in bodies `within` whose callee name satisfies pred -> [(body, node)]."""
        out = []
        E = self.edges()
        for p in within:
            for name, node in E.get(p, []):
                if node.get("k") in ("Call", "Zst") and pred(name):
                    out.append((p, node))
        return out

    def callers_of(self, target):
        out = []
        for p, outs in self.edges().items():
            for name, node in outs:
                if name == target:
                    out.append((p, node))
        return out

    # ------------------------------------------------------------------ standard regions
    def concrete_view_bodies(self):
        """Bodies of `impl Queryable for <concrete type>` and `impl JsonPath for <concrete>` (+ nested closures)."""
        out = set()
        for p, it in self.items.items():
            if it.get("impl_trait") in ("crate::query::queryable::Queryable", "crate::JsonPath"):
                st = it.get("impl_self") or ""
                if st != "T":
                    out.update(self.family(p))
        return out

    def evaluator(self):
        """Reach({js_path_process}) without the concrete `impl Queryable for Value` side."""
        conc = self.concrete_view_bodies()
        root = self.find_fn("crate::query::js_path_process")
        r, f = self.reach([root], stop=lambda p: p in conc)
        return r, f

    def parser_region(self):
        root = self.find_fn("crate::parser::parse_json_path")
        r, f = self.reach([root])
        return r, f

    def public_entry_points(self):
        return sorted(p for p, it in self.items.items()
                      if it["kind"] in ("Fn", "AssocFn") and it.get("exported") and p in self.bodies)

    def sccs(self, nodes=None):
        """Tarjan SCCs over local bodies (iterative)."""
        E = self.edges()
        nodes = list(nodes if nodes is not None else self.bodies.keys())
        nodeset = set(nodes)
        index = {}
        low = {}
        onstack = set()
        stack = []
        out = []
        counter = [0]
        for start in nodes:
            if start in index:
                continue
            work = [(start, iter([n for n, _ in E.get(start, []) if n in nodeset]))]
            index[start] = low[start] = counter[0]; counter[0] += 1
            stack.append(start); onstack.add(start)
            while work:
                v, it = work[-1]
                advanced = False
                for w in it:
                    if w not in index:
                        index[w] = low[w] = counter[0]; counter[0] += 1
                        stack.append(w); onstack.add(w)
                        work.append((w, iter([n for n, _ in E.get(w, []) if n in nodeset])))
                        advanced = True
                        break
                    elif w in onstack:
                        low[v] = min(low[v], index[w])
                if advanced:
                    continue
                work.pop()
                if work:
                    u = work[-1][0]
                    low[u] = min(low[u], low[v])
                if low[v] == index[v]:
                    comp = []
                    while True:
                        w = stack.pop(); onstack.discard(w); comp.append(w)
                        if w == v:
                            break
                    out.append(comp)
        return out
