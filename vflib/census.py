"""Who-may-call / effect census helpers shared by several properties (ban lists with positive controls)."""
import re
from . import thir as T

# ---------------------------------------------------------------------------- tables

# Callee path patterns (matched with re.search against both the written and the resolved callee).
STATE_AND_EFFECTS = [
    ("interior-mutability", r"^core::cell::|::(Cell|RefCell|UnsafeCell|OnceCell|LazyCell)(::|<)"),
    ("sync-primitives", r"^std::sync::|^core::sync::atomic|^std::sync::atomic|::(Mutex|RwLock|Condvar|OnceLock|LazyLock|Once|Barrier)(::|<)|::Atomic[A-Z]\w*::"),
    ("rc", r"^alloc::rc::|^alloc::sync::|::(Rc|Arc|Weak)::<"),
    ("io-env-process", r"^std::(env|fs|io|net|process|os|path)::"),
    ("threads", r"^std::thread::"),
    ("time", r"^std::time::|^core::time::"),
    ("random-hash", r"RandomState|^std::collections::hash|^std::hash::random"),
    ("address-observation", r"^core::ptr::(eq|addr_eq|fn_addr_eq)|::addr$|::expose_provenance|^core::ptr::"),
    ("pest-global-knobs", r"^pest::(set_call_limit|set_error_detail)|pest::parser_state::set_call_limit|pest::parser_state::set_error_detail"),
]

NO_LEAK_OR_FORGE = [
    ("leak", r"::leak$|^alloc::boxed::Box::<T(, A)?>::(leak|into_raw|from_raw)|::into_raw_parts|::from_raw_parts"),
    ("transmute", r"^core::intrinsics::transmute|^core::mem::(transmute|transmute_copy|forget|zeroed|uninitialized|MaybeUninit)"),
    ("raw-ptr", r"^core::ptr::|^core::slice::raw::|^core::slice::from_raw_parts"),
]

REFLECTION = [
    ("type-name", r"^core::any::type_name"),
    ("type-id", r"^core::any::TypeId|^core::any::Any|::downcast(_ref|_mut|_unchecked)?$|<dyn core::any::Any"),
    ("layout", r"^core::mem::(size_of|size_of_val|align_of|align_of_val|needs_drop|discriminant)|^core::intrinsics::(size_of|type_id|type_name|needs_drop)"),
    ("transmute", r"^core::intrinsics::transmute|^core::mem::(transmute|transmute_copy)"),
]

EXPLICIT_PANICS = [
    ("unwrap", r"^core::(option::Option|result::Result)::<[^>]*>::(unwrap|expect|unwrap_err|expect_err|unwrap_unchecked)$"),
    ("panic", r"^core::panicking::|^std::panicking::|^std::rt::(begin_panic|panic_fmt)|^core::panic::|::unreachable_unchecked$"),
    ("exit", r"^std::process::(exit|abort)"),
    ("assert-failed", r"assert_failed"),
]

ORDER_CHANGING = [
    ("rev", r"Iterator::rev$|::rev$"),
    ("sort", r"::sort(_by|_by_key|_unstable|_unstable_by|_unstable_by_key|_by_cached_key)?$|::sorted"),
    ("dedup", r"::dedup(_by|_by_key)?$"),
    ("reverse", r"::reverse$|::rotate_(left|right)$|::swap$|::swap_remove$|::select_nth"),
    ("shuffle", r"shuffle"),
    ("unordered-collections", r"^std::collections::hash|^alloc::collections::(btree|binary_heap)|HashMap|HashSet|BTreeMap|BTreeSet|BinaryHeap"),
    ("retain-drain", r"::retain(_mut)?$|::drain$|::truncate$|::split_off$|::remove$|::pop$|::insert$"),
]

BANNED_TYPES_STATE = r"\b(core::cell::(Cell|RefCell|UnsafeCell|OnceCell|LazyCell)|std::sync::(Mutex|RwLock|Condvar|OnceLock|LazyLock|Once|mpsc::\w+)|std::sync::(poison::)?(mutex::Mutex|rwlock::RwLock|condvar::Condvar|once_lock::OnceLock|lazy_lock::LazyLock)|core::sync::atomic::Atomic\w*|alloc::rc::(Rc|Weak)|alloc::sync::Weak|std::thread::\w+|std::collections::hash::\w+::(HashMap|HashSet)|std::hash::random::RandomState)\b"


def callee_names(node):
    out = []
    for k in ("fn", "res"):
        v = node.get(k)
        if v and v not in out:
            out.append(v)
    return out


def scan_calls(prog, bodies, table):
    """-> [(label, body path, node, matched name)] for Call/Zst nodes whose callee matches the table."""
    hits = []
    comp = [(lab, re.compile(rx)) for lab, rx in table]
    n_sites = 0
    for p in bodies:
        b = prog.bodies.get(p)
        if not b:
            continue
        for x in T.walk(b["thir"]["root"]):
            if x.get("k") not in ("Call", "Zst"):
                continue
            names = callee_names(x)
            if not names:
                continue
            n_sites += 1
            for lab, rx in comp:
                m = [n for n in names if rx.search(n)]
                if m:
                    hits.append((lab, p, x, m[0]))
    return hits, n_sites


def scan_types(prog, bodies, rx):
    """Types of MIR locals and THIR expression types matching rx -> [(body, type string)]."""
    c = re.compile(rx)
    hits = []
    n = 0
    for p in bodies:
        b = prog.bodies.get(p)
        if not b:
            continue
        seen = set()
        mir = b.get("mir")
        if mir:
            for l in mir["locals"]:
                n += 1
                if l["ty"] not in seen and c.search(l["ty"]):
                    seen.add(l["ty"])
        for x in T.walk(b["thir"]["root"]):
            t = x.get("ty")
            if t and t not in seen and c.search(t):
                seen.add(t)
        for t in sorted(seen):
            hits.append((p, t))
    return hits, n


def unsafe_sites(prog, bodies=None):
    """Explicit `unsafe {}` blocks, `unsafe fn`s and `unsafe impl`s."""
    out = []
    for p, b in prog.bodies.items():
        if bodies is not None and p not in bodies:
            continue
        it = prog.items.get(p)
        if it and it.get("unsafe"):
            out.append(("unsafe-fn", p, prog.loc_of(p)))
        for x in T.walk(b["thir"]["root"]):
            if x.get("k") == "Block" and x["b"].get("unsafe"):
                out.append(("unsafe-block", p, T.loc(x)))
    for im in prog.impls:
        sp = im["span"]
        if im.get("unsafe") and sp.get("exp") and set(sp.get("mac_crates") or ["?"]) <= {"core", "std", "alloc"}:
            continue  # compiler-builtin derive (e.g. `unsafe impl TrivialClone` from #[derive(Clone, Copy)])
        if im.get("unsafe"):
            out.append(("unsafe-impl", im["self_ty"], "%s:%s" % (im["span"]["file"], im["span"]["line"])))
    return out


def adt_field_types(prog, adt_path, seen=None, through=None):
    """All type strings reachable through the fields of one of the crate's ADTs, following the crate's
    own ADTs and std containers' type arguments (the printed type string already shows those)."""
    seen = seen if seen is not None else set()
    out = []
    if adt_path in seen:
        return out
    seen.add(adt_path)
    a = prog.adts.get(adt_path)
    if not a:
        return out
    for v in a["variants"]:
        for f in v["fields"]:
            out.append(("%s::%s.%s" % (adt_path, v["name"], f["name"]), f["ty_s"]))
            for other in prog.adts:
                if other in f["ty_s"] and other not in seen:
                    out.extend(adt_field_types(prog, other, seen))
    return out
