"""A4 -- match tables: which arm(s) of a `match` a value of a given *shape* selects.

Shapes
  ANY                               unknown value
  ("v", variant, [sub...])          enum value of that variant; sub-shapes per field index (ANY if omitted)
  ("t", [sub...])                   tuple
  ("s", text)                       the string constant `text`
  ("s*",)                           a string different from every constant appearing in the match
  ("sl", n)                         slice / Vec of length n  (elements ANY)
  ("b", True|False)                 bool
"""
ANY = ("any",)

YES, NO, MAYBE = "yes", "no", "maybe"


def _and(rs):
    r = YES
    for x in rs:
        if x == NO:
            return NO
        if x == MAYBE:
            r = MAYBE
    return r


def pat_match(pat, shape):
    k = pat.get("k")
    if k in ("Wild", "Missing"):
        return YES
    if k == "Binding":
        if pat.get("sub"):
            return pat_match(pat["sub"], shape)
        return YES
    if k in ("Deref", "DerefPattern"):
        return pat_match(pat["sub"], shape)
    if k == "Guard":
        r = pat_match(pat["sub"], shape)
        return MAYBE if r == YES else r
    if k == "Or":
        res = [pat_match(q, shape) for q in pat["pats"]]
        if YES in res:
            return YES
        if MAYBE in res:
            return MAYBE
        return NO
    if k == "Variant":
        if shape == ANY:
            return MAYBE
        if shape[0] != "v":
            return MAYBE
        if shape[1] != pat["variant"]:
            return NO
        subs = shape[2] if len(shape) > 2 else []
        rs = []
        for f in pat["fields"]:
            sub = subs[f["idx"]] if f["idx"] < len(subs) else ANY
            rs.append(pat_match(f["pat"], sub))
        return _and(rs)
    if k == "Leaf":
        if shape == ANY:
            subs = []
        elif shape[0] == "t":
            subs = shape[1]
        else:
            subs = []
        rs = []
        for f in pat["fields"]:
            sub = subs[f["idx"]] if f["idx"] < len(subs) else ANY
            rs.append(pat_match(f["pat"], sub))
        return _and(rs)
    if k == "Constant":
        v = pat["value"]
        if shape == ANY:
            return MAYBE
        if shape[0] == "s":
            return YES if (v if pat.get("str") else _unquote(v)) == shape[1] else NO
        if shape[0] == "s*":
            return NO
        if shape[0] == "b":
            return YES if v == ("true" if shape[1] else "false") else NO
        return MAYBE
    if k == "Slice":
        npre, nsuf = len(pat["prefix"]), len(pat["suffix"])
        if shape == ANY or shape[0] != "sl":
            return MAYBE
        n = shape[1]
        if pat.get("slice"):
            if n < npre + nsuf:
                return NO
        elif n != npre + nsuf:
            return NO
        rs = [pat_match(q, ANY) for q in pat["prefix"] + pat["suffix"]]
        return _and(rs)
    if k == "Range":
        return MAYBE
    return MAYBE


def _unquote(v):
    v = v.strip()
    if len(v) >= 2 and v[0] == '"' and v[-1] == '"':
        body = v[1:-1]
        return body.encode().decode("unicode_escape") if "\\" in body else body
    return v


def select(arms, shape):
    """arms: list of THIR arm dicts ({pat, guard?, body}) or term arms (pat, guard, body).
    Returns [(index, 'definite'|'conditional')] in the order arms can be selected."""
    out = []
    for i, a in enumerate(arms):
        if isinstance(a, dict):
            pat, guard = a["pat"], a.get("guard")
        else:
            pat, guard = a[0], a[1]
        r = pat_match(pat, shape)
        if r == NO:
            continue
        if r == YES and guard is None:
            out.append((i, "definite"))
            return out
        out.append((i, "conditional"))
    return out


def str_constants(arms):
    """All string constants mentioned by the patterns of these arms (any depth)."""
    out = []

    def rec(p):
        k = p.get("k")
        if k == "Constant":
            if p.get("str"):
                if p["value"] not in out:
                    out.append(p["value"])
            else:
                v = p["value"].strip()
                if v.startswith('"'):
                    u = _unquote(v)
                    if u not in out:
                        out.append(u)
        for key in ("sub", "slice"):
            if p.get(key):
                rec(p[key])
        for key in ("pats", "prefix", "suffix"):
            for q in p.get(key) or []:
                rec(q)
        for f in p.get("fields") or []:
            rec(f["pat"])

    for a in arms:
        rec(a["pat"] if isinstance(a, dict) else a[0])
    return out


def slice_lengths(arms):
    """Slice-pattern lengths mentioned (to enumerate 0..max+1)."""
    mx = 0

    def rec(p):
        nonlocal mx
        if p.get("k") == "Slice":
            mx = max(mx, len(p["prefix"]) + len(p["suffix"]))
        for key in ("sub", "slice"):
            if p.get(key):
                rec(p[key])
        for key in ("pats", "prefix", "suffix"):
            for q in p.get(key) or []:
                rec(q)
        for f in p.get("fields") or []:
            rec(f["pat"])

    for a in arms:
        rec(a["pat"] if isinstance(a, dict) else a[0])
    return list(range(0, mx + 2))


def variants_of(prog, adt_path):
    a = prog.adts.get(adt_path)
    if not a:
        return None
    return [(v["name"], len(v["fields"])) for v in a["variants"]]
