"""Building and loading the facts database (E1) and the grammar JSON (E2).

Everything is rebuilt from /repo's *current working tree*: the cache key is a hash of the
sources that the library build reads.  Nothing is kept under /tmp.
"""
import fcntl
import hashlib
import json
import os
import shutil
import subprocess
import sys
import time

VERIF = os.path.dirname(os.path.dirname(os.path.abspath(__file__)))
REPO = os.environ.get("VF_REPO", "/repo")
CACHE = os.path.join(VERIF, ".cache")
DRIVER_DIR = os.path.join(VERIF, "driver")
DRIVER_BIN = os.path.join(DRIVER_DIR, "target", "release", "vf-driver")
PESTFACTS_DIR = os.path.join(VERIF, "pestfacts")
PESTFACTS_BIN = os.path.join(PESTFACTS_DIR, "target", "release", "pestfacts")


class MachineryError(Exception):
    """The analysis could not be carried out (exit code 2, never a VIOLATION)."""


def _env():
    e = dict(os.environ)
    e["CARGO_NET_OFFLINE"] = "true"
    e.pop("RUSTC_WORKSPACE_WRAPPER", None)
    e.pop("RUSTFLAGS", None)
    e.pop("CARGO_TARGET_DIR", None)
    return e


def source_files(repo=None):
    repo = repo or REPO
    files = []
    for base in ("src",):
        for root, dirs, fs in os.walk(os.path.join(repo, base)):
            dirs.sort()
            for f in sorted(fs):
                files.append(os.path.join(root, f))
    for f in ("Cargo.toml", "Cargo.lock", "build.rs"):
        p = os.path.join(repo, f)
        if os.path.exists(p):
            files.append(p)
    return files


def source_hash(repo=None):
    repo = repo or REPO
    h = hashlib.sha256()
    for p in source_files(repo):
        h.update(os.path.relpath(p, repo).encode())
        h.update(b"\0")
        with open(p, "rb") as fh:
            h.update(fh.read())
        h.update(b"\0")
    # the driver itself is part of the key
    for root, dirs, fs in os.walk(os.path.join(DRIVER_DIR, "src")):
        for f in sorted(fs):
            with open(os.path.join(root, f), "rb") as fh:
                h.update(fh.read())
    return h.hexdigest()[:20]


class _Lock:
    def __init__(self, name):
        os.makedirs(CACHE, exist_ok=True)
        self.path = os.path.join(CACHE, name + ".lock")

    def __enter__(self):
        self.fh = open(self.path, "w")
        fcntl.flock(self.fh, fcntl.LOCK_EX)
        return self

    def __exit__(self, *a):
        fcntl.flock(self.fh, fcntl.LOCK_UN)
        self.fh.close()


def nightly_sysroot():
    try:
        return subprocess.check_output(["rustc", "+nightly", "--print", "sysroot"], env=_env(), text=True).strip()
    except Exception as ex:  # pragma: no cover
        raise MachineryError("nightly toolchain not available: %s" % ex)


def build_driver(force=False):
    with _Lock("driver"):
        newest_src = 0
        for root, dirs, fs in os.walk(os.path.join(DRIVER_DIR, "src")):
            for f in fs:
                newest_src = max(newest_src, os.path.getmtime(os.path.join(root, f)))
        if not force and os.path.exists(DRIVER_BIN) and os.path.getmtime(DRIVER_BIN) >= newest_src:
            return
        r = subprocess.run(["cargo", "build", "--release", "--offline"], cwd=DRIVER_DIR, env=_env(),
                           stdout=subprocess.PIPE, stderr=subprocess.STDOUT, text=True)
        if r.returncode != 0 or not os.path.exists(DRIVER_BIN):
            raise MachineryError("driver build failed:\n" + r.stdout[-4000:])


def build_pestfacts(force=False):
    with _Lock("pestfacts"):
        lock_src = os.path.join(REPO, "Cargo.lock")
        newest_src = 0
        for root, dirs, fs in os.walk(os.path.join(PESTFACTS_DIR, "src")):
            for f in fs:
                newest_src = max(newest_src, os.path.getmtime(os.path.join(root, f)))
        if not force and os.path.exists(PESTFACTS_BIN) and os.path.getmtime(PESTFACTS_BIN) >= newest_src:
            return
        r = subprocess.run(["cargo", "build", "--release", "--offline"], cwd=PESTFACTS_DIR, env=_env(),
                           stdout=subprocess.PIPE, stderr=subprocess.STDOUT, text=True)
        if r.returncode != 0 or not os.path.exists(PESTFACTS_BIN):
            raise MachineryError("pestfacts build failed:\n" + r.stdout[-4000:])


def _run_driver(repo, out_path, target_dir, crate="jsonpath_rust", pkg_fingerprint="jsonpath-rust"):
    sysroot = nightly_sysroot()
    env = _env()
    env["LD_LIBRARY_PATH"] = os.path.join(sysroot, "lib") + ":" + env.get("LD_LIBRARY_PATH", "")
    env["RUSTFLAGS"] = "-Zmir-opt-level=0 -Zno-steal-thir -Awarnings -Cdebug-assertions=on -Coverflow-checks=on"
    env["RUSTC_WORKSPACE_WRAPPER"] = DRIVER_BIN
    env["VF_FACTS_OUT"] = out_path
    env["VF_CRATE"] = crate
    env["CARGO_TARGET_DIR"] = target_dir
    env["CARGO_INCREMENTAL"] = "0"
    # cargo would skip the wrapper for a fresh member: drop its fingerprints
    fp = os.path.join(target_dir, "debug", ".fingerprint")
    if os.path.isdir(fp):
        for d in os.listdir(fp):
            if d.startswith(pkg_fingerprint + "-"):
                shutil.rmtree(os.path.join(fp, d), ignore_errors=True)
    if os.path.exists(out_path):
        os.remove(out_path)
    r = subprocess.run(["cargo", "+nightly", "check", "--offline", "--lib", "--quiet"], cwd=repo, env=env,
                       stdout=subprocess.PIPE, stderr=subprocess.STDOUT, text=True)
    if r.returncode != 0:
        raise MachineryError("the repository does not compile under the facts driver (cargo exit %d):\n%s"
                             % (r.returncode, r.stdout[-6000:]))
    if not os.path.exists(out_path) or os.path.getsize(out_path) == 0:
        raise MachineryError("driver did not produce a facts file (cargo freshness cache?)\n" + r.stdout[-2000:])


def load_facts(fresh=False, repo=None):
    """Facts DB of repo's current working tree. `fresh` bypasses cache AND target dir."""
    repo = repo or REPO
    build_driver()
    key = source_hash(repo)
    fdir = os.path.join(CACHE, "facts")
    os.makedirs(fdir, exist_ok=True)
    path = os.path.join(fdir, key + ".json")
    t0 = time.time()
    with _Lock("facts"):
        if fresh or not os.path.exists(path):
            target = os.path.join(CACHE, "target")
            if fresh and os.path.isdir(target):
                shutil.rmtree(target, ignore_errors=True)
            tmp = path + ".new"
            _run_driver(repo, tmp, target)
            os.replace(tmp, path)
            # keep the cache small: drop all but the 6 newest
            olds = sorted((os.path.getmtime(os.path.join(fdir, f)), f) for f in os.listdir(fdir) if f.endswith(".json"))
            for _, f in olds[:-6]:
                os.remove(os.path.join(fdir, f))
            built = True
        else:
            built = False
    with open(path) as fh:
        db = json.load(fh)
    db["_meta"] = {"source_hash": key, "rebuilt": built, "extract_s": round(time.time() - t0, 2), "path": path,
                   "repo": repo}
    return db


def load_facts_for(repo, crate="jsonpath_rust", pkg="jsonpath-rust", tag="fixture"):
    """Facts DB of an arbitrary crate directory (fixtures); cached by content hash."""
    build_driver()
    h = hashlib.sha256()
    for root, dirs, fs in os.walk(repo):
        dirs[:] = sorted(d for d in dirs if d not in ("target",))
        for f in sorted(fs):
            p = os.path.join(root, f)
            h.update(os.path.relpath(p, repo).encode())
            with open(p, "rb") as fh:
                h.update(fh.read())
    for root, dirs, fs in os.walk(os.path.join(DRIVER_DIR, "src")):
        for f in sorted(fs):
            with open(os.path.join(root, f), "rb") as fh:
                h.update(fh.read())
    key = h.hexdigest()[:20]
    fdir = os.path.join(CACHE, tag)
    os.makedirs(fdir, exist_ok=True)
    path = os.path.join(fdir, key + ".json")
    with _Lock(tag):
        if not os.path.exists(path):
            target = os.path.join(CACHE, "target-" + tag)
            tmp = path + ".new"
            _run_driver(repo, tmp, target, crate=crate, pkg_fingerprint=pkg)
            os.replace(tmp, path)
            olds = sorted((os.path.getmtime(os.path.join(fdir, f)), f) for f in os.listdir(fdir) if f.endswith(".json"))
            for _, f in olds[:-4]:
                os.remove(os.path.join(fdir, f))
    with open(path) as fh:
        db = json.load(fh)
    db["_meta"] = {"source_hash": key, "path": path, "repo": repo}
    return db
