"""Relational (linear-inequality) proofs over provenance terms: a fallback for obligations the interval domain cannot
discharge because they need a relation between two values (`i <= len - 1  =>  i < len`).

Every non-linear subterm becomes an atom (with its interval as bounds); comparisons of the path condition become linear
constraints; an obligation holds when its negation together with the constraints is infeasible over the rationals
(Fourier-Motzkin, vflib.pwl) -- which implies infeasible over the integers.  Arithmetic is read mathematically: the
no-overflow obligation of each operation is a separate C08-R2 instance."""
from . import pwl
from .intervals import INF, TYPE_RANGE, facts_of
from .terms import Tm


class Lin:
    def __init__(self, iv, pc):
        self.iv, self.pc = iv, pc
        self.atoms = {}        # term -> atom name
        self.cons = []

    def atom(self, t, lo=None, hi=None):
        if t not in self.atoms:
            name = "a%d" % len(self.atoms)
            self.atoms[t] = name
            r = self.iv.iv(t, self.pc)
            l2 = r[0] if r[0] != -INF else None
            h2 = r[1] if r[1] != INF else None
            lo = l2 if lo is None else (max(lo, l2) if l2 is not None else lo)
            hi = h2 if hi is None else (min(hi, h2) if h2 is not None else hi)
            if lo is not None:
                self.cons.append({name: 1, 1: -int(lo)})
            if hi is not None:
                self.cons.append({name: -1, 1: int(hi)})
        return {self.atoms[t]: 1}

    def lin(self, t, depth=0):
        if depth > 30 or not isinstance(t, Tm):
            raise pwl.Undecided("term too deep")
        k = t.k
        if k == "lit" and t.a[0] == "int":
            return pwl.lf(int(t.a[1]))
        if k == "cast":
            tr = TYPE_RANGE.get(t.a[0].strip())
            r = self.iv.iv(t.a[1], self.pc)
            if tr is None or (r[0] >= tr[0] and r[1] <= tr[1]):
                return self.lin(t.a[1], depth + 1)       # value-preserving cast
            return self.atom(t)
        if k == "bin" and t.a[0] in ("Add", "Sub"):
            a, b = self.lin(t.a[1], depth + 1), self.lin(t.a[2], depth + 1)
            return pwl.ladd(a, b, 1 if t.a[0] == "Add" else -1)
        if k == "bin" and t.a[0] == "Mul":
            for x, y in ((t.a[1], t.a[2]), (t.a[2], t.a[1])):
                if x.k == "lit" and x.a[0] == "int":
                    return pwl.lscale(self.lin(y, depth + 1), int(x.a[1]))
            return self.atom(t)
        if k == "un" and t.a[0] == "Neg":
            return pwl.lscale(self.lin(t.a[1], depth + 1), -1)
        if k == "call":
            m = t.a[0].rsplit("::", 1)[-1]
            if m in ("abs", "unsigned_abs") and len(t.a) == 2:
                fresh = t not in self.atoms
                a = self.atom(t, lo=0)
                if fresh:
                    x = self.lin(t.a[1], depth + 1)
                    self.cons.append(pwl.ge(a, x))
                    self.cons.append(pwl.ge(a, pwl.lscale(x, -1)))
                return a
            if m == "len" and len(t.a) == 2:
                return self.atom(Tm("call", ("<len>", t.a[1])), lo=0, hi=2 ** 62)
        return self.atom(t)

    def add_facts(self):
        for f in facts_of(self.pc):
            if f[0] != "cmp":
                continue
            op, x, y = f[1], f[2], f[3]
            try:
                a, b = self.lin(x), self.lin(y)
            except pwl.Undecided:
                continue
            if op == "Lt":
                self.cons.append(pwl.gt(b, a))
            elif op == "Le":
                self.cons.append(pwl.ge(b, a))
            elif op == "Gt":
                self.cons.append(pwl.gt(a, b))
            elif op == "Ge":
                self.cons.append(pwl.ge(a, b))
            elif op == "Eq":
                self.cons.append(pwl.ge(a, b)); self.cons.append(pwl.ge(b, a))

    def infeasible(self, extra):
        order = sorted(self.atoms.values())
        try:
            return not pwl.rational_feasible(self.cons + extra, order)
        except pwl.Undecided:
            return False


def prove_in_bounds(iv, pc, X, length_term):
    """0 <= X < length_term under pc ?  -> (lo_ok, hi_ok)"""
    L = Lin(iv, pc)
    try:
        x = L.lin(X)
        n = L.lin(length_term)
    except pwl.Undecided:
        return False, False
    L.add_facts()
    lo_ok = L.infeasible([pwl.gt(pwl.lf(0), x)])        # X <= -1
    hi_ok = L.infeasible([pwl.ge(x, n)])                # X >= len
    return lo_ok, hi_ok


def prove_range(iv, pc, term, tr):
    """tr[0] <= term <= tr[1] under pc ?  -> (lo_ok, hi_ok)"""
    L = Lin(iv, pc)
    try:
        x = L.lin(term)
    except pwl.Undecided:
        return False, False
    L.add_facts()
    lo_ok = L.infeasible([pwl.gt(pwl.lf(int(tr[0])), x)])
    hi_ok = L.infeasible([pwl.gt(x, pwl.lf(int(tr[1])))])
    return lo_ok, hi_ok
