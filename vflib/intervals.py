"""Interval abstract interpretation over provenance terms, refined by path conditions (A10 on THIR structure).

Sound for the straight-line / structured code it is applied to: a value's interval is the join over all alternative
definitions (phi/if/match), loop-carried values are TOP and are only narrowed by comparisons that *enclose* the site
(enclosing conditions certainly hold at the site because the compared variables are not reassigned in between --
the caller checks that side condition for loop counters).
"""
from .terms import Tm, subterms

INF = float("inf")
I64 = (-(2 ** 63), 2 ** 63 - 1)
U64 = (0, 2 ** 64 - 1)
IJSON = (-(2 ** 53 - 1), 2 ** 53 - 1)

TYPE_RANGE = {
    "i64": I64, "isize": I64, "usize": U64, "u64": U64, "i32": (-(2 ** 31), 2 ** 31 - 1), "u32": (0, 2 ** 32 - 1),
    "i16": (-(2 ** 15), 2 ** 15 - 1), "u16": (0, 2 ** 16 - 1), "i8": (-128, 127), "u8": (0, 255),
    "i128": (-(2 ** 127), 2 ** 127 - 1), "u128": (0, 2 ** 128 - 1),
}


def join(a, b):
    return (min(a[0], b[0]), max(a[1], b[1]))


def meet(a, b):
    return (max(a[0], b[0]), min(a[1], b[1]))


def ty_of(t):
    if isinstance(t, Tm) and t.n is not None:
        return (t.n.get("ty") or "").lstrip("&").strip()
    return ""


class Intervals:
    def __init__(self, len_max=2 ** 62, ast_ints=None, param_ranges=None, updates=None):
        self.len_max = len_max
        self.updates = updates or {}   # loop variable id -> [(update term `old op d`, pc at the update)]
        self.ast_ints = ast_ints or (lambda t: False)     # predicate: term denotes a validated AST integer (or Option of one)
        self.param_ranges = param_ranges or {}             # Tm(param) -> interval
        self.assumptions = set()

    def top(self, t):
        ty = ty_of(t)
        return TYPE_RANGE.get(ty, (-INF, INF))

    def iv(self, t, pc=(), depth=0):
        r = self._iv(t, pc, depth)
        return self.refine(t, r, pc, depth)

    def _iv(self, t, pc, depth):
        if not isinstance(t, Tm) or depth > 40:
            return (-INF, INF)
        k = t.k
        if t in self.param_ranges:
            return self.param_ranges[t]
        if self.ast_ints(t):
            self.assumptions.add("AST integers are within +-(2^53-1) (C07-R2)")
            return IJSON
        if k == "lit" and t.a[0] == "int":
            try:
                v = int(t.a[1])
                return (v, v)
            except ValueError:
                return self.top(t)
        if k == "cast":
            inner = self.iv(t.a[1], pc, depth + 1)
            tr = TYPE_RANGE.get(t.a[0].strip(), None)
            if tr is None:
                return inner
            if inner[0] >= tr[0] and inner[1] <= tr[1]:
                return inner
            return tr
        if k == "call":
            name = t.a[0]
            m = name.rsplit("::", 1)[-1]
            if m == "len" and len(t.a) == 2:
                self.assumptions.add("collections hold at most 2^62 elements")
                return (0, self.len_max)
            if m in ("unwrap_or",) and len(t.a) == 3:
                o = t.a[1]
                pay = IJSON if self.ast_ints(o) else (-INF, INF)
                if pay == IJSON:
                    self.assumptions.add("AST integers are within +-(2^53-1) (C07-R2)")
                else:
                    pay = self.top(t)
                return join(pay, self.iv(t.a[2], pc, depth + 1))
            if name in ("core::cmp::min", "core::cmp::Ord::min") and len(t.a) == 3:
                a, b = self.iv(t.a[1], pc, depth + 1), self.iv(t.a[2], pc, depth + 1)
                return (min(a[0], b[0]), min(a[1], b[1]))
            if name in ("core::cmp::max", "core::cmp::Ord::max") and len(t.a) == 3:
                a, b = self.iv(t.a[1], pc, depth + 1), self.iv(t.a[2], pc, depth + 1)
                return (max(a[0], b[0]), max(a[1], b[1]))
            if m == "clamp" and len(t.a) == 4:
                lo, hi = self.iv(t.a[2], pc, depth + 1), self.iv(t.a[3], pc, depth + 1)
                return (lo[0], hi[1])
            if m in ("abs", "unsigned_abs") and len(t.a) == 2:
                a = self.iv(t.a[1], pc, depth + 1)
                hi = max(abs(a[0]), abs(a[1]))
                lo = 0 if a[0] <= 0 <= a[1] else min(abs(a[0]), abs(a[1]))
                tr = TYPE_RANGE.get(ty_of(t))
                if tr is not None:
                    hi = min(hi, tr[1])        # a result outside the type would have panicked / is checked separately
                return (lo, hi)
            if m in ("count",) and len(t.a) == 2:
                return (0, self.len_max)
            return self.top(t)
        if k == "bin":
            op = t.a[0]
            a, b = self.iv(t.a[1], pc, depth + 1), self.iv(t.a[2], pc, depth + 1)
            if op == "Add":
                return (a[0] + b[0], a[1] + b[1])
            if op == "Sub":
                return (a[0] - b[1], a[1] - b[0])
            if op == "Mul":
                c = [x * y for x in a for y in b if not (abs(x) == INF and y == 0) and not (abs(y) == INF and x == 0)]
                return (min(c), max(c)) if c else (-INF, INF)
            return self.top(t)
        if k == "un" and t.a[0] == "Neg":
            a = self.iv(t.a[1], pc, depth + 1)
            return (-a[1], -a[0])
        if k == "if":
            a = self.iv(t.a[1], tuple(pc) + (("if", t.a[0], True),), depth + 1)
            b = self.iv(t.a[2], tuple(pc) + (("if", t.a[0], False),), depth + 1)
            return join(a, b)
        if k == "match":
            out = None
            for p, g, b in t.a[1]:
                pcx = tuple(pc) + ((("if", g, True),) if g is not None else ())
                r = self.iv(b, pcx, depth + 1)
                out = r if out is None else join(out, r)
            return out if out is not None else self.top(t)
        if k == "phi":
            out = None
            inits = [x for x in t.a if x.k != "loopvar"]
            for x in inits:
                r = self._iv(x, pc, depth + 1)
                out = r if out is None else join(out, r)
            for x in t.a:
                if x.k != "loopvar":
                    continue
                r = self.top(t)
                # loop-carried value: monotone updates keep one bound of the initial value
                ups = self.updates.get(x.a[0])
                if ups and out is not None:
                    signs = set()
                    for u, upc in ups:
                        if u.k == "bin" and u.a[0] in ("Add", "Sub") and any(y == x for y in subterms(u.a[1])):
                            d = self.iv(u.a[2], upc, depth + 1)
                            if u.a[0] == "Sub":
                                d = (-d[1], -d[0])
                            signs.add("+" if d[0] >= 0 else ("-" if d[1] <= 0 else "?"))
                        else:
                            signs.add("?")
                    if signs == {"+"}:
                        r = (out[0], r[1])
                    elif signs == {"-"}:
                        r = (r[0], out[1])
                out = r if out is None else join(out, r)
            return out if out is not None else self.top(t)
        if k == "mutated":
            return self.top(t)
        return self.top(t)

    def refine(self, t, r, pc, depth=0):
        """Narrow r using enclosing comparisons that mention exactly t."""
        if depth > 40:
            return r
        for c in pc:
            if c[0] == "if":
                cond, pol = c[1], c[2]
            elif c[0] == "arm" and c[3] is not None:
                cond, pol = c[3], True
            else:
                continue
            r = self._refine_cond(t, r, cond, pol, pc, depth)
        return r

    def _refine_cond(self, t, r, cond, pol, pc, depth):
        if not isinstance(cond, Tm):
            return r
        if cond.k == "logic":
            if (cond.a[0] == "And" and pol) or (cond.a[0] == "Or" and not pol):
                r = self._refine_cond(t, r, cond.a[1], pol, pc, depth)
                r = self._refine_cond(t, r, cond.a[2], pol, pc, depth)
            return r
        if cond.k == "un" and cond.a[0] == "Not":
            return self._refine_cond(t, r, cond.a[1], not pol, pc, depth)
        if cond.k == "call" and t.k == "call" and t.a[0].rsplit("::", 1)[-1] == "len" and len(t.a) == 2:
            m = cond.a[0].rsplit("::", 1)[-1]
            if pol and m in ("starts_with", "ends_with") and len(cond.a) == 3 and cond.a[1] == t.a[1] and cond.a[2].k == "lit" \
                    and cond.a[2].a[0] in ("str", "char"):
                return meet(r, (len(cond.a[2].a[1].encode()), INF))
            if not pol and m == "is_empty" and len(cond.a) == 2 and cond.a[1] == t.a[1]:
                return meet(r, (1, INF))
            return r
        if cond.k != "bin" or cond.a[0] not in ("Lt", "Le", "Gt", "Ge", "Eq", "Ne"):
            return r
        op, x, y = cond.a
        if not pol:
            op = {"Lt": "Ge", "Le": "Gt", "Gt": "Le", "Ge": "Lt", "Eq": "Ne", "Ne": "Eq"}[op]
        other = None
        if x == t:
            other, side = y, "left"
        elif y == t:
            other, side = x, "right"
            op = {"Lt": "Gt", "Le": "Ge", "Gt": "Lt", "Ge": "Le", "Eq": "Eq", "Ne": "Ne"}[op]
        if other is None:
            return r
        # avoid using the very same conditions recursively on `other` when it mentions t
        o = self._iv(other, (), depth + 1)
        if op == "Lt":
            return meet(r, (-INF, o[1] - 1))
        if op == "Le":
            return meet(r, (-INF, o[1]))
        if op == "Gt":
            return meet(r, (o[0] + 1, INF))
        if op == "Ge":
            return meet(r, (o[0], INF))
        if op == "Eq":
            return meet(r, o)
        return r


def facts_of(pc):
    """Flatten a path condition into atomic (op, x, y) comparison facts and (callee, args..., polarity) call facts."""
    out = []

    def add(cond, pol):
        if not isinstance(cond, Tm):
            return
        if cond.k == "logic":
            if (cond.a[0] == "And" and pol) or (cond.a[0] == "Or" and not pol):
                add(cond.a[1], pol); add(cond.a[2], pol)
            return
        if cond.k == "un" and cond.a[0] == "Not":
            add(cond.a[1], not pol); return
        if cond.k == "bin" and cond.a[0] in ("Lt", "Le", "Gt", "Ge", "Eq", "Ne"):
            op = cond.a[0]
            if not pol:
                op = {"Lt": "Ge", "Le": "Gt", "Gt": "Le", "Ge": "Lt", "Eq": "Ne", "Ne": "Eq"}[op]
            out.append(("cmp", op, cond.a[1], cond.a[2]))
            return
        if cond.k == "call":
            out.append(("call", cond.a[0], cond.a[1:], pol))

    for c in pc:
        if c[0] == "if":
            add(c[1], c[2])
        elif c[0] == "arm" and c[3] is not None:
            add(c[3], True)
    return out


def split_cases(pc, limit=8):
    """Case split on disjunctive path conditions (`a || b` known true, `a && b` known false): the list of path conditions,
    one per case, in which each such condition is replaced by one of its disjuncts.  An obligation that holds in every
    case holds under pc.  Returns [pc] when there is nothing to split (or more than `limit` cases)."""
    cases = [[]]
    for c in pc:
        alts = [c]
        cond = pol = None
        if c[0] == "if":
            cond, pol = c[1], c[2]
        if isinstance(cond, Tm) and cond.k == "un" and cond.a[0] == "Not":
            cond, pol = cond.a[1], not pol
        if isinstance(cond, Tm) and cond.k == "logic" and ((cond.a[0] == "Or" and pol) or (cond.a[0] == "And" and not pol)):
            alts = [("if", cond.a[1], pol) + tuple(c[3:]), ("if", cond.a[2], pol) + tuple(c[3:])]
        cases = [cs + [a] for cs in cases for a in alts]
        if len(cases) > limit:
            return [list(pc)]
    return [tuple(cs) for cs in cases]
