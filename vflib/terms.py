"""A5 -- operand provenance terms.

A term says *where a value comes from*.  It is a value-flow summary of expression trees:
let-bindings are substituted, local closures are inlined at their call sites, value-preserving
wrappers are erased.  No path is enumerated and nothing is executed; joins become `phi`, anything
unsupported becomes `opaque` (which the rules treat as "unrecognised", i.e. fail closed, whenever
they need to look inside).

Term kinds (Tm.k / Tm.a):
  param   (index, name)              function parameter
  var     (id,)                      unbound variable (should not normally appear)
  upvar   (name,)                    captured variable of a closure analysed stand-alone
  loopvar (id,)                      value of a loop-carried variable at loop head
  call    (callee, arg...)           call; callee is the resolved def path
  field   (base, name)               struct field / tuple index
  proj    (base, path)               component bound by a pattern; path e.g. "Data::Ref.0" / "tuple.1" / "Some.0"
  lit     (kind, value)
  const   (defpath,)
  adt     (adt, variant, ((field, term)...))
  tuple   (terms...) ; array (terms...)
  bin     (op, l, r) ; un (op, e) ; logic (op, l, r) ; cast (ty, e)
  index   (base, idx)
  if      (cond, then, else)
  match   (scrut, ((pat_json, guard|None, body)...))
  try     (inner,)                   the `?` operator applied to inner (value of the Ok/Some side)
  closure (def, env_id)              env kept out of the structural identity
  fnitem  (name,)
  phi     (alts...)                  join of several reaching definitions
  mutated (prev, effect)             variable after `f(&mut var, ...)`
  opaque  (why,)
"""
import re
from . import thir as T


class Tm:
    __slots__ = ("k", "a", "n", "env")

    def __init__(self, k, a=(), n=None, env=None):
        self.k = k
        self.a = tuple(a)
        self.n = n
        self.env = env

    def _key(self):
        if self.k == "match":
            return (self.k, self.a[0], tuple((id(p), g, b) for p, g, b in self.a[1]))
        return (self.k, self.a)

    def __eq__(self, o):
        return isinstance(o, Tm) and self._key() == o._key()

    def __hash__(self):
        try:
            return hash(self._key())
        except TypeError:
            return hash(self.k)

    def __repr__(self):
        return show(self)

    def loc(self):
        return T.loc(self.n) if self.n else "?"


def show(t, depth=0):
    if not isinstance(t, Tm):
        return repr(t)
    if depth > 12:
        return "..."
    k, a = t.k, t.a
    s = lambda x: show(x, depth + 1)
    if k == "param":
        return "%s" % a[1]
    if k in ("var", "upvar", "loopvar"):
        return "%s:%s" % (k, a[0])
    if k == "call":
        return "%s(%s)" % (short(a[0]), ", ".join(s(x) for x in a[1:]))
    if k == "field":
        return "%s.%s" % (s(a[0]), a[1])
    if k == "proj":
        return "%s~%s" % (s(a[0]), a[1])
    if k == "lit":
        return repr(a[1]) if a[0] in ("str", "char") else str(a[1])
    if k == "const":
        return "const:" + short(a[0])
    if k == "adt":
        return "%s::%s{%s}" % (short(a[0]), a[1], ", ".join("%s: %s" % (f, s(x)) for f, x in a[2]))
    if k in ("tuple", "array"):
        br = "()" if k == "tuple" else "[]"
        return br[0] + ", ".join(s(x) for x in a) + br[1]
    if k == "bin" or k == "logic":
        return "(%s %s %s)" % (s(a[1]), a[0], s(a[2]))
    if k == "un":
        return "%s(%s)" % (a[0], s(a[1]))
    if k == "cast":
        return "(%s as %s)" % (s(a[1]), a[0])
    if k == "index":
        return "%s[%s]" % (s(a[0]), s(a[1]))
    if k == "if":
        return "if(%s ? %s : %s)" % (s(a[0]), s(a[1]), s(a[2]))
    if k == "match":
        return "match(%s){%s}" % (s(a[0]), "; ".join("%s%s => %s" % (T.pp_pat(p), (" if " + s(g)) if g is not None else "", s(b)) for p, g, b in a[1]))
    if k == "try":
        return "%s?" % s(a[0])
    if k == "closure":
        return "closure<%s>" % short(a[0])
    if k == "fnitem":
        return "fn:" + short(a[0])
    if k == "phi":
        return "phi(%s)" % " | ".join(s(x) for x in a)
    if k == "mutated":
        return "mut(%s <- %s)" % (s(a[0]), s(a[1]))
    if k == "opaque":
        return "opaque<%s>" % a[0]
    return "%s%r" % (k, a)


def short(path):
    p = path.replace("crate::", "")
    return p


TRANSPARENT_CALLS = (
    "core::clone::Clone::clone",
    "core::hint::must_use",
    "core::convert::identity",
    "core::borrow::Borrow::borrow",
    "core::convert::AsRef::as_ref",
    "core::ops::deref::Deref::deref",
    "core::ops::deref::DerefMut::deref_mut",
    "alloc::boxed::Box::<T>::new",
    "alloc::string::String::as_str",
    "alloc::vec::Vec::<T, A>::as_slice",
    "alloc::borrow::ToOwned::to_owned",
)

CLOSURE_CALLS = ("core::ops::function::Fn::call", "core::ops::function::FnMut::call_mut",
                 "core::ops::function::FnOnce::call_once")


def is_transparent_call(name, fn):
    return fn in TRANSPARENT_CALLS or name in TRANSPARENT_CALLS


def decode_template(bs):
    """Decode a core::fmt::Arguments template (see library/core/src/fmt/mod.rs) into pieces:
    ("lit", text) | ("arg", index, has_options)."""
    out = []
    i = 0
    nxt = 0
    bs = list(bs)
    while i < len(bs):
        n = bs[i]; i += 1
        if n == 0:
            break
        if n < 0x80:
            out.append(("lit", bytes(bs[i:i + n]).decode("utf-8", "replace"))); i += n
        elif n == 0x80:
            ln = bs[i] | (bs[i + 1] << 8); i += 2
            out.append(("lit", bytes(bs[i:i + ln]).decode("utf-8", "replace"))); i += ln
        elif n & 0xC0 == 0xC0:
            opts = False
            if n & 1:
                i += 4; opts = True
            if n & 2:
                i += 2; opts = True
            if n & 4:
                i += 2; opts = True
            if n & 8:
                idx = bs[i] | (bs[i + 1] << 8); i += 2
            else:
                idx = nxt
            nxt = idx + 1
            out.append(("arg", idx, opts))
        else:
            out.append(("lit", "?")); break
    return tuple(out)


UNFOLD = None      # when a set: every Evaluator unfolds calls of these local functions (second analysis of `vf check`)


class Evaluator:
    """Evaluates THIR expressions of one program to terms."""

    def __init__(self, prog, inline_local=(), max_depth=6):
        self.prog = prog
        self.inline_local = set(inline_local)   # local fn paths to inline at call sites
        if UNFOLD and not getattr(prog, "is_fixture", False):
            self.inline_local |= {p for p in UNFOLD if p in prog.bodies}
        self.max_depth = max_depth
        self._summ = {}
        self.pc = []               # path condition stack: ("if", cond, polarity) / ("arm", scrut, pat, guard)
        self.sites = None          # when a list: dicts {kind,node,term,pc} for calls / arithmetic / loops
        self.trace = None          # when a list: every call term evaluated is appended (with resolved upvars)
        self.conds = None          # when a list: every branch condition / match scrutinee / guard term
        self.pc_incomplete = False  # an early exit inside a nested expression block: what follows it in the function runs under
                                    # conditions (a disjunction over the block's branches) that self.pc cannot express
        self._roots = set()         # ids of the root blocks of the bodies being evaluated

    # ------------------------------------------------------------ entry points
    def fn_env(self, path):
        env = {}
        for i, p in enumerate(self.prog.params(path)):
            pat = p.get("pat")
            if pat is not None:
                self.bind(pat, Tm("param", (i, self._pname(pat, i))), env)
        return env

    def _pname(self, pat, i):
        while pat.get("k") in ("Deref", "DerefPattern"):
            pat = pat["sub"]
        if pat.get("k") == "Binding":
            return pat["name"]
        return "arg%d" % i

    def _mark_root(self, path):
        r = T.strip(self.prog.root(path))
        if r.get("k") == "Block":
            self._roots.add(id(r["b"]))

    def summary(self, path):
        """Return-value term of a function or closure analysed stand-alone (params symbolic)."""
        if path in self._summ:
            return self._summ[path]
        self._mark_root(path)
        self._summ[path] = Tm("opaque", ("recursion:" + path,))
        env = self.fn_env(path)
        st = _State(env)
        base = len(self.pc)
        t = self.ev(self.prog.root(path), st, 0)
        res = self.with_returns(t, st.returns, base)
        self._summ[path] = res
        self._last_state = st
        return res

    def with_returns(self, t, returns, base):
        """The function's value: its tail value, overridden by each early `return v` under the conditions that lead to it
        (if / match arms are rebuilt around v; a return inside a loop is joined in as an alternative)."""
        res = t
        WILD = {"k": "Wild", "ty": ""}
        for r in reversed(returns):
            pc, v, in_loop = r
            pc = pc[base:]
            leaf = v
            if in_loop or any(c[0] not in ("if", "arm", "notarm") for c in pc):
                # a return inside a loop: under the conditions that lead to the loop the value is either what it was or v
                k = 0
                while k < len(pc) and pc[k][0] in ("if", "arm", "notarm"):
                    k += 1
                pc = pc[:k]
                leaf = phi([res, v])
                if not pc:
                    res = leaf
                    continue

            def wrap(i, res=res, v=leaf, pc=pc):
                if i == len(pc):
                    return v
                c = pc[i]
                inner = wrap(i + 1)
                if c[0] == "if":
                    return Tm("if", (c[1], inner, res)) if c[2] else Tm("if", (c[1], res, inner))
                if c[0] == "arm":
                    earlier = tuple((p0, g0, res) for p0, g0 in (c[4] if len(c) > 4 else ()))
                    return Tm("match", (c[1], earlier + ((c[2], c[3], inner), (WILD, None, res))))
                return Tm("match", (c[1], ((c[2], None, res), (WILD, None, inner))))
            res = wrap(0)
        return prune_nested(prune_nested(res)) if returns else res

    def sited(self, path):
        """[site dicts] of one function family: calls, arithmetic, indexing and loops with their path conditions."""
        old = (self.trace, self.conds, self.sites)
        self.trace, self.conds, self.sites = [], [], []
        self.pc_incomplete = False
        self._mark_root(path)
        try:
            env = self.fn_env(path)
            st = _State(env)
            self.ev(self.prog.root(path), st, 0)
            self.last_assigned = st.assigned
            # one entry per THIR node: prefer the most resolved evaluation
            by = {}
            for sdict in self.sites:
                by.setdefault(id(sdict["node"]), []).append(sdict)
            out = []
            for group in by.values():
                def score(d):
                    t = d["term"]
                    cp = len({y.a for y in subterms(t) if y.k == "cparam"}) if t is not None else 0
                    cpc = sum(len({y.a for y in subterms(c[1]) if y.k == "cparam"}) for c in d["pc"])
                    return cp + cpc
                out.append(min(group, key=score))
            return out
        finally:
            self.trace, self.conds, self.sites = old

    def traced(self, path):
        """(summary, [call terms], [condition terms]) of one function, closures explored, upvars resolved."""
        old = (self.trace, self.conds)
        self.trace, self.conds = [], []
        self._mark_root(path)
        try:
            env = self.fn_env(path)
            st = _State(env)
            base = len(self.pc)
            t = self.ev(self.prog.root(path), st, 0)
            t = self.with_returns(t, st.returns, base)
            return t, _prefer_resolved(self.trace), _prefer_resolved(self.conds)
        finally:
            self.trace, self.conds = old

    def summary_with_state(self, path):
        env = self.fn_env(path)
        st = _State(env)
        base = len(self.pc)
        t = self.ev(self.prog.root(path), st, 0)
        return self.with_returns(t, st.returns, base), st

    def apply(self, f, args, depth=0):
        """Apply a closure / fnitem term to argument terms."""
        if not isinstance(f, Tm):
            return Tm("opaque", ("apply-nonterm",))
        if f.k == "closure":
            return self._apply_path(f.a[0], args, f.env or {}, depth, closure=True)
        if f.k == "fnitem" and f.a[0] in self.prog.bodies:
            return self._apply_path(f.a[0], args, {}, depth, closure=False)
        if f.k == "phi":
            return phi([self.apply(x, args, depth) for x in f.a])
        if f.k == "match":
            # a function chosen by a match and then applied: apply inside every arm
            return Tm("match", (f.a[0], tuple((p, g, self.apply(b, args, depth)) for p, g, b in f.a[1])), f.n)
        if f.k == "if":
            return Tm("if", (f.a[0], self.apply(f.a[1], args, depth), self.apply(f.a[2], args, depth)), f.n)
        if f.k == "fnitem" and "::" in f.a[0]:
            # a tuple-variant / tuple-struct constructor used as a function value
            adt, _, var = f.a[0].rpartition("::")
            adt = re.sub(r"::<.*>$", "", adt)
            info = self.prog.adts.get(adt)
            if info:
                for v in info.get("variants", []):
                    if v["name"] == var and len(v["fields"]) == len(args):
                        return Tm("adt", (adt, var, tuple((fl["name"], a) for fl, a in zip(v["fields"], args))), f.n)
        return Tm("call", ("<apply>", f) + tuple(args))

    def _apply_path(self, path, args, captured, depth, closure):
        if depth > self.max_depth or path not in self.prog.bodies:
            return Tm("opaque", ("inline-depth:" + path,))
        env = dict(captured)
        params = self.prog.params(path)
        if closure:
            params = params[1:]  # first param of a closure body is the closure itself
        for i, p in enumerate(params):
            pat = p.get("pat")
            if pat is None:
                continue
            a = args[i] if i < len(args) else Tm("opaque", ("missing-arg",))
            self.bind(pat, a, env)
        st = _State(env)
        base = len(self.pc)
        self._mark_root(path)
        t = self.ev(self.prog.root(path), st, depth + 1)
        return self.with_returns(t, st.returns, base)

    # ------------------------------------------------------------ patterns
    def bind(self, pat, val, env, path=""):
        k = pat.get("k")
        if k == "Binding":
            env[pat["var"]["id"]] = val
            if pat.get("sub"):
                self.bind(pat["sub"], val, env, path)
        elif k in ("Deref", "DerefPattern"):
            self.bind(pat["sub"], val, env, path)
        elif k == "Variant":
            for f in pat["fields"]:
                seg = "%s::%s.%s" % (pat["adt"].split("::")[-1], pat["variant"], f.get("name", f["idx"]))
                self.bind(f["pat"], self._proj(val, seg, pat, f), env)
        elif k == "Leaf":
            for f in pat["fields"]:
                if "adt" in pat:
                    self.bind(f["pat"], Tm("field", (val, f.get("name", str(f["idx"]))), val.n), env)
                else:
                    # tuple pattern
                    if val.k == "tuple" and f["idx"] < len(val.a):
                        self.bind(f["pat"], val.a[f["idx"]], env)
                    else:
                        self.bind(f["pat"], Tm("field", (val, str(f["idx"])), val.n), env)
        elif k == "Slice":
            for i, q in enumerate(pat["prefix"]):
                self.bind(q, Tm("index", (val, Tm("lit", ("int", str(i))))), env)
            n = len(pat["suffix"])
            for i, q in enumerate(pat["suffix"]):
                self.bind(q, Tm("index", (val, Tm("lit", ("int", "-%d" % (n - i))))), env)
            if pat.get("slice"):
                self.bind(pat["slice"], Tm("proj", (val, "rest")), env)
        elif k == "Or":
            # bindings in or-patterns: bind from the first alternative only (same names in all)
            if pat["pats"]:
                self.bind(pat["pats"][0], val, env)
        elif k == "Guard":
            self.bind(pat["sub"], val, env)

    def mkproj(self, val, seg):
        """proj with `Option::map(o, f)~Some.0 == f(o~Some.0)` (same for Result::map / Ok.0) reduced."""
        if isinstance(val, Tm) and val.k == "call" and len(val.a) == 3 and val.a[2].k in ("closure", "fnitem"):
            if (seg == "Option::Some.0" and val.a[0] == "core::option::Option::<T>::map") or \
                    (seg == "Result::Ok.0" and val.a[0] == "core::result::Result::<T, E>::map"):
                if val.a[2].k == "closure" or val.a[2].a[0] in self.prog.bodies:
                    return self.apply(val.a[2], [self.mkproj(val.a[1], seg)], 1)
        return Tm("proj", (val, seg), val.n if isinstance(val, Tm) else None)

    def _proj(self, val, seg, pat, f):
        # constructing then destructuring the same variant cancels out
        if val.k == "adt" and val.a[1] == pat["variant"] and val.a[0] == pat["adt"]:
            for name, t in val.a[2]:
                if name == f.get("name", str(f["idx"])):
                    return t
        return self.mkproj(val, seg)

    # ------------------------------------------------------------ expressions
    def ev(self, e, st, depth):
        k = e.get("k")
        env = st.env
        if k in T.TRANSPARENT or k in ("Borrow", "Deref", "PointerCoercion", "RawBorrow"):
            return self.ev(e["e"], st, depth)
        if k == "Var":
            vid = e["var"]["id"]
            return env.get(vid) or Tm("var", (vid,), e)
        if k == "Upvar":
            vid = e["var"]["id"]
            return env.get(vid) or Tm("upvar", (e["var"]["name"],), e)
        if k == "Lit":
            if e["lk"] == "bytestr":
                return Tm("lit", ("bytes", tuple(e.get("bytes", ()))), e)
            return Tm("lit", (e["lk"], e["v"]), e)
        if k == "Field":
            base = self.ev(e["e"], st, depth)
            name = e.get("name", str(e["idx"]))
            if base.k == "adt":
                for f, t in base.a[2]:
                    if f == name:
                        return t
            if base.k == "tuple" and "name" not in e and e["idx"] < len(base.a):
                return base.a[e["idx"]]
            return Tm("field", (base, name), e)
        if k == "Call":
            return self.ev_call(e, st, depth)
        if k in ("Binary",):
            t = Tm("bin", (e["op"], self.ev(e["l"], st, depth), self.ev(e["r"], st, depth)), e)
            if self.sites is not None:
                self.sites.append({"kind": "bin", "node": e, "term": t, "pc": tuple(self.pc), "pc_incomplete": self.pc_incomplete})
            return t
        if k == "Logical":
            return Tm("logic", (e["op"], self.ev(e["l"], st, depth), self.ev(e["r"], st, depth)), e)
        if k == "Unary":
            t = Tm("un", (e["op"], self.ev(e["e"], st, depth)), e)
            if self.sites is not None:
                self.sites.append({"kind": "un", "node": e, "term": t, "pc": tuple(self.pc), "pc_incomplete": self.pc_incomplete})
            return t
        if k == "Cast":
            return Tm("cast", (e["ty"], self.ev(e["e"], st, depth)), e)
        if k == "Tuple":
            return Tm("tuple", [self.ev(x, st, depth) for x in e["elems"]], e)
        if k == "Array":
            return Tm("array", [self.ev(x, st, depth) for x in e["elems"]], e)
        if k == "Adt":
            fs = tuple((f["name"], self.ev(f["e"], st, depth)) for f in e["fields"])
            if "base" in e:
                fs = fs + (("..", self.ev(e["base"], st, depth)),)
            return Tm("adt", (e["adt"], e["variant"], fs), e)
        if k == "Closure":
            c = Tm("closure", (e["def"], id(env)), e, env=dict(env))
            if self.trace is not None and depth < self.max_depth:
                # explore the closure body once so that calls inside are traced with captured variables resolved
                nparams = max(0, len(self.prog.params(e["def"])) - 1) if e["def"] in self.prog.bodies else 0
                self._apply_path(e["def"], [Tm("cparam", (e["def"], i)) for i in range(nparams)], c.env, depth, closure=True)
            return c
        if k == "Zst":
            return Tm("fnitem", (e.get("res") or e.get("fn") or e["ty"],), e)
        if k in ("NamedConst", "ConstParam", "StaticRef", "ThreadLocalRef", "ConstBlock"):
            return Tm("const", (e["def"],), e)
        if k == "Index":
            t = Tm("index", (self.ev(e["e"], st, depth), self.ev(e["index"], st, depth)), e)
            if self.sites is not None:
                self.sites.append({"kind": "index", "node": e, "term": t, "pc": tuple(self.pc), "pc_incomplete": self.pc_incomplete})
            return t
        if k == "If":
            return self.ev_if(e, st, depth)
        if k == "Let":
            # bare `let` in a condition position that ev_if did not consume
            return Tm("opaque", ("let-cond",), e)
        if k == "Match":
            return self.ev_match(e, st, depth)
        if k == "Block":
            return self.ev_block(e["b"], st, depth)
        if k == "Loop":
            return self.ev_loop(e, st, depth)
        if k == "Assign":
            self.assign(e["l"], self.ev(e["r"], st, depth), st, depth)
            return Tm("tuple", (), e)
        if k == "AssignOp":
            cur = self.ev(e["l"], st, depth)
            t = Tm("bin", (e["op"].replace("Assign", ""), cur, self.ev(e["r"], st, depth)), e)
            if self.sites is not None:
                self.sites.append({"kind": "assignop", "node": e, "term": t, "pc": tuple(self.pc), "pc_incomplete": self.pc_incomplete})
            self.assign(e["l"], t, st, depth)
            return Tm("tuple", (), e)
        if k == "Return":
            v = self.ev(e["e"], st, depth) if "e" in e else Tm("tuple", (), e)
            st.returns.append((tuple(self.pc), v, st.in_loop))
            return Tm("opaque", ("never",), e)
        if k == "Break":
            if "e" in e:
                st.breaks.append(self.ev(e["e"], st, depth))
            return Tm("opaque", ("never",), e)
        if k == "Continue":
            return Tm("opaque", ("never",), e)
        if k == "Repeat":
            return Tm("call", ("<repeat>", self.ev(e["e"], st, depth)), e)
        return Tm("opaque", (k,), e)

    def assign(self, lhs, val, st, depth):
        l = T.peel(lhs)
        if l.get("k") in ("Var", "Upvar"):
            st.env[l["var"]["id"]] = val
            st.assigned.setdefault(l["var"]["id"], []).append(val)
        else:
            # field / index assignment: mark the base variable as mutated
            base = l
            while base.get("k") in ("Field", "Index", "Deref", "Borrow"):
                base = T.peel(base["e"])
            if base.get("k") in ("Var", "Upvar"):
                vid = base["var"]["id"]
                prev = st.env.get(vid) or Tm("var", (vid,))
                st.env[vid] = Tm("mutated", (prev, val))
                st.assigned.setdefault(vid, []).append(val)

    def ev_call(self, e, st, depth):
        name = T.callee(e)
        fn = e.get("fn")
        if name is None:
            f = self.ev(e["fun"], st, depth)
            args = [self.ev(a, st, depth) for a in e["args"]]
            return self.apply(f, args, depth)
        # closure invocation: Fn::call(&closure, (args,))
        if fn in CLOSURE_CALLS and len(e["args"]) == 2:
            f = self.ev(e["args"][0], st, depth)
            tup = self.ev(e["args"][1], st, depth)
            args = list(tup.a) if tup.k == "tuple" else [tup]
            if f.k in ("closure", "fnitem", "phi"):
                return self.apply(f, args, depth)
            return Tm("call", ("<apply>", f) + tuple(args), e)
        # the `?` operator's pieces are handled in ev_match (TryDesugar)
        args = []
        for a in e["args"]:
            args.append(self.ev(a, st, depth))
        # &mut local passed to a call: the local is mutated by it
        for a, ta in zip(e["args"], args):
            b = T.strip(a)
            if b.get("k") == "Borrow" and b.get("mut"):
                base = T.peel(b["e"])
                while base.get("k") in ("Field", "Index"):
                    base = T.peel(base["e"])
                if base.get("k") in ("Var", "Upvar"):
                    vid = base["var"]["id"]
                    prev = st.env.get(vid) or Tm("var", (vid,))
                    eff = Tm("call", (name,) + tuple(args), e)
                    st.env[vid] = Tm("mutated", (prev, eff), e)
                    st.assigned.setdefault(vid, []).append(eff)
        if self.sites is not None:
            self.sites.append({"kind": "call", "node": e, "term": Tm("call", (name,) + tuple(args), e), "pc": tuple(self.pc), "pc_incomplete": self.pc_incomplete})
        if self.trace is not None:
            self.trace.append(Tm("call", (name,) + tuple(args), e))
            self.explore_hof(name, fn, args, depth)
        if is_transparent_call(name, fn) and len(args) == 1:
            return args[0]
        norm = self.normalise_call(name, fn, args, e)
        if norm is not None:
            return norm
        if name in self.inline_local and name in self.prog.bodies and depth < self.max_depth:
            return self._apply_path(name, args, {}, depth, closure=False)
        return Tm("call", (name,) + tuple(args), e)

    # ---- iterator items and higher-order calls -------------------------------------------------
    ITER_PASS = ("filter", "skip", "take", "step_by", "skip_while", "take_while", "peekable", "rev", "cloned", "copied",
                 "inspect", "by_ref", "fuse")

    def item_of(self, t, depth=0):
        """Term denoting one item produced by the iterator (or collection) term t."""
        if isinstance(t, Tm) and t.k == "call" and len(t.a) >= 2 and depth < 12:
            m = t.a[0].rsplit("::", 1)[-1]
            isit = ("Iterator" in t.a[0]) or ("::iter::" in t.a[0])
            if isit and m == "enumerate":
                src = t.a[1]
                if src.k == "call" and src.a[0].rsplit("::", 1)[-1] in ("iter", "into_iter", "iter_mut") and len(src.a) == 2:
                    src = src.a[1]      # position in the container itself
                return Tm("tuple", (Tm("call", ("<index>", src)), self.item_of(t.a[1], depth + 1)))
            if isit and m == "map" and len(t.a) == 3:
                return self.apply(t.a[2], [self.item_of(t.a[1], depth + 1)], depth + 1)
            if isit and m in ("filter_map", "map_while") and len(t.a) == 3:
                return self.mkproj(self.apply(t.a[2], [self.item_of(t.a[1], depth + 1)], depth + 1), "Option::Some.0")
            if isit and m in self.ITER_PASS:
                return self.item_of(t.a[1], depth + 1)
            if isit and m == "zip" and len(t.a) == 3:
                return Tm("tuple", (self.item_of(t.a[1], depth + 1), self.item_of(t.a[2], depth + 1)))
            if isit and m == "chain" and len(t.a) == 3:
                return phi([self.item_of(t.a[1], depth + 1), self.item_of(t.a[2], depth + 1)])
            if m in ("iter", "into_iter", "iter_mut") and len(t.a) == 2:
                return self.item_of(t.a[1], depth + 1)
            if isit and m == "collect" and len(t.a) == 2:
                return self.item_of(t.a[1], depth + 1)
        els = elements_of(t)
        if els:
            return phi(els)
        if els is None and isinstance(t, Tm) and depth < 12 and t.k in ("match", "if", "phi"):
            # a join of differently built collections: the items of each alternative (an empty vector literal or the
            # loop-carried previous value contributes none of its own)
            alts = [b for _, _, b in t.a[1]] if t.k == "match" else list(t.a[1:]) if t.k == "if" else list(t.a)
            alts = [x for x in alts if elements_of(x) != []]
            if alts:
                return phi([self.item_of(x, depth + 1) for x in alts])
        return Tm("call", ("<item>", t))

    HOF_ITEM = ("map", "filter", "flat_map", "filter_map", "for_each", "any", "all", "find", "position", "skip_while",
                "take_while", "inspect", "find_map", "map_while", "max_by_key", "min_by_key")

    def explore_hof(self, name, fn, args, depth):
        """In trace mode: apply closure arguments of well-known higher-order functions to terms denoting what
        they will receive, so that calls inside closures are traced with their parameters resolved."""
        if self.trace is None or depth >= self.max_depth or not args:
            return
        m = (fn or name).rsplit("::", 1)[-1]
        base = fn or name
        clos = [(i, a) for i, a in enumerate(args) if isinstance(a, Tm) and a.k in ("closure", "fnitem") and (a.k == "closure" or a.a[0] in self.prog.bodies)]
        if not clos:
            return
        recv = args[0]
        params = None
        if ("Iterator" in base or "::iter::" in base) and m in self.HOF_ITEM:
            params = [self.item_of(recv)]
        elif ("Iterator" in base) and m in ("fold", "try_fold") and len(args) == 3:
            params = [Tm("loopvar", ("acc",)), self.item_of(recv)]
        elif ("Iterator" in base) and m == "reduce":
            params = [self.item_of(recv), self.item_of(recv)]
        elif base.startswith("core::option::Option::<T>::") and m in ("map", "and_then", "filter", "map_or", "map_or_else", "is_some_and", "inspect"):
            params = [self.mkproj(recv, "Option::Some.0")]
        elif base.startswith("core::result::Result::<T, E>::") and m in ("map", "and_then", "is_ok_and", "inspect"):
            params = [self.mkproj(recv, "Result::Ok.0")]
        elif base.startswith("core::result::Result::<T, E>::") and m in ("map_err", "or_else", "unwrap_or_else"):
            params = [Tm("proj", (recv, "Result::Err.0"))]
        elif base.startswith("core::option::Option::<T>::") and m in ("or_else", "unwrap_or_else", "ok_or_else", "get_or_insert_with"):
            params = []
        elif base in self.prog.bodies:
            return
        if params is None:
            return
        for i, c in clos:
            if i == 0:
                continue
            self.apply(c, params, depth + 1)

    def normalise_call(self, name, fn, args, e):
        # vec![a, b, c]
        if fn and fn.endswith("box_assume_init_into_vec_unsafe") and args:
            for x in subterms(args[0]):
                if x.k == "array":
                    return Tm("call", ("<vec>",) + x.a, e)
        if fn == "alloc::vec::Vec::<T>::new" and not args:
            return Tm("call", ("<vec>",), e)
        if fn == "alloc::slice::<impl [T]>::into_vec" and args and args[0].k == "array":
            return Tm("call", ("<vec>",) + args[0].a, e)
        # format_args!: Arguments::new(template, [Argument::new_xxx(v)...])
        if fn == "core::fmt::Arguments::<'a>::new" and len(args) == 2 and args[0].k == "lit" and args[0].a[0] == "bytes":
            pieces = decode_template(args[0].a[1])
            fargs = []
            src = args[1]
            if src.k == "array":
                for x in src.a:
                    if x.k == "call" and "Argument" in x.a[0] and len(x.a) == 2:
                        fargs.append(Tm("call", ("<fmtarg:%s>" % x.a[0].rsplit("::new_", 1)[-1], x.a[1]), x.n))
                    else:
                        fargs.append(x)
            else:
                fargs.append(src)
            return Tm("call", ("<format_args>", Tm("lit", ("template", pieces))) + tuple(fargs), e)
        if fn == "core::fmt::Arguments::<'a>::from_str" and len(args) == 1:
            a0 = args[0]
            txt = a0.a[1] if a0.k == "lit" else "?"
            return Tm("call", ("<format_args>", Tm("lit", ("template", (("lit", txt),)))), e)
        if fn == "alloc::fmt::format" and len(args) == 1 and args[0].k == "call" and args[0].a[0] == "<format_args>":
            return Tm("call", ("<format>",) + args[0].a[1:], e)
        return None

    def ev_if(self, e, st, depth):
        cond = T.strip(e["cond"])
        # if let PAT = EXPR  (possibly chained with &&: only the simple form is destructured)
        if cond.get("k") == "Let":
            scrut = self.ev(cond["e"], st, depth)
            if self.conds is not None:
                self.conds.append(scrut)
            st_then = st.fork()
            self.bind(cond["pat"], scrut, st_then.env)
            self.pc.append(("arm", scrut, cond["pat"], None))
            tt = self.ev(e["then"], st_then, depth)
            self.pc.pop()
            st_else = st.fork()
            self.pc.append(("notarm", scrut, cond["pat"], None))
            te = self.ev(e["else"], st_else, depth) if "else" in e else Tm("tuple", ())
            self.pc.pop()
            st.join([st_then, st_else])
            wild = {"k": "Wild", "ty": cond["pat"].get("ty", "")}
            return Tm("match", (scrut, ((cond["pat"], None, tt), (wild, None, te))), e)
        c = self.ev(e["cond"], st, depth)
        if self.conds is not None:
            self.conds.append(c)
        st_then = st.fork()
        self.pc.append(("if", c, True))
        tt = self.ev(e["then"], st_then, depth)
        self.pc.pop()
        st_else = st.fork()
        self.pc.append(("if", c, False))
        te = self.ev(e["else"], st_else, depth) if "else" in e else Tm("tuple", ())
        self.pc.pop()
        st.join([st_then, st_else])
        return Tm("if", (c, tt, te), e)

    def ev_match(self, e, st, depth):
        src = e.get("src", "")
        if src.startswith("TryDesugar"):
            sc = T.strip(e["scrut"])
            if sc.get("k") == "Call" and sc["args"]:
                inner = self.ev(sc["args"][0], st, depth)
                # `r.map(f)?` is `f(r?)` (Result and Option alike)
                if inner.k == "call" and len(inner.a) == 3 and inner.a[2].k in ("closure", "fnitem") and \
                        inner.a[0] in ("core::result::Result::<T, E>::map", "core::option::Option::<T>::map"):
                    return self.apply(inner.a[2], [Tm("try", (inner.a[1],), e)], depth)
                return Tm("try", (inner,), e)
        if src.startswith("ForLoopDesugar"):
            if self.sites is not None:
                self.sites.append({"kind": "forloop", "node": e, "term": None, "pc": tuple(self.pc), "env": dict(st.env), "pc_incomplete": self.pc_incomplete})
            return self.ev_for(e, st, depth)
        scrut = self.ev(e["scrut"], st, depth)
        if self.conds is not None:
            self.conds.append(scrut)
        if UNFOLD and depth < 40:
            # modulo unfolding only (second analysis): a match on a conditional is the conditional of the matches
            # (case of case), a match on a known constructor is its arm, `o.map(f)` is `match o {Some(z) => Some(f(z)), None => None}`
            r = self._match_over(scrut, e, st, depth, 0)
            if r is not None:
                return r
        return self._ev_arms(e, scrut, st, depth)

    def _opt_map_as_match(self, sc, depth):
        if sc.k == "call" and len(sc.a) == 3 and sc.a[2].k in ("closure", "fnitem") and sc.a[0] == "core::option::Option::<T>::map":
            return self._opt_map_term(sc.a[1], sc.a[2], depth, sc.n, 0)
        return None

    def _opt_map_term(self, o, f, depth, n, lvl):
        """the term `o.map(f)` with the map pushed into o's own structure (conditionals, known Some/None, nested maps)"""
        mkS = lambda v: Tm("adt", ("core::option::Option", "Some", (("0", v),)))
        NONE = Tm("adt", ("core::option::Option", "None", ()))
        if lvl < 5:
            if o.k == "call" and len(o.a) == 3 and o.a[2].k in ("closure", "fnitem") and o.a[0] == "core::option::Option::<T>::map":
                return self._opt_map_term(self._opt_map_term(o.a[1], o.a[2], depth, o.n, lvl + 1), f, depth, n, lvl + 1)
            if o.k == "match":
                return Tm("match", (o.a[0], tuple((p_, g_, self._opt_map_term(b_, f, depth, n, lvl + 1)) for p_, g_, b_ in o.a[1])), o.n)
            if o.k == "if":
                return Tm("if", (o.a[0], self._opt_map_term(o.a[1], f, depth, n, lvl + 1), self._opt_map_term(o.a[2], f, depth, n, lvl + 1)), o.n)
            if o.k == "adt" and o.a[0] == "core::option::Option" and o.a[1] == "None":
                return NONE
            if o.k == "adt" and o.a[0] == "core::option::Option" and o.a[1] == "Some" and len(o.a[2]) == 1:
                return mkS(self.apply(f, [o.a[2][0][1]], depth + 1))
        some = {"k": "Variant", "adt": "core::option::Option", "variant": "Some", "nfields": 1, "fields": [], "ty": ""}
        none = {"k": "Variant", "adt": "core::option::Option", "variant": "None", "nfields": 0, "fields": [], "ty": ""}
        val = self.apply(f, [self.mkproj(o, "Option::Some.0")], depth + 1)
        return Tm("match", (o, ((some, None, mkS(val)), (none, None, NONE))), n)

    def _match_over(self, sc, e, st, depth, lvl):
        """the match `e` evaluated on scrutinee term sc, pushed into sc's own branches; None = nothing to push"""
        if lvl > 4:
            return None
        if sc.k == "try":
            return None
        m = self._opt_map_as_match(sc, depth)
        if m is not None:
            sc = m
        if sc.k == "match":
            arms = []
            for p_, g_, b_ in sc.a[1]:
                r = self._match_over(b_, e, st, depth, lvl + 1)
                arms.append((p_, g_, r if r is not None else self._ev_arms(e, b_, st, depth + 1)))
            return Tm("match", (sc.a[0], tuple(arms)), sc.n)
        if sc.k == "if":
            out = []
            for b_ in (sc.a[1], sc.a[2]):
                r = self._match_over(b_, e, st, depth, lvl + 1)
                out.append(r if r is not None else self._ev_arms(e, b_, st, depth + 1))
            return Tm("if", (sc.a[0], out[0], out[1]), sc.n)
        if sc.k == "adt" and lvl > 0:
            return self._ev_arms(e, sc, st, depth + 1)
        return None

    def _known_arm(self, e, scrut):
        """index of the arm a known constructor takes (patterns: the variant with bindings / wildcards / tuples of those), else None"""
        if scrut.k != "adt":
            return None

        def simple(p):
            while p.get("k") in ("Deref", "DerefPattern"):
                p = p["sub"]
            if p.get("k") == "Wild" or (p.get("k") == "Binding" and not p.get("sub")):
                return True
            if p.get("k") == "Leaf" and "adt" not in p:
                return all(simple(f["pat"]) for f in p.get("fields", []))
            return False
        for i, a in enumerate(e["arms"]):
            p = a["pat"]
            while p.get("k") in ("Deref", "DerefPattern"):
                p = p["sub"]
            if "guard" in a:
                return None
            if p.get("k") == "Variant":
                if not all(simple(f["pat"]) for f in p.get("fields", [])):
                    return None
                if p.get("variant") == scrut.a[1]:
                    return i
                continue
            if simple(p):
                return i
            return None
        return None

    def _ev_arms(self, e, scrut, st, depth):
        if UNFOLD:
            ki = self._known_arm(e, scrut)
            if ki is not None:
                a = e["arms"][ki]
                s2 = st.fork()
                self.bind(a["pat"], scrut, s2.env)
                b = self.ev(a["body"], s2, depth)
                st.join([s2])
                return b
        arms = []
        forks = []
        # an arm `P1 | P2 => body` is evaluated as two arms with the same body: every alternative gets its own bindings
        src_arms = []
        for a in e["arms"]:
            p, wrap = a["pat"], []
            while p.get("k") in ("Deref", "DerefPattern"):
                wrap.append(p); p = p["sub"]
            if p.get("k") == "Or" and len(p.get("pats") or []) > 1:
                for q in p["pats"]:
                    for w in reversed(wrap):
                        q = dict(w, sub=q)
                    src_arms.append(dict(a, pat=q))
            else:
                src_arms.append(a)
        for a in src_arms:
            s2 = st.fork()
            self.bind(a["pat"], scrut, s2.env)
            g = self.ev(a["guard"], s2, depth) if "guard" in a else None
            if g is not None and self.conds is not None:
                self.conds.append(g)
            self.pc.append(("arm", scrut, a["pat"], g, tuple((p0, g0) for p0, g0, _ in arms)))
            b = self.ev(a["body"], s2, depth)
            self.pc.pop()
            arms.append((a["pat"], g, b))
            forks.append(s2)
        st.join(forks)
        return Tm("match", (scrut, tuple(arms)), e)

    def ev_for(self, e, st, depth):
        """for PAT in ITER { BODY }  ==> evaluates BODY once with PAT bound to item(ITER)."""
        it = T.strip(e["scrut"])
        iter_t = self.ev(it, st, depth)
        if iter_t.k == "call" and iter_t.a[0].endswith("::into_iter") and len(iter_t.a) == 2:
            src = iter_t.a[1]
        else:
            src = iter_t
        item = self.item_of(src if src is not iter_t else iter_t)
        if item.k == "call" and item.a[0] == "<item>":
            item = Tm("call", ("<item>", item.a[1]), e)
        # find the inner `match next(&mut iter) { None => break, Some(PAT) => BODY }`
        body_arm = None
        for x in T.walk(e["arms"][0]["body"]):
            if x.get("k") == "Match" and any(a["pat"].get("k") == "Variant" and a["pat"].get("variant") == "Some" for a in x["arms"]):
                for a in x["arms"]:
                    if a["pat"].get("variant") == "Some":
                        body_arm = a
                break
        if body_arm is None:
            return Tm("opaque", ("for-shape",), e)
        assigned = _assigned_vars(body_arm["body"])
        s2 = st.fork()
        s2.in_loop = True
        for v in assigned:
            if v in s2.env:
                s2.env[v] = phi([s2.env[v], Tm("loopvar", (v,))])
        self.bind(body_arm["pat"]["fields"][0]["pat"], item, s2.env)
        self.ev(body_arm["body"], s2, depth)
        st.loops.append({"kind": "for", "src": src, "node": e, "state": s2})
        st.join_loop(s2, assigned)
        return Tm("tuple", (), e)

    def ev_loop(self, e, st, depth):
        if self.sites is not None:
            self.sites.append({"kind": "loop", "node": e, "term": None, "pc": tuple(self.pc), "env": dict(st.env), "pc_incomplete": self.pc_incomplete})
        assigned = _assigned_vars(e["body"])
        s2 = st.fork()
        s2.in_loop = True
        for v in assigned:
            if v in s2.env:
                s2.env[v] = phi([s2.env[v], Tm("loopvar", (v,))])
        s2.breaks = []
        self.ev(e["body"], s2, depth)
        st.loops.append({"kind": "loop", "node": e, "state": s2})
        st.join_loop(s2, assigned)
        if s2.breaks:
            return phi(s2.breaks)
        return Tm("tuple", (), e)

    def ev_block(self, b, st, depth):
        pushed = 0
        attached = False
        try:
            for s in b["stmts"]:
                if s["k"] == "Expr":
                    t = self.ev(s["e"], st, depth)
                    # `if c { return .. }` (no else): the rest of the block runs under not-c; same for `if let P = x { return .. }`
                    e0 = T.strip(s["e"])
                    if e0.get("k") == "If" and "else" not in e0 and _diverges(e0.get("then")) and isinstance(t, Tm):
                        if t.k == "if":
                            self.pc.append(("if", t.a[0], False)); pushed += 1
                        elif t.k == "match" and len(t.a[1]) == 2:
                            self.pc.append(("notarm", t.a[0], t.a[1][0][0], None)); pushed += 1
                else:
                    if "init" in s:
                        v = self.ev(s["init"], st, depth)
                        if "else" in s:
                            # let-else: diverging else block (reached when the pattern does not match)
                            s3 = st.fork()
                            self.pc.append(("notarm", v, s["pat"], None))
                            self.ev_block(s["else"], s3, depth)
                            self.pc.pop()
                            # ... and what follows runs under "the pattern matched"
                            self.pc.append(("arm", v, s["pat"], None)); pushed += 1
                        self.bind(s["pat"], v, st.env)
                    else:
                        self.bind(s["pat"], Tm("opaque", ("uninit",)), st.env)
            if "tail" in b:
                v = self.ev(b["tail"], st, depth)
                if pushed and id(b) not in self._roots:
                    # the block's value is only produced when its early exits were not taken: keep that with the value
                    attached = True
                    return Tm("assume", (v, tuple(self.pc[-pushed:])))
                return v
            return Tm("tuple", ())
        finally:
            for _ in range(pushed):
                self.pc.pop()
            if pushed and id(b) not in self._roots and not attached:
                self.pc_incomplete = True


def _diverges(e):
    """syntactically: does evaluating e always leave by return / break / continue?"""
    if not isinstance(e, dict):
        return False
    e = T.strip(e)
    k = e.get("k")
    if k in ("Return", "Break", "Continue"):
        return True
    if k == "Block":
        b = e["b"]
        if "tail" in b:
            return _diverges(b["tail"])
        for s in reversed(b["stmts"]):
            if s["k"] == "Expr":
                return _diverges(s["e"])
            return False
        return False
    if k == "If":
        return "else" in e and _diverges(e["then"]) and _diverges(e["else"])
    if k == "Match":
        return bool(e.get("arms")) and all(_diverges(a["body"]) for a in e["arms"])
    return e.get("ty") == "!"


def _assigned_vars(e):
    """Variable ids assigned or mutably borrowed anywhere inside e (syntactic pre-scan)."""
    out = set()
    for x in T.walk(e):
        k = x.get("k")
        if k in ("Assign", "AssignOp"):
            l = T.peel(x["l"])
            while l.get("k") in ("Field", "Index"):
                l = T.peel(l["e"])
            if l.get("k") in ("Var", "Upvar"):
                out.add(l["var"]["id"])
        elif k == "Borrow" and x.get("mut"):
            l = T.peel(x["e"])
            while l.get("k") in ("Field", "Index"):
                l = T.peel(l["e"])
            if l.get("k") in ("Var", "Upvar"):
                out.add(l["var"]["id"])
    return out


def elements_of(t, depth=0):
    """Element terms of a vector built by vec![..] and pushes (through phi/if/match joins); None if unknown."""
    if not isinstance(t, Tm) or depth > 20:
        return None
    if t.k == "call" and t.a[0] == "<vec>":
        return list(t.a[1:])
    if t.k == "mutated":
        eff = t.a[1]
        prev = elements_of(t.a[0], depth + 1)
        if prev is None:
            return None
        if isinstance(eff, Tm) and eff.k == "call" and eff.a[0].endswith("Vec::<T, A>::push") and len(eff.a) == 3:
            return prev + [eff.a[2]]
        if isinstance(eff, Tm) and eff.k == "call" and eff.a[0].endswith("Vec::<T, A>::insert") and len(eff.a) == 4:
            return prev + [eff.a[3]]
        return None
    if t.k == "loopvar":
        return []
    if t.k in ("phi", "if", "match"):
        parts = t.a if t.k == "phi" else ([t.a[1], t.a[2]] if t.k == "if" else [b for _, _, b in t.a[1]])
        out = []
        for x in parts:
            e = elements_of(x, depth + 1)
            if e is None:
                return None
            for y in e:
                if y not in out:
                    out.append(y)
        return out
    return None


def _has_cparam(t):
    return any(x.k == "cparam" for x in subterms(t))


def _prefer_resolved(terms_):
    """A closure body is explored once with placeholder parameters and again wherever the closure is really
    applied: for one THIR node keep the applied (placeholder-free) versions when there are any."""
    by_node = {}
    for t in terms_:
        by_node.setdefault(id(t.n) if t.n is not None else id(t), []).append(t)
    out = []
    seen = set()
    for t in terms_:
        key = id(t.n) if t.n is not None else id(t)
        group = by_node[key]
        ncp = [len({y.a for y in subterms(x) if y.k == "cparam"}) for x in group]
        keep = [x for x, n in zip(group, ncp) if n == min(ncp)]
        for x in keep:
            if id(x) not in seen and x in keep:
                if any(x is y for y in keep):
                    pass
        if key in seen:
            continue
        seen.add(key)
        uniq = []
        for x in keep:
            if x not in uniq:
                uniq.append(x)
        out.extend(uniq)
    return out


class _State:
    def __init__(self, env):
        self.env = env
        self.returns = []
        self.breaks = []
        self.assigned = {}
        self.loops = []
        self.in_loop = False

    def fork(self):
        s = _State(dict(self.env))
        s.in_loop = self.in_loop
        s.returns = self.returns      # shared: returns are function-wide
        s.breaks = self.breaks
        s.loops = self.loops
        s.assigned = self.assigned
        return s

    def join(self, forks):
        keys = set()
        for f in forks:
            keys.update(f.env.keys())
        for k in keys:
            if k not in self.env:
                continue  # branch-local binding
            vals = []
            for f in forks:
                v = f.env.get(k)
                if v is not None and v not in vals:
                    vals.append(v)
            if len(vals) == 1:
                self.env[k] = vals[0]
            elif vals:
                self.env[k] = phi(vals)

    def join_loop(self, s2, assigned):
        for v in assigned:
            if v in self.env and v in s2.env:
                self.env[v] = phi([self.env[v], s2.env[v]])


def phi(alts):
    flat = []
    for a in alts:
        if isinstance(a, Tm) and a.k == "phi":
            for x in a.a:
                if x not in flat:
                    flat.append(x)
        elif isinstance(a, Tm) and a.k == "opaque" and a.a and a.a[0] == "never":
            continue
        elif a not in flat:
            flat.append(a)
    if not flat:
        return Tm("opaque", ("never",))
    if len(flat) == 1:
        return flat[0]
    return Tm("phi", flat)


# ------------------------------------------------------------------ term queries

def subterms(t, into_closures=False):
    """Pre-order iteration over all sub-terms."""
    stack = [t]
    while stack:
        x = stack.pop()
        if not isinstance(x, Tm):
            continue
        yield x
        if x.k == "match":
            stack.append(x.a[0])
            for p, g, b in x.a[1]:
                if g is not None:
                    stack.append(g)
                stack.append(b)
        elif x.k == "adt":
            for f, v in x.a[2]:
                stack.append(v)
        else:
            for y in x.a:
                if isinstance(y, Tm):
                    stack.append(y)


def calls_in(t, name_pred):
    for x in subterms(t):
        if x.k == "call" and name_pred(x.a[0]):
            yield x


def mentions(t, pred):
    return any(pred(x) for x in subterms(t))


def alts(t):
    """Leaves of a phi / if / match / try tree: all alternative value sources of t."""
    out = []
    stack = [t]
    while stack:
        x = stack.pop()
        if x.k == "phi":
            stack.extend(x.a)
        elif x.k == "if":
            stack.extend([x.a[1], x.a[2]])
        elif x.k == "match":
            for p, g, b in x.a[1]:
                stack.append(b)
        elif x.k == "mutated":
            stack.append(x.a[0])
        else:
            out.append(x)
    return out


# ------------------------------------------------------------------ substitution / partial evaluation

def rebuild(t, f):
    """Bottom-up map over a term: f is applied to every rebuilt node."""
    if not isinstance(t, Tm):
        return t
    k = t.k
    if k == "match":
        new = Tm("match", (rebuild(t.a[0], f), tuple((p, rebuild(g, f) if g is not None else None, rebuild(b, f)) for p, g, b in t.a[1])), t.n)
    elif k == "adt":
        new = Tm("adt", (t.a[0], t.a[1], tuple((n, rebuild(v, f)) for n, v in t.a[2])), t.n)
    elif k in ("lit", "const", "param", "var", "upvar", "loopvar", "opaque", "fnitem", "closure", "cparam"):
        new = t
    else:
        new = Tm(k, [rebuild(x, f) if isinstance(x, Tm) else x for x in t.a], t.n, t.env)
    return f(new)


def subst(t, mapping):
    """Replace sub-terms equal to a key of mapping by its value, then simplify constants."""
    def f(x):
        for k, v in mapping.items():
            if x == k:
                return v
        return simplify1(x)
    return rebuild(t, f)


def _bool(t):
    if isinstance(t, Tm) and t.k == "lit" and t.a[0] == "bool":
        return t.a[1] == "true"
    return None


def simplify1(x):
    if x.k == "un" and x.a[0] == "Not":
        b = _bool(x.a[1])
        if b is not None:
            return Tm("lit", ("bool", "false" if b else "true"), x.n)
    if x.k == "if":
        b = _bool(x.a[0])
        if b is not None:
            return x.a[1] if b else x.a[2]
    if x.k == "logic":
        l, r = _bool(x.a[1]), _bool(x.a[2])
        if x.a[0] == "And":
            if l is False or r is False:
                return Tm("lit", ("bool", "false"), x.n)
            if l is True:
                return x.a[2]
            if r is True:
                return x.a[1]
        if x.a[0] == "Or":
            if l is True or r is True:
                return Tm("lit", ("bool", "true"), x.n)
            if l is False:
                return x.a[2]
            if r is False:
                return x.a[1]
    return x


def _shape_of_pat(p):
    """A shape (vflib.tables) that exactly the values matched by pattern p have - only for constant strings and for variants
    whose fields are wildcards/bindings; None otherwise."""
    from . import tables
    while p.get("k") in ("Deref", "DerefPattern"):
        p = p["sub"]
    if p.get("k") == "Constant" and p.get("str"):
        return ("s", p["value"])
    if p.get("k") == "Variant" and all((f["pat"].get("k") in ("Wild",) or (f["pat"].get("k") == "Binding" and not f["pat"].get("sub"))) for f in p.get("fields", [])):
        return ("v", p["variant"], [tables.ANY] * p.get("nfields", len(p.get("fields", []))))
    if p.get("k") == "Slice" and not p.get("slice") and all(
            q.get("k") == "Wild" or (q.get("k") == "Binding" and not q.get("sub")) for q in (p.get("prefix") or []) + (p.get("suffix") or [])):
        return ("sl", len(p.get("prefix") or []) + len(p.get("suffix") or []))
    if p.get("k") == "Leaf" and "adt" not in p and p.get("fields"):
        subs = [None] * p.get("arity", len(p["fields"]))
        for f in p["fields"]:
            if f["idx"] < len(subs):
                subs[f["idx"]] = _shape_of_pat(f["pat"])
        if all(x is not None for x in subs):
            return ("t", subs)
    return None


def prune_nested(t, known=None, depth=0, known_not=None):
    """Tidy the conditionals that rebuilt early returns leave behind (all steps preserve the term's meaning):
    * inside an arm `P => body` of a match on S, a nested match on the same S takes the arm compatible with P;
    * inside the catch-all arm that follows arms P1..Pn, a nested match on S cannot take P1..Pn: those arms are dropped;
    * `Ok(match S {..=> x})` becomes `match S {..=> Ok(x)}` (same for Some/Err and for if);
    * a catch-all arm whose body is a match on the same S is spliced into the outer match."""
    from . import tables
    known = known or {}
    known_not = known_not or {}
    if not isinstance(t, Tm) or depth > 40:
        return t
    if t.k == "match":
        scrut = t.a[0]
        src = list(t.a[1])
        if scrut in known and all(g is None for _, g, _ in src):
            sel = tables.select(src, known[scrut])
            if len(sel) == 1 and sel[0][1] == "definite":
                return prune_nested(src[sel[0][0]][2], known, depth + 1, known_not)
        if scrut in known_not:
            kept = []
            for p, g, b in src:
                sh = _shape_of_pat(p) if g is None else None
                if sh is not None and sh in known_not[scrut]:
                    continue
                kept.append((p, g, b))
            if kept:
                src = kept
        arms = []
        earlier = []
        for p, g, b in src:
            sh = _shape_of_pat(p) if g is None else None
            if sh is not None and sh in earlier:
                continue        # an earlier arm with exactly this pattern always wins
            k2, kn2 = dict(known), dict(known_not)
            pp = p
            while pp.get("k") in ("Deref", "DerefPattern"):
                pp = pp["sub"]
            if sh is not None:
                k2[scrut] = sh
            elif g is None and pp.get("k") in ("Wild", "Binding") and not pp.get("sub") and earlier:
                kn2[scrut] = list(kn2.get(scrut, [])) + earlier
            arms.append((p, g, prune_nested(b, k2, depth + 1, kn2)))
            if sh is not None:
                earlier.append(sh)
        # splice a trailing catch-all whose body matches on the same scrutinee
        if arms:
            p, g, b = arms[-1]
            pp = p
            while pp.get("k") in ("Deref", "DerefPattern"):
                pp = pp["sub"]
            if g is None and pp.get("k") == "Wild" and isinstance(b, Tm) and b.k == "match" and b.a[0] == scrut:
                arms = arms[:-1] + list(b.a[1])
        if len(arms) == 1:
            p, g, b = arms[0]
            pp = p
            while pp.get("k") in ("Deref", "DerefPattern"):
                pp = pp["sub"]
            if g is None and pp.get("k") == "Wild":
                return b            # only the catch-all is left
        return Tm("match", (scrut, tuple(arms)), t.n)
    if t.k == "if":
        ck = ("cond", t.a[0])
        if ck in known:
            return prune_nested(t.a[1] if known[ck] else t.a[2], known, depth + 1, known_not)
        kt, kf = dict(known), dict(known)
        kt[ck] = True
        kf[ck] = False
        return Tm("if", (t.a[0], prune_nested(t.a[1], kt, depth + 1, known_not), prune_nested(t.a[2], kf, depth + 1, known_not)), t.n)
    if t.k == "adt":
        fs = tuple((n, prune_nested(v, known, depth + 1, known_not)) for n, v in t.a[2])
        if len(fs) == 1 and t.a[1] in ("Ok", "Some", "Err") and isinstance(fs[0][1], Tm) and fs[0][1].k in ("match", "if"):
            inner = fs[0][1]
            never = lambda x: isinstance(x, Tm) and x.k == "opaque" and x.a and x.a[0] == "never"
            wrap = lambda x: x if never(x) else Tm("adt", (t.a[0], t.a[1], ((fs[0][0], x),)), t.n)
            if inner.k == "match":
                return Tm("match", (inner.a[0], tuple((p, g, wrap(b)) for p, g, b in inner.a[1])), inner.n)
            return Tm("if", (inner.a[0], wrap(inner.a[1]), wrap(inner.a[2])), inner.n)
        return Tm("adt", (t.a[0], t.a[1], fs), t.n)
    if t.k == "phi":
        return phi([prune_nested(x, known, depth + 1, known_not) for x in t.a])
    if t.k == "assume":
        # on the returned value the conditions are already spelled out by the conditionals rebuilt around the early exits
        return prune_nested(t.a[0], known, depth + 1, known_not)
    return t


def distribute_call(t, rounds=3):
    """`f(.., match S {.. => x}, ..)` is `match S {.. => f(.., x, ..)}` (likewise for if): a result constructor applied once
    around a conditional is moved inside its branches."""
    for _ in range(rounds):
        if isinstance(t, Tm) and t.k == "call" and len(t.a) >= 2:
            idx = [i for i, a_ in enumerate(t.a[1:], 1) if isinstance(a_, Tm) and a_.k in ("match", "if")]
            if len(idx) == 1:
                i = idx[0]
                m_ = t.a[i]
                mk = lambda b_: Tm("call", t.a[:i] + (b_,) + t.a[i + 1:], t.n)
                if m_.k == "match":
                    t = Tm("match", (m_.a[0], tuple((p_, g_, mk(b_)) for p_, g_, b_ in m_.a[1])), m_.n)
                else:
                    t = Tm("if", (m_.a[0], mk(m_.a[1]), mk(m_.a[2])), m_.n)
                continue
        break
    return t


def deep_distribute(t, depth=0):
    """distribute_call applied bottom-up through nested calls and adt constructions: conditionals buried in arguments come
    to the top (`f(g(match S {..}))` -> `match S {.. => f(g(..))}`); the meaning is unchanged (arguments here are pure).
    The result is tidied by prune_nested (a conditional lifted under an arm of a match on the same scrutinee is decided)."""
    if depth == 0:
        return prune_nested(_deep_distribute(t, 1))
    return _deep_distribute(t, depth)


def _deep_distribute(t, depth=1):
    if not isinstance(t, Tm) or depth > 30:
        return t
    if t.k == "call":
        args = tuple(_deep_distribute(a, depth + 1) if isinstance(a, Tm) else a for a in t.a[1:])
        t2 = Tm("call", (t.a[0],) + args, t.n)
        d = distribute_call(t2, rounds=1)
        if d is not t2 and d.k in ("match", "if"):
            if d.k == "match":
                return Tm("match", (d.a[0], tuple((p, g, _deep_distribute(b, depth + 1)) for p, g, b in d.a[1])), d.n)
            return Tm("if", (d.a[0], _deep_distribute(d.a[1], depth + 1), _deep_distribute(d.a[2], depth + 1)), d.n)
        return t2
    if t.k == "adt" and len(t.a[2]) == 1 and isinstance(t.a[2][0][1], Tm):
        inner = _deep_distribute(t.a[2][0][1], depth + 1)
        if inner.k == "match":
            return Tm("match", (inner.a[0], tuple((p, g, Tm("adt", (t.a[0], t.a[1], ((t.a[2][0][0], b),)), t.n)) for p, g, b in inner.a[1])), inner.n)
        if inner.k == "if":
            mk = lambda b: Tm("adt", (t.a[0], t.a[1], ((t.a[2][0][0], b),)), t.n)
            return Tm("if", (inner.a[0], mk(inner.a[1]), mk(inner.a[2])), inner.n)
        return Tm("adt", (t.a[0], t.a[1], ((t.a[2][0][0], inner),)), t.n)
    if t.k == "match":
        return Tm("match", (t.a[0], tuple((p, g, _deep_distribute(b, depth + 1)) for p, g, b in t.a[1])), t.n)
    if t.k == "if":
        return Tm("if", (t.a[0], _deep_distribute(t.a[1], depth + 1), _deep_distribute(t.a[2], depth + 1)), t.n)
    return t
