"""A7/A8 -- both grammars as explicit regular expressions over an extended alphabet, compared at the knots.

impl side : the pest grammar with pest's implicit-whitespace semantics made explicit (from pest_generator 2.9.1's code
            generation), filtered by the parser's post-checks whose defining facts are present in the code (parsermodel).
rfc side  : spec/rfc9535.abnf (+ the I-JSON integer range where RFC 9535 2.1 requires it).
knots     : query (Q), logical expression (L), function call (F): embedded occurrences are opaque symbols, so every body
            is a regular language; the four comparisons (main, Q, L, F) are carried out by `pestfacts automata`.
"""
import json
import os
import re
import subprocess
import tempfile

from . import facts

Q, L, F = 0x110000, 0x110001, 0x110002
KNOT_NAMES = {Q: "Q", L: "L", F: "F"}
KNOT_SHOW = {Q: "$", L: "@.x", F: "f()"}
# a knot rule referenced from an atomic context is parsed WITHOUT implicit whitespace (pest: `skip` is a no-op unless the
# state is NonAtomic, so @ and $ both cascade into the normal rules they call): its embedded language is a different one
# and gets its own symbol while the model is built
ATOMIC_VARIANT = {Q: 0x110003, L: 0x110004, F: 0x110005}

BLANK = [[0x20, 0x20], [0x09, 0x09], [0x0A, 0x0A], [0x0D, 0x0D]]
# char::is_whitespace == Unicode White_Space
UNICODE_WS = [[0x09, 0x0D], [0x20, 0x20], [0x85, 0x85], [0xA0, 0xA0], [0x1680, 0x1680], [0x2000, 0x200A], [0x2028, 0x2029],
              [0x202F, 0x202F], [0x205F, 0x205F], [0x3000, 0x3000]]
ASCII_WS = [[0x09, 0x0A], [0x0C, 0x0D], [0x20, 0x20]]
SCALARS = [[0, 0xD7FF], [0xE000, 0x10FFFF]]
SIGMA1 = SCALARS + [[Q, F]]


def eps():
    return {"k": "eps"}


def cset(r):
    return {"k": "set", "r": [list(x) for x in r]}


def ch(c):
    o = ord(c) if isinstance(c, str) else c
    return cset([[o, o]])


def lit(s, insens=False):
    xs = []
    for c in s:
        if insens and c.isalpha() and c.lower() != c.upper():
            xs.append(cset([[ord(c.lower()), ord(c.lower())], [ord(c.upper()), ord(c.upper())]]))
        else:
            xs.append(ch(c))
    return seq(*xs) if len(xs) != 1 else xs[0]


def seq(*xs):
    xs = [x for x in xs if x.get("k") != "eps"]
    if not xs:
        return eps()
    if len(xs) == 1:
        return xs[0]
    return {"k": "seq", "xs": list(xs)}


def alt(*xs):
    if len(xs) == 1:
        return xs[0]
    return {"k": "alt", "xs": list(xs)}


def star(e):
    return {"k": "star", "e": e}


def plus(e):
    return {"k": "plus", "e": e}


def opt(e):
    return {"k": "opt", "e": e}


def tag(t, e):
    return {"k": "tag", "t": t, "e": e}


def and_(a, b):
    return {"k": "and", "a": a, "b": b}


def not_(e):
    return {"k": "not", "e": e}


def anystar():
    return star(cset(SIGMA1))


def any1():
    return cset(SIGMA1)


def ref(n):
    return {"k": "ref", "n": n}


W = cset(BLANK)
WS = star(W)

DEFS = {}


def intern(label, e):
    """Share identical sub-expressions: the engine compiles every definition once to a minimal DFA."""
    import hashlib
    h = hashlib.sha1(json.dumps(e, sort_keys=True).encode()).hexdigest()[:12]
    name = "%s#%s" % (label, h)
    DEFS[name] = e
    return ref(name)


# ------------------------------------------------------------------------------------------------ integer ranges
def digits_le(bound):
    """Regex for positive decimal integers without leading zeros, 1 <= v <= bound."""
    s = str(bound)
    n = len(s)
    D = cset([[0x30, 0x39]])
    D1 = cset([[0x31, 0x39]])
    alts = []
    for ln in range(1, n):
        alts.append(seq(D1, *([D] * (ln - 1))))
    # same length: prefix equal then smaller digit then free

    def rec(i, first):
        # numbers of remaining length n-i with digits <= s[i:]
        d = int(s[i])
        lo = 1 if first else 0
        out = []
        if d - 1 >= lo:
            out.append(seq(cset([[0x30 + lo, 0x30 + d - 1]]), *([D] * (n - i - 1))))
        if d >= lo:
            if i == n - 1:
                out.append(ch(chr(0x30 + d)))
            else:
                out.append(seq(ch(chr(0x30 + d)), rec(i + 1, False)))
        return alt(*out) if out else cset([])
    alts.append(rec(0, True))
    return alt(*alts)


def int_range(lo, hi):
    """Regex of RFC `int` syntax restricted to lo <= v <= hi (lo <= 0 <= hi)."""
    parts = [ch("0")]
    if hi >= 1:
        parts.append(digits_le(hi))
    if lo <= -1:
        parts.append(seq(ch("-"), digits_le(-lo)))
    return alt(*parts)


# ------------------------------------------------------------------------------------------------ ABNF
def parse_abnf(text):
    # strip comments (no ';' occurs inside quoted strings of this grammar)
    lines = []
    for ln in text.splitlines():
        out = ""
        inq = False
        for c in ln:
            if c == '"':
                inq = not inq
            if c == ";" and not inq:
                break
            out += c
        lines.append(out.rstrip())
    rules = {}
    cur = None
    buf = ""
    for ln in lines:
        if not ln.strip():
            continue
        m = re.match(r"^([A-Za-z][A-Za-z0-9-]*)\s*=\s*(.*)$", ln)
        if m and not ln[0].isspace():
            if cur:
                rules[cur] = buf
            cur, buf = m.group(1), m.group(2)
        else:
            buf += " " + ln.strip()
    if cur:
        rules[cur] = buf
    return {k: _abnf_expr(v) for k, v in rules.items()}


def _abnf_tokens(s):
    toks = []
    i = 0
    while i < len(s):
        c = s[i]
        if c.isspace():
            i += 1
        elif c == '"':
            j = s.index('"', i + 1)
            toks.append(("str", s[i + 1:j])); i = j + 1
        elif c == "%":
            m = re.match(r"%x([0-9A-Fa-f]+)(?:-([0-9A-Fa-f]+)|((?:\.[0-9A-Fa-f]+)+))?", s[i:])
            if m.group(2):
                toks.append(("range", int(m.group(1), 16), int(m.group(2), 16)))
            elif m.group(3):
                toks.append(("seqv", [int(m.group(1), 16)] + [int(x, 16) for x in m.group(3)[1:].split(".")]))
            else:
                toks.append(("range", int(m.group(1), 16), int(m.group(1), 16)))
            i += len(m.group(0))
        elif c in "/()[]*":
            toks.append((c,)); i += 1
        elif c.isdigit():
            m = re.match(r"\d+", s[i:])
            toks.append(("num", int(m.group(0)))); i += len(m.group(0))
        else:
            m = re.match(r"[A-Za-z][A-Za-z0-9-]*", s[i:])
            toks.append(("name", m.group(0))); i += len(m.group(0))
    return toks


def _abnf_expr(s):
    toks = _abnf_tokens(s)
    pos = [0]

    def peek():
        return toks[pos[0]] if pos[0] < len(toks) else None

    def alternation():
        xs = [concatenation()]
        while peek() and peek()[0] == "/":
            pos[0] += 1
            xs.append(concatenation())
        return alt(*xs) if len(xs) > 1 else xs[0]

    def concatenation():
        xs = []
        while peek() and peek()[0] not in ("/", ")", "]"):
            xs.append(repetition())
        return seq(*xs)

    def repetition():
        lo = hi = None
        t = peek()
        if t[0] == "num":
            pos[0] += 1
            lo = t[1]
            if peek() and peek()[0] == "*":
                pos[0] += 1
                hi = -1
                if peek() and peek()[0] == "num":
                    hi = peek()[1]; pos[0] += 1
            else:
                hi = lo
        elif t[0] == "*":
            pos[0] += 1
            lo, hi = 0, -1
            if peek() and peek()[0] == "num":
                hi = peek()[1]; pos[0] += 1
        e = element()
        if lo is None:
            return e
        xs = [e] * lo
        if hi == -1:
            xs.append(star(e))
        else:
            xs.extend([opt(e)] * (hi - lo))
        return seq(*xs)

    def element():
        t = peek()
        pos[0] += 1
        if t[0] == "name":
            return ref(t[1])
        if t[0] == "str":
            return lit(t[1], insens=True)
        if t[0] == "range":
            return cset([[t[1], t[2]]])
        if t[0] == "seqv":
            return seq(*[cset([[v, v]]) for v in t[1]])
        if t[0] == "(":
            e = alternation()
            assert peek()[0] == ")"; pos[0] += 1
            return e
        if t[0] == "[":
            e = alternation()
            assert peek()[0] == "]"; pos[0] += 1
            return opt(e)
        raise ValueError("ABNF element %r" % (t,))

    e = alternation()
    assert pos[0] == len(toks), "trailing ABNF tokens in %r" % s
    return e


RFC_KNOTS = {"jsonpath-query": Q, "logical-expr": L, "function-expr": F}
RFC_RANGED = ("index-selector", "start", "end", "step")
IJSON = (-(2 ** 53 - 1), 2 ** 53 - 1)


def rfc_expand(rules, name, top=True, stack=()):
    """Fully inlined expression of an ABNF rule; embedded knots become symbols; ranged ints get the I-JSON range."""
    if name in RFC_KNOTS and not top:
        return tag("rfc:" + "/".join((stack + (name,))[-3:]), cset([[RFC_KNOTS[name], RFC_KNOTS[name]]]))
    if name in stack:
        raise ValueError("ABNF recursion through non-knot rule %s" % name)
    label = "rfc:" + "/".join((stack + (name,))[-3:])
    if name in RFC_RANGED:
        return intern("rfc:" + name, tag(label, int_range(*IJSON)))

    def rec(e):
        k = e["k"]
        if k == "ref":
            return rfc_expand(rules, e["n"], False, stack + (name,))
        if k in ("seq", "alt"):
            return {"k": k, "xs": [rec(x) for x in e["xs"]]}
        if k in ("star", "plus", "opt"):
            return {"k": k, "e": rec(e["e"])}
        return e
    out = tag(label, rec(rules[name]))
    return out if top else intern("rfc:" + name, out)


# ------------------------------------------------------------------------------------------------ pest -> explicit
PEST_KNOTS = {"jp_query": Q, "logical_expr": L, "function_expr": F}
BUILTINS = {
    "SOI": eps(), "EOI": eps(),
    "ANY": cset(SCALARS),
    "ASCII_DIGIT": cset([[0x30, 0x39]]), "ASCII_NONZERO_DIGIT": cset([[0x31, 0x39]]),
    "ASCII_ALPHA": cset([[0x41, 0x5A], [0x61, 0x7A]]), "ASCII_ALPHA_LOWER": cset([[0x61, 0x7A]]), "ASCII_ALPHA_UPPER": cset([[0x41, 0x5A]]),
    "ASCII_ALPHANUMERIC": cset([[0x30, 0x39], [0x41, 0x5A], [0x61, 0x7A]]),
    "ASCII_HEX_DIGIT": cset([[0x30, 0x39], [0x41, 0x46], [0x61, 0x66]]),
    "ASCII": cset([[0, 0x7F]]),
    "ASCII_BIN_DIGIT": cset([[0x30, 0x31]]), "ASCII_OCT_DIGIT": cset([[0x30, 0x37]]),
    "NEWLINE": alt(ch("\n"), seq(ch("\r"), ch("\n")), ch("\r")),
}


class Unsupported(Exception):
    pass


class PestModel:
    """Explicit-whitespace expressions of the pest grammar, with context dependent span filters."""

    def __init__(self, grammar, filters):
        self.g = grammar
        self.filters = filters      # list of (context suffix tuple, function expr -> expr, description)
        self.applied = []           # descriptions of filters that found an occurrence
        self.predicates_dropped = []  # rule paths where a lookahead predicate could not be modelled exactly
        self.atomic_knot_refs = set()  # knot rules referenced from an atomic context
        self.skip = self.skip_expr()

    def skip_expr(self):
        """WHITESPACE* (COMMENT is not defined by this grammar); WHITESPACE is matched atomically."""
        if "COMMENT" in self.g.rules:
            raise Unsupported("grammar defines COMMENT: implicit skip model not implemented")
        if "WHITESPACE" not in self.g.rules:
            return eps()
        return star(self.conv(self.g.rules["WHITESPACE"]["expr"], True, ("WHITESPACE",), top=False))

    def max_len(self, e, depth=0):
        """maximum sentence length of a pest expression (characters), None if unbounded/unknown"""
        k = e["k"]
        if depth > 30:
            return None
        if k in ("str", "insens"):
            return len(e["v"])
        if k == "range":
            return 1
        if k == "ident":
            if e["v"] in BUILTINS:
                return 0 if e["v"] in ("SOI", "EOI") else (2 if e["v"] == "NEWLINE" else 1)
            if e["v"] in self.g.rules:
                return self.max_len(self.g.rules[e["v"]]["expr"], depth + 1)
            return None
        if k == "seq":
            a, b = self.max_len(e["a"], depth + 1), self.max_len(e["b"], depth + 1)
            return None if a is None or b is None else a + b
        if k == "choice":
            a, b = self.max_len(e["a"], depth + 1), self.max_len(e["b"], depth + 1)
            return None if a is None or b is None else max(a, b)
        if k == "opt":
            return self.max_len(e["e"], depth + 1)
        if k == "repn" and e["max"] >= 0:
            a = self.max_len(e["e"], depth + 1)
            return None if a is None else a * e["max"]
        if k in ("pospred", "negpred"):
            return 0
        return None

    def min_len_expr(self, e):
        return self.g._min(e, set())

    def rule(self, name, top, ctx=(), atomic=False):
        if name in PEST_KNOTS and not top:
            sym = PEST_KNOTS[name]
            if atomic and self.g.rules.get(name, {}).get("ty") not in ("non_atomic",):
                self.atomic_knot_refs.add(name)
                sym = ATOMIC_VARIANT[sym]
            return tag("/".join((ctx + (name,))[-3:]), cset([[sym, sym]]))
        if name in BUILTINS:
            return BUILTINS[name]
        if name not in self.g.rules:
            raise Unsupported("unknown rule/builtin `%s`" % name)
        if name in ctx:
            raise Unsupported("recursion through non-knot rule `%s`" % name)
        r = self.g.rules[name]
        ty = r["ty"]
        if ty in ("atomic", "compound_atomic"):
            at = True
        elif ty == "non_atomic":
            at = False
        else:
            at = atomic
        nctx = ctx + (name,)
        e = self.conv(r["expr"], at, nctx, top=False, compound=(ty == "compound_atomic"))
        for suffix, fn, desc in self.filters:
            if len(nctx) >= len(suffix) and tuple(nctx[-len(suffix):]) == tuple(suffix):
                e = fn(e)
                if desc not in self.applied:
                    self.applied.append(desc)
        label = "/".join(nctx[-3:])
        return tag(label, e) if top else intern(name, tag(label, e))

    def conv(self, e, atomic, ctx, top, compound=False):
        k = e["k"]
        sk = eps() if atomic else self.skip
        if k == "str":
            return lit(e["v"])
        if k == "insens":
            return lit(e["v"], insens=True)
        if k == "range":
            return cset([[e["lo"], e["hi"]]])
        if k == "ident":
            # both @ and $ cascade: the generated `skip` tests the *dynamic* atomicity, which only a `!` rule resets
            return self.rule(e["v"], False, ctx, atomic)
        if k == "seq":
            a = e["a"]
            if a["k"] in ("negpred", "pospred") and atomic:
                # !a ~ b  (atomic: no skip in between) == b ∩ ¬(a Σ*)  when every sentence of b is at least as long as the longest of a
                mx = self.max_len(a["e"])
                mn = self.min_len_expr(e["b"])
                if mx is not None and mn >= mx:
                    guard = seq(self.conv(a["e"], atomic, ctx, top, compound), anystar())
                    body = self.conv(e["b"], atomic, ctx, top, compound)
                    return and_(body, not_(guard) if a["k"] == "negpred" else guard)
            return seq(self.conv(e["a"], atomic, ctx, top, compound), sk, self.conv(e["b"], atomic, ctx, top, compound))
        if k == "choice":
            return alt(self.conv(e["a"], atomic, ctx, top, compound), self.conv(e["b"], atomic, ctx, top, compound))
        if k == "opt":
            return opt(self.conv(e["e"], atomic, ctx, top, compound))
        if k == "rep":
            x = self.conv(e["e"], atomic, ctx, top, compound)
            return opt(seq(x, star(seq(sk, x))))
        if k == "rep1":
            x = self.conv(e["e"], atomic, ctx, top, compound)
            return seq(x, star(seq(sk, x)))
        if k == "repn":
            x = self.conv(e["e"], atomic, ctx, top, compound)
            mn, mx = e["min"], e["max"]
            parts = []
            for i in range(mn):
                if i:
                    parts.append(sk)
                parts.append(x)
            if mx == -1:
                if mn:
                    parts.append(star(seq(sk, x)))
                else:
                    parts = [opt(seq(x, star(seq(sk, x))))]
            elif mx > mn:
                if mn == 0:
                    rest = eps()
                    for i in range(mx - 1):
                        rest = opt(seq(sk, x, rest))
                    parts = [opt(seq(x, rest))]
                else:
                    rest = eps()
                    for i in range(mx - mn):
                        rest = opt(seq(sk, x, rest))
                    parts.append(rest)
            return seq(*parts)
        if k in ("pospred", "negpred"):
            # a predicate constrains the *remaining input*; handled exactly in `seq` when it guards a following operand at
            # least as long as itself (the usual `!a ~ b` idiom); otherwise it is dropped and the model is marked
            self.predicates_dropped.append("/".join(ctx))
            return eps()
        raise Unsupported("pest expression kind `%s`" % k)


# ------------------------------------------------------------------------------------------------ filters from parser facts
def ws_set(charset):
    if isinstance(charset, (list, tuple)) and charset and charset[0] == "set":
        return cset([[c, c] for c in charset[1]])
    return cset(UNICODE_WS if charset == "unicode" else ASCII_WS)


def build_filters(pm):
    """-> [(context suffix, transformer, description)] from the parser model (only facts that are present)."""
    fl = []
    for rule, chk in pm.seg.items():
        if chk["kind"] == "after-prefix-no-space":
            bad = seq(lit(chk["prefix"]), ws_set(chk["charset"]), anystar())
            fl.append(((rule,), (lambda e, bad=bad: and_(e, not_(bad))), "P2 %s: no space after `%s`" % (rule, chk["prefix"])))
        elif chk["kind"] == "no-space-at":
            bad = seq(*([any1()] * chk["index"] + [ws_set(chk["charset"]), anystar()]))
            fl.append(((rule,), (lambda e, bad=bad: and_(e, not_(bad))), "P3 %s: no space at char %d" % (rule, chk["index"])))
        elif chk["kind"] == "unknown":
            raise Unsupported("fn segment rejects some `%s` texts under a condition the model cannot read: %s" % (rule, chk.get("cond", "")))
    return fl


def slot_filter(steps):
    """Span transformer for the AST-slot steps {trim, ctrl<=N, parse:i64, parse:f64, range[lo,hi]} (None = no filter)."""
    fs = []
    rng = None
    for s in steps:
        m = re.match(r"range\[(-?\d+),(-?\d+)\]", s)
        if m:
            rng = (int(m.group(1)), int(m.group(2)))
    for s in steps:
        if s.startswith("ctrl<="):
            c = int(s[6:])
            fs.append(not_(seq(anystar(), cset([[0, c]]), anystar())))
        if s.startswith("reject:"):
            rs = [[int(a), int(b)] for a, b in (x.split("-") for x in s[7:].split(","))]
            fs.append(not_(seq(anystar(), cset(rs), anystar())))
        if s == "parse:i64":
            lo, hi = rng if rng else (-(2 ** 63), 2 ** 63 - 1)
            # trims before the parse (Unicode / custom sets): only blanks can occur in the grammar's spans
            num = alt(seq(opt(cset([[0x2B, 0x2B], [0x2D, 0x2D]])), star(ch("0")), alt(ch("0"), digits_le(max(hi, 1)))),
                      seq(ch("-"), star(ch("0")), digits_le(max(-lo, 1)))) if True else None
            trim = star(cset(UNICODE_WS)) if any(x.startswith("trim:both") for x in steps) else eps()
            fs.append(seq(trim, num, trim))
        if s == "parse:f64":
            trim = star(cset(UNICODE_WS)) if any(x.startswith("trim:both") for x in steps) else eps()
            nonblank = cset([[0x21, 0xD7FF], [0xE000, 0x10FFFF]])
            fs.append(seq(trim, plus(nonblank), trim))
    if not fs:
        return None

    def apply(e, fs=fs):
        for f in fs:
            e = and_(e, f)
        return e
    return apply


# AST slot -> grammar occurrence(s) (context suffixes).  Frozen table: the correspondence between what the AST builders
# construct and which grammar rule's span they read is part of this repository's design (checked against arm patterns).
SLOT_CONTEXTS = {
    "Selector::Name": [("selector", "name_selector", "string")],
    "Literal::String": [("literal", "string")],
    "SingularQuerySegment::Name": [("name_segment", "name_selector", "string"), ("name_segment", "member_name_shorthand")],
    "Selector::Index": [("selector", "index_selector", "int")],
    "Selector::Slice.0": [("slice_selector", "start", "int")],
    "Selector::Slice.1": [("slice_selector", "end", "int")],
    "Selector::Slice.2": [("step", "int")],
    "SingularQuerySegment::Index": [("index_segment", "index_selector", "int")],
    "Literal::Int": [("literal", "number")],
    "Literal::Float": [("literal", "number")],
    "Segment::name": [("child_segment", "member_name_shorthand"), ("descendant_segment", "member_name_shorthand")],
}


def all_filters(pm):
    fl = build_filters(pm)
    # slot filters
    num_steps = None
    for slot, info in pm.slots.items():
        if slot in ("Literal::Int", "Literal::Float"):
            continue
        f = slot_filter(info["steps"])
        if f is None:
            continue
        for ctx in SLOT_CONTEXTS.get(slot, []):
            fl.append((ctx, f, "%s: %s" % (slot, ",".join(info["steps"]))))
    # number literal: Int | Float alternatives both parse the trimmed span (blank-free requirement); integer range of
    # literals is outside what is decided (DESIGN 4/C06)
    if "Literal::Int" in pm.slots and "Literal::Float" in pm.slots:
        si, sf = pm.slots["Literal::Int"]["steps"], pm.slots["Literal::Float"]["steps"]
        if "parse:i64" in si and "parse:f64" in sf:
            trim = star(cset(UNICODE_WS))
            nonblank = cset([[0x21, 0xD7FF], [0xE000, 0x10FFFF]])
            f = seq(trim, plus(nonblank), trim)
            fl.append((("literal", "number"), (lambda e, f=f: and_(e, f)), "Literal::Int/Float: parse of the trimmed span"))
    # character validators, per call site: the span of the rule(s) the validated text comes from must not contain a
    # rejected character (outside what a trim removed first)
    for vs in getattr(pm, "vsites", None) or []:
        short = vs["validator"].rsplit("::", 1)[1]
        if vs["rules"] is None:
            raise Unsupported("`%s` is applied in `%s` to a text (`%s`) whose grammar rule could not be determined: which valid "
                              "queries it rejects is unknown" % (short, vs["fn"], vs["arg"]))
        if vs["reject"] is None:
            raise Unsupported("the characters rejected by `%s` could not be read" % short)
        inner = not_(seq(anystar(), cset(vs["reject"]), anystar()))
        lead = [ws_set(cs) for side, cs in vs["trims"] if side in ("both", "start")]
        trail = [ws_set(cs) for side, cs in vs["trims"] if side in ("both", "end")]
        f = seq(star(alt(*lead)) if lead else eps(), inner, star(alt(*trail)) if trail else eps())
        for r in vs["rules"]:
            fl.append(((r,), (lambda e, f=f: and_(e, f)), "%s on the span of %s (in %s)" % (short, r, vs["fn"].rsplit("::", 1)[1])))
    # text gates (parse_string): the span must be one of the accepted texts
    for g in getattr(pm, "gates", None) or []:
        short = g["fn"].rsplit("::", 1)[1]
        if g["contexts"] is None:
            raise Unsupported("`%s` accepts or rejects a text whose grammar rule could not be determined" % short)
        lead = [ws_set(cs) for side, cs in g["trims"] if side in ("both", "start")]
        trail = [ws_set(cs) for side, cs in g["trims"] if side in ("both", "end")]
        f = seq(star(alt(*lead)) if lead else eps(), g["accept"], star(alt(*trail)) if trail else eps())
        for c in g["contexts"]:
            fl.append((tuple(c), (lambda e, f=f: and_(e, f)), "%s accepts the span of %s" % (short, "/".join(c))))
    # P4
    if pm.p4 and pm.p4.get("unknown"):
        raise Unsupported(pm.p4["unknown"])
    if pm.p4:
        # span(function_expr) must be  name "(" ...  : enforced by intersecting with  L(function_name) "(" Sigma*
        fl.append((("function_expr",), "P4", "P4 function_expr: `%s` directly after the name" % pm.p4["char"]))
    # P8
    ops = pm.ops
    if ops.get("unknown"):
        raise Unsupported(ops["unknown"])
    if not ops["other_accepted"]:
        allowed = alt(*[lit(o) for o in ops["accepted"]]) if ops["accepted"] else cset([])
        fl.append((("comp_op",), (lambda e, a=allowed: and_(e, a)), "P8 comp_op in {%s}" % " ".join(ops["accepted"])))
    return fl


# ------------------------------------------------------------------------------------------------ assembling and running
class Comparison:
    def __init__(self, ctx_prog, grammar, pm, abnf_path):
        self.grammar = grammar
        self.pm = pm
        self.abnf = parse_abnf(open(abnf_path, encoding="utf-8").read())
        self.notes = []

    def build(self):
        filters = all_filters(self.pm)
        p4 = [f for f in filters if f[1] == "P4"]
        filters = [f for f in filters if f[1] != "P4"]
        model = PestModel(self.grammar, filters)
        if p4:
            name = model.rule("function_name", False, ("function_expr",))
            must = seq(name, lit(self.pm.p4["char"]), anystar())
            model.filters.append((("function_expr",), (lambda e, must=must: and_(e, must)), p4[0][2]))
        self.model = model
        impl = {}
        # knot bodies (top=True expands the knot itself, inner knots are symbols)
        impl["Q"] = model.rule("jp_query", True)
        impl["L"] = model.rule("logical_expr", True)
        impl["F"] = model.rule("function_expr", True)
        main = model.rule("main", True)
        # atomic variants of knots (a knot referenced inside an @/$ rule): built until no new one appears
        kname = {"jp_query": "Q", "logical_expr": "L", "function_expr": "F"}
        done = set()
        while model.atomic_knot_refs - done:
            nm = sorted(model.atomic_knot_refs - done)[0]
            done.add(nm)
            impl[kname[nm] + "@atomic"] = model.rule(nm, True, (), True)
            self.notes.append("knot `%s` is also parsed in an atomic context: its atomic variant is compared with the RFC separately" % nm)
        # main embeds jp_query as a *symbol*; the top-level comparison needs its body: rebuild with jp_query expanded
        main_e = self._expand_main(model)
        if self.pm.p1:
            ws = ws_set(self.pm.p1["charset"])
            bads = []
            if self.pm.p1["side"] in ("both", "start"):
                bads.append(seq(ws, anystar()))
            if self.pm.p1["side"] in ("both", "end"):
                bads.append(seq(anystar(), ws))
            main_e = and_(main_e, not_(alt(*bads)))
            model.applied.append("P1 input == input.trim (%s, %s)" % (self.pm.p1["side"], self.pm.p1["charset"]))
        impl["main"] = main_e
        rfc = {
            "Q": rfc_expand(self.abnf, "jsonpath-query"),
            "L": rfc_expand(self.abnf, "logical-expr"),
            "F": rfc_expand(self.abnf, "function-expr"),
            "main": rfc_expand(self.abnf, "jsonpath-query"),
        }
        # the variant symbols have done their job (selecting which bodies exist): the RFC has one symbol per knot
        for k in list(impl):
            for base, var in ATOMIC_VARIANT.items():
                sub = _subst_symbol(impl[k], var, cset([[base, base]]))
                if sub is not None:
                    impl[k] = sub
        for kn in ("Q", "L", "F"):
            if kn + "@atomic" in impl:
                rfc[kn + "@atomic"] = rfc[kn]
        self.impl, self.rfc = impl, rfc
        compare = [{"id": "main", "impl": impl["main"], "rfc": rfc["main"]}]
        for kn in ("Q", "L", "F", "Q@atomic", "L@atomic", "F@atomic"):
            if kn in impl:
                compare.append({"id": kn, "impl": seq(WS, impl[kn], WS), "rfc": seq(WS, rfc[kn], WS)})
        # absorption side condition: in every body, every embedded knot symbol is surrounded by optional blank
        equiv = []
        for side, bodies in (("impl", impl), ("rfc", rfc)):
            for kn, body in bodies.items():
                for sym, sname in KNOT_NAMES.items():
                    padded = _subst_symbol(body, sym, seq(WS, cset([[sym, sym]]), WS))
                    if padded is not None:
                        ctxpad = (lambda x: x) if kn == "main" else (lambda x: seq(WS, x, WS))
                        equiv.append({"id": "absorb/%s/%s/%s" % (side, kn, sname), "a": ctxpad(body), "b": ctxpad(padded)})
        self.spec = {"defs": DEFS, "compare": compare, "equiv": equiv, "overlap": [], "facts": []}
        return self.spec

    def _expand_main(self, model):
        r = model.g.rules["main"]["expr"]
        # conv with a context that treats jp_query as top
        saved = dict(PEST_KNOTS)
        try:
            del PEST_KNOTS["jp_query"]
            # nested jp_query occurrences inside jp_query's own body cannot occur without passing L or F
            e = model.conv(r, False, ("main",), top=True)
        finally:
            PEST_KNOTS.clear(); PEST_KNOTS.update(saved)
        return tag("main", e)

    def run(self, extra=None):
        spec = self.build()
        if extra:
            for k, v in extra.items():
                spec[k] = spec.get(k, []) + v
        return run_engine(spec)


def _subst_symbol(e, sym, repl):
    """Replace every occurrence of the single-symbol set {sym} by repl (following shared definitions);
    None if sym does not occur."""
    found = [False]
    memo = {}

    def rec(x):
        k = x.get("k")
        if k == "set":
            if x["r"] == [[sym, sym]]:
                found[0] = True
                return repl
            return x
        if k == "ref":
            n = x["n"]
            if n not in memo:
                before = found[0]
                found[0] = False
                new = rec(DEFS[n])
                changed = found[0]
                found[0] = before or changed
                memo[n] = intern(n.split("#")[0] + "~pad", new) if changed else x
            else:
                if memo[n] is not x and memo[n].get("n") != n:
                    found[0] = True
            return memo[n]
        if k in ("seq", "alt"):
            return {"k": k, "xs": [rec(y) for y in x["xs"]]}
        if k in ("star", "plus", "opt", "not"):
            return {"k": k, "e": rec(x["e"])}
        if k == "tag":
            return {"k": "tag", "t": x["t"], "e": rec(x["e"])}
        if k == "and":
            return {"k": "and", "a": rec(x["a"]), "b": rec(x["b"])}
        return x
    out = rec(e)
    return out if found[0] else None


COARSE = [("lower-hex", "alpha"), ("upper-hex", "alpha"), ("lower-alpha", "alpha"), ("upper-alpha", "alpha"), ("zero", "digit")]


def coarse_class(label):
    """Symbol classes as used in finding keys: all ASCII letters are `alpha`, all digits `digit`, the four RFC blanks
    `blank`; punctuation stays individual."""
    base = label.split(":")[0] if re.match(r"^[a-z-]+:", label) else label
    for a, b in COARSE:
        if base == a:
            return b
    return base


def run_engine(spec):
    facts.build_pestfacts()
    d = os.path.join(facts.CACHE, "automata")
    os.makedirs(d, exist_ok=True)
    fd, path = tempfile.mkstemp(suffix=".json", dir=d)
    try:
        with os.fdopen(fd, "w") as fh:
            json.dump(spec, fh)
        r = subprocess.run([facts.PESTFACTS_BIN, "automata", path], stdout=subprocess.PIPE, stderr=subprocess.PIPE, text=True)
        if r.returncode != 0:
            raise facts.MachineryError("automata engine failed: %s" % r.stderr[-3000:])
        return json.loads(r.stdout)
    finally:
        try:
            os.remove(path)
        except OSError:
            pass


def show_witness(cps):
    out = ""
    for c in cps:
        if c in KNOT_SHOW:
            out += KNOT_SHOW[c]
        elif c < 0x20 or 0x7F <= c <= 0x9F or 0xD800 <= c <= 0xDFFF or c in (0x2028, 0x2029, 0xFEFF):
            out += "<U+%04X>" % c
        else:
            out += chr(c)
    return out


# ------------------------------------------------------------------------------------------------ ABNF self-check
def abnf_ends(rules, e, s, i, memo):
    """Set of end positions of matches of ABNF expression e in s starting at i (exact CFG semantics, no left recursion)."""
    k = e["k"]
    if k == "eps":
        return {i}
    if k == "set":
        if i < len(s):
            c = ord(s[i])
            for lo, hi in e["r"]:
                if lo <= c <= hi:
                    return {i + 1}
        return set()
    if k == "seq":
        cur = {i}
        for x in e["xs"]:
            nxt = set()
            for j in cur:
                nxt |= abnf_ends(rules, x, s, j, memo)
            cur = nxt
            if not cur:
                break
        return cur
    if k == "alt":
        out = set()
        for x in e["xs"]:
            out |= abnf_ends(rules, x, s, i, memo)
        return out
    if k == "opt":
        return {i} | abnf_ends(rules, e["e"], s, i, memo)
    if k in ("star", "plus"):
        out = set() if k == "plus" else {i}
        frontier = {i}
        seen = set()
        while frontier:
            nxt = set()
            for j in frontier:
                for m in abnf_ends(rules, e["e"], s, j, memo):
                    if m not in seen and m != j:
                        seen.add(m); nxt.add(m)
            out |= nxt
            frontier = nxt
        return out
    if k == "ref":
        key = (e["n"], i)
        if key not in memo:
            memo[key] = set()
            memo[key] = abnf_ends(rules, rules[e["n"]], s, i, memo)
        return memo[key]
    raise ValueError(k)


def abnf_accepts(rules, start, s):
    return len(s) in abnf_ends(rules, ref(start), s, 0, {})


def self_check(abnf_path, examples_path):
    """-> (n checked, [mismatches]) : V and S strings must be in L(ABNF), I strings must not."""
    rules = parse_abnf(open(abnf_path, encoding="utf-8").read())
    bad = []
    n = 0
    for ln in open(examples_path, encoding="utf-8"):
        if not ln.strip() or ln.startswith("#"):
            continue
        parts = ln.rstrip("\n").split("\t")
        cls, q = parts[0], json.loads('"%s"' % parts[1].replace('"', '\\"')) if False else (parts[0], parts[1])[1]
        q = _decode_tsv(parts[1])
        n += 1
        acc = abnf_accepts(rules, "jsonpath-query", q)
        if (cls in ("V", "S")) != acc:
            bad.append((cls, q, acc))
    return n, bad


def _decode_tsv(x):
    out = ""
    i = 0
    while i < len(x):
        c = x[i]
        if c == "\\" and i + 1 < len(x):
            n = x[i + 1]
            if n == "t":
                out += "\t"; i += 2
            elif n == "n":
                out += "\n"; i += 2
            elif n == "r":
                out += "\r"; i += 2
            elif n == "\\":
                out += "\\"; i += 2
            elif n == '"':
                out += '"'; i += 2
            elif n == "u":
                out += chr(int(x[i + 2:i + 6], 16)); i += 6
            else:
                out += c; i += 1
        else:
            out += c; i += 1
    return out


# ------------------------------------------------------------------------------------------------ cached front door
ABNF_PATH = os.path.join(facts.VERIF, "spec", "rfc9535.abnf")
EXAMPLES_PATH = os.path.join(facts.VERIF, "spec", "examples.tsv")
SUPPORTED_PEST = ("2.9.1",)


def alternatives_of(e):
    """Flatten nested pest choices into the ordered list of alternatives."""
    if e["k"] == "choice":
        return alternatives_of(e["a"]) + alternatives_of(e["b"])
    return [e]


def pest_text(e):
    k = e["k"]
    if k == "str":
        return json.dumps(e["v"])
    if k == "insens":
        return "^" + json.dumps(e["v"])
    if k == "range":
        return "'%s'..'%s'" % (chr(e["lo"]), chr(e["hi"]))
    if k == "ident":
        return e["v"]
    if k == "seq":
        return "%s ~ %s" % (pest_text(e["a"]), pest_text(e["b"]))
    if k == "choice":
        return "(%s | %s)" % (pest_text(e["a"]), pest_text(e["b"]))
    if k == "opt":
        return "%s?" % _paren(e["e"])
    if k == "rep":
        return "%s*" % _paren(e["e"])
    if k == "rep1":
        return "%s+" % _paren(e["e"])
    if k == "repn":
        return "%s{%s,%s}" % (_paren(e["e"]), e["min"], e["max"])
    return k


def _paren(e):
    t = pest_text(e)
    return "(%s)" % t if e["k"] in ("seq", "choice") else t


def normalized_path_expr():
    """RFC 9535 2.7 normalized-path, indices within the I-JSON range (transcribed from the ABNF of section 2.7)."""
    unesc = cset([[0x20, 0x26], [0x28, 0x5B], [0x5D, 0xD7FF], [0xE000, 0x10FFFF]])
    hexd = cset([[0x30, 0x39], [0x61, 0x66]])
    nhex = seq(lit("00"), alt(seq(ch("0"), cset([[0x30, 0x37]])), lit("0b"), seq(ch("0"), cset([[0x65, 0x66]])), seq(ch("1"), hexd)))
    esc = seq(ch("\\"), alt(cset([[0x62, 0x62], [0x66, 0x66], [0x6E, 0x6E], [0x72, 0x72], [0x74, 0x74], [0x27, 0x27], [0x5C, 0x5C]]), seq(ch("u"), nhex)))
    name = tag("rfc:normal-name-selector", seq(ch("'"), star(alt(tag("rfc:normal-unescaped", unesc), tag("rfc:normal-escapable", esc))), ch("'")))
    index = tag("rfc:normal-index-selector", int_range(0, 2 ** 53 - 1))
    return tag("rfc:normalized-path", seq(ch("$"), star(seq(ch("["), alt(name, index), ch("]")))))


def np_divergences(result):
    """Normalized paths (RFC 9535 2.7) the parser rejects: [(tags, class, witness)]"""
    out = []
    for cmp_ in result["engine"]["compare"]:
        if cmp_["id"] == "np:normalized-path":
            for d in cmp_["divergences"]:
                if d["dir"] == "rfc-only":
                    out.append(("+".join(d["tags"]), coarse_class(d["class"]), show_witness(d["witness"])))
    return out


END = 0x110006      # end of input, as a symbol, for continuation expressions


def repetition_hazards(grammar, model):
    """PEG repetitions and options are greedy and never give back.  For every `x*`, `x+`, `x?`, `x{n,m}` reachable from `main`
    build (continue, stop): continue = one more `x` (with the implicit skip where pest inserts one), stop = the
    continuation of the parse after the repetition up to the end of input.  A hazard needs a string that starts with a
    sentence of both (prefix-comparability, decided by the engine); everything else cannot lose a sentence.
    Knots are expanded in place; a knot that is already being expanded twice on the current path is not expanded again.
    -> [{"id", "a", "b"}], [{"id", "rule", "node", "context"}]"""
    pairs, meta, seen = [], [], set()
    endk = cset([[END, END]])

    def conv(e, atomic, ctx):
        # a fresh context: knots become symbols (expanded one level below), and a rule reached twice through a knot is
        # not mistaken for a recursion
        return model.conv(e, atomic, (ctx[-1],), top=False)

    # knot symbols stand for non-empty sentences of the knot rule: replace each by (a character its sentences can start
    # with) . anything -- an over-approximation that keeps the automata small (prefix-comparability only needs prefixes)
    def first_set(e, depth=0):
        """(ranges, nullable) of the first characters of the sentences of a model expression (superset)"""
        k = e.get("k")
        if depth > 60:
            return SIGMA1, True
        if k == "eps":
            return [], True
        if k == "set":
            return list(e["r"]), False
        if k == "seq":
            out, nullable = [], True
            for x in e["xs"]:
                r, n = first_set(x, depth + 1)
                out += r
                if not n:
                    nullable = False
                    break
            return out, nullable
        if k == "alt":
            out, nullable = [], False
            for x in e["xs"]:
                r, n = first_set(x, depth + 1)
                out += r
                nullable = nullable or n
            return out, nullable
        if k in ("star", "opt"):
            return first_set(e["e"], depth + 1)[0], True
        if k == "plus":
            return first_set(e["e"], depth + 1)
        if k == "tag":
            return first_set(e["e"], depth + 1)
        if k == "ref":
            return first_set(DEFS[e["n"]], depth + 1)
        if k == "and":
            return first_set(e["a"], depth + 1)
        return SIGMA1, True
    body1 = {}
    for nm, sym in PEST_KNOTS.items():
        b = model.rule(nm, True)
        rs, _n = first_set(b)
        rs = [r for r in rs if r[0] < 0x110000] or SIGMA1
        for s2 in list(PEST_KNOTS.values()):
            if any(r[0] <= s2 <= r[1] for r in first_set(b)[0]):
                # the knot can start with another knot (logical_expr -> test -> jp_query / function_expr): add that one's first
                rs = rs + [r for r in first_set(model.rule([n for n, v in PEST_KNOTS.items() if v == s2][0], True))[0] if r[0] < 0x110000]
        merged = []
        for lo, hi in sorted([list(r) for r in rs]):
            if merged and lo <= merged[-1][1] + 1:
                merged[-1][1] = max(merged[-1][1], hi)
            else:
                merged.append([lo, hi])
        approx = seq(cset(merged), anystar())
        body1[sym] = approx
        if sym in ATOMIC_VARIANT:
            body1[ATOMIC_VARIANT[sym]] = approx

    def expand(x):
        for sym, b in body1.items():
            r = _subst_symbol(x, sym, b)
            if r is not None:
                x = r
        return x

    def rule_atomicity(name, atomic):
        ty = grammar.rules[name]["ty"]
        if ty in ("atomic", "compound_atomic"):
            return True
        if ty == "non_atomic":
            return False
        return atomic

    def walk(e, k, atomic, ctx, stack):
        kind = e["k"]
        sk = eps() if atomic else model.skip
        if kind == "seq":
            walk(e["a"], seq(sk, conv(e["b"], atomic, ctx), k), atomic, ctx, stack)
            walk(e["b"], k, atomic, ctx, stack)
        elif kind == "choice":
            walk(e["a"], k, atomic, ctx, stack)
            walk(e["b"], k, atomic, ctx, stack)
        elif kind in ("opt", "rep", "rep1", "repn"):
            x = conv(e["e"], atomic, ctx)
            again = seq(sk, x)
            label = "%s|%s" % (ctx[-1], pest_text(e))
            for which, a in (("first", x), ("next", again)):
                if kind == "opt" and which == "next":
                    continue
                if kind == "rep1" and which == "first":
                    continue
                key = (label, which, json.dumps(a, sort_keys=True)[:4000], json.dumps(k, sort_keys=True)[:4000])
                if key in seen:
                    continue
                seen.add(key)
                pid = "rep|%s|%s|%d" % (label, which, len(pairs))
                pairs.append({"id": pid, "a": expand(a), "b": expand(k)})
                meta.append({"id": pid, "rule": ctx[-1], "node": pest_text(e), "which": which, "context": "/".join(ctx[-4:])})
            inner_k = k if kind == "opt" else seq(star(again), k)
            walk(e["e"], inner_k, atomic, ctx, stack)
        elif kind == "ident":
            name = e["v"]
            if name in grammar.rules and name not in ("WHITESPACE", "COMMENT"):
                if stack.count(name) >= (2 if name in PEST_KNOTS else 1):
                    return
                walk(grammar.rules[name]["expr"], k, rule_atomicity(name, atomic), ctx + (name,), stack + [name])
        # predicates, literals, ranges: nothing to do
    walk(grammar.rules["main"]["expr"], endk, False, ("main",), ["main"])
    return pairs, meta


def analyse(prog, grammar, tier="quick"):
    """Everything the grammar rules need, computed once per (sources, grammar, spec) and cached on disk."""
    import hashlib
    from .parsermodel import ParserModel
    pv = grammar.pest_version
    if pv.get("pest_generator") not in SUPPORTED_PEST and pv.get("pest") not in SUPPORTED_PEST:
        raise facts.MachineryError("pest version %s: the implicit-whitespace model (A7) was confirmed for %s only" % (pv, SUPPORTED_PEST))
    h = hashlib.sha256()
    h.update(prog.db["_meta"]["source_hash"].encode())
    for pth in (grammar.path, ABNF_PATH, __file__, os.path.join(os.path.dirname(__file__), "parsermodel.py"),
                os.path.join(facts.PESTFACTS_DIR, "src", "automata.rs")):
        h.update(open(pth, "rb").read())
    key = h.hexdigest()[:20]
    d = os.path.join(facts.CACHE, "automata")
    os.makedirs(d, exist_ok=True)
    cp = os.path.join(d, key + ".json")
    if os.path.exists(cp) and tier == "quick":
        with open(cp) as fh:
            return json.load(fh)
    DEFS.clear()
    pm = ParserModel(prog)
    pm.vsites = pm.extract_validator_sites(grammar)
    pm.gates = pm.extract_text_gates(grammar)
    comp = Comparison(prog, grammar, pm, ABNF_PATH)
    spec = comp.build()
    # every Normalized Path must be accepted by the parser (C09: a path that a query returns can be handed to reference())
    spec["compare"].append({"id": "np:normalized-path", "impl": comp.impl["main"], "rfc": normalized_path_expr()})
    # PEG ordered-choice hazards: pairwise prefix-comparability of the alternatives of every choice
    overlaps = []
    meta = []
    model = comp.model
    for rname in grammar.order:
        r = grammar.rules[rname]
        if rname in ("WHITESPACE", "COMMENT"):
            continue
        for node, path in _choice_nodes(r["expr"]):
            alts = alternatives_of(node)
            exprs = []
            for a in alts:
                try:
                    exprs.append(model.conv(a, r["ty"] in ("atomic", "compound_atomic"), (rname,), top=False))
                except Unsupported as ex:
                    exprs.append(None)
            for i in range(len(alts)):
                for j in range(i + 1, len(alts)):
                    if exprs[i] is None or exprs[j] is None:
                        continue
                    oid = "%s|%s|%s" % (rname, pest_text(alts[i]), pest_text(alts[j]))
                    overlaps.append({"id": oid, "a": exprs[i], "b": exprs[j]})
                    meta.append({"id": oid, "rule": rname, "first": pest_text(alts[i]), "second": pest_text(alts[j])})
                    # the recursion knots are opaque symbols in these expressions: also compare with each knot unfolded once
                    # (its body, inner knots opaque again) on either side - every unfolding is a real derivation, so an
                    # overlap found this way is a real one (the converse does not hold: deeper overlaps are not searched)
                    for kn, sym in (("Q", Q), ("L", L), ("F", F)):
                        for side in (0, 1):
                            src = exprs[i] if side == 0 else exprs[j]
                            un = None
                            for sy in (sym, ATOMIC_VARIANT[sym]):
                                body = comp.impl.get(kn + "@atomic" if sy != sym and kn + "@atomic" in comp.impl else kn)
                                u2 = _subst_symbol(un if un is not None else src, sy, body)
                                if u2 is not None:
                                    un = u2
                            if un is None:
                                continue
                            oid2 = "%s|unfold:%s:%d" % (oid, kn, side)
                            overlaps.append({"id": oid2, "a": un if side == 0 else exprs[i], "b": exprs[j] if side == 0 else un})
                            meta.append({"id": oid2, "rule": rname, "first": pest_text(alts[i]), "second": pest_text(alts[j]), "unfolded": kn})
    # greedy-repetition hazards: the continuation expressions make the automata too large as built (16 GB, no result after
    # 30 min); kept behind a switch until the queries are made tractable
    rep_pairs, rep_meta = repetition_hazards(grammar, model) if os.environ.get("VF_REP_HAZARDS") == "1" else ([], [])
    spec["overlap"] = overlaps + rep_pairs
    # grammar facts used elsewhere (C13-R2): can the span of these rules begin / end with blank?
    factq = []
    for rname in grammar.order:
        if rname in ("WHITESPACE", "COMMENT", "main") or grammar.rules[rname]["ty"] == "silent" and rname not in ("S",):
            continue
        try:
            factq.append({"id": rname, "e": model.rule(rname, True)})
        except Unsupported:
            pass
    # can the grammar alone (no post-checks) put a control character into the span of these rules?
    bare = PestModel(grammar, [])
    ctrl = seq(anystar(), cset([[0, 0x1F]]), anystar())
    for rname in ("string", "member_name_shorthand"):
        if rname in grammar.rules:
            try:
                factq.append({"id": "ctrl-in:" + rname, "e": and_(bare.rule(rname, True), ctrl)})
            except Unsupported:
                pass
    spec["facts"] = factq
    res = run_engine(spec)
    n, bad = self_check(ABNF_PATH, EXAMPLES_PATH)
    out = {
        "engine": res,
        "overlap_meta": meta,
        "repetition_meta": rep_meta,
        "applied_filters": model.applied,
        "parser_notes": pm.notes,
        "slots": pm.slots,
        "ops": pm.ops,
        "p1": pm.p1, "seg": pm.seg, "p4": pm.p4, "ctrl": pm.ctrl, "vsites": pm.vsites, "gates": [{k: v for k, v in g.items() if k != "accept"} for g in pm.gates],
        "abnf_selfcheck": {"n": n, "bad": bad},
        "predicates_dropped": sorted(set(model.predicates_dropped)),
        "defs": len(DEFS),
        "pest_version": pv,
    }
    with open(cp, "w") as fh:
        json.dump(out, fh)
    olds = sorted((os.path.getmtime(os.path.join(d, f)), f) for f in os.listdir(d) if f.endswith(".json") and len(f) == 25)
    for _, f in olds[:-6]:
        os.remove(os.path.join(d, f))
    return out


def _choice_nodes(e, path=""):
    """Outermost choice nodes of an expression (nested choices of the same chain are flattened by the caller)."""
    out = []
    k = e["k"]
    if k == "choice":
        out.append((e, path))
        for a in alternatives_of(e):
            for sub in _children(a):
                out.extend(_choice_nodes(sub, path))
        return out
    for sub in _children(e):
        out.extend(_choice_nodes(sub, path))
    return out


def _children(e):
    k = e["k"]
    if k in ("seq", "choice"):
        return [e["a"], e["b"]]
    if k in ("opt", "rep", "rep1", "repn", "pospred", "negpred", "push"):
        return [e["e"]]
    return []


def divergences(result):
    """Coarse-keyed divergences over all four comparisons:
    {(dir, tags, class): {"witness": str, "where": comparison id, "at": int, "blank_related": bool}}"""
    out = {}
    for cmp_ in result["engine"]["compare"]:
        if cmp_["id"].startswith("np:"):
            continue
        for d in cmp_["divergences"]:
            k = (d["dir"], "+".join(d["tags"]), coarse_class(d["class"]))
            w = d["witness"]
            at = d["at"]
            blank = coarse_class(d["class"]) == "blank" or (at > 0 and at <= len(w) and w[at - 1] in (0x20, 0x09, 0x0A, 0x0D))
            cur = out.get(k)
            if cur is None or len(w) < len(cur["cps"]):
                out[k] = {"witness": show_witness(w), "cps": w, "where": cmp_["id"], "at": at, "blank_related": blank}
    return out


# ------------------------------------------------------------------------------------------------ shadowed alternatives
def dead_alternatives(rules):
    """Ordered choices in which a later alternative can never be chosen because an earlier alternative derives it as a
    whole (through choices, rule references, optional/repeated parts and sequences whose other parts can match the empty
    string): whatever the later alternative matches, the earlier one matches first - PEG never backtracks into the later
    one.  `rules`: {name: {"ty", "expr"}} (pest's optimised AST).  -> [(rule, earlier text, later text, derivation path)]
    Lookahead predicates count as non-empty (no claim through them), so every report is a definite shadowing."""

    def nullable(e, stack=()):
        k = e["k"]
        if k in ("str", "insens"):
            return len(e["v"]) == 0
        if k == "ident":
            n = e["v"]
            if n in ("SOI", "EOI"):
                return True
            if n not in rules or n in stack:
                return False
            return nullable(rules[n]["expr"], stack + (n,))
        if k in ("opt", "rep"):
            return True
        if k == "seq":
            return nullable(e["a"], stack) and nullable(e["b"], stack)
        if k == "choice":
            return nullable(e["a"], stack) or nullable(e["b"], stack)
        if k == "rep1":
            return nullable(e["e"], stack)
        if k == "repn":
            return e.get("min", 0) == 0 or nullable(e["e"], stack)
        if k == "push":
            return nullable(e["e"], stack)
        return False

    def same(a, b):
        return json.dumps(a, sort_keys=True) == json.dumps(b, sort_keys=True)

    def derives(e, target, stack=()):
        """path (list of rule names) if e =>* target with everything else empty, else None"""
        if same(e, target):
            return []
        k = e["k"]
        if k == "ident":
            n = e["v"]
            if n not in rules or n in stack:
                return None
            r = derives(rules[n]["expr"], target, stack + (n,))
            return None if r is None else [n] + r
        if k == "choice":
            for s in (e["a"], e["b"]):
                r = derives(s, target, stack)
                if r is not None:
                    return r
            return None
        if k == "seq":
            if nullable(e["b"]):
                r = derives(e["a"], target, stack)
                if r is not None:
                    return r
            if nullable(e["a"]):
                return derives(e["b"], target, stack)
            return None
        if k in ("opt", "rep", "rep1", "push"):
            return derives(e["e"], target, stack)
        if k == "repn":
            if e.get("min", 0) <= 1 and (e.get("max", -1) == -1 or e.get("max", -1) >= 1):
                return derives(e["e"], target, stack)
        return None

    out = []
    for rname, r in rules.items():
        if rname in ("WHITESPACE", "COMMENT"):
            continue
        for node, _path in _choice_nodes(r["expr"]):
            alts = alternatives_of(node)
            for i in range(len(alts)):
                for j in range(i + 1, len(alts)):
                    if same(alts[i], alts[j]):
                        out.append((rname, pest_text(alts[i]), pest_text(alts[j]), ["(identical)"]))
                        continue
                    p = derives(alts[i], alts[j], (rname,))
                    if p is not None:
                        out.append((rname, pest_text(alts[i]), pest_text(alts[j]), p))
    return out


def dead_alternatives_control():
    """a three-rule grammar in which the second alternative is shadowed: must be reported"""
    I = lambda n: {"k": "ident", "v": n}
    rules = {"a": {"ty": "normal", "expr": {"k": "choice", "a": I("b"), "b": I("c")}},
             "b": {"ty": "normal", "expr": {"k": "seq", "a": {"k": "opt", "e": {"k": "str", "v": "!"}}, "b": {"k": "seq", "a": I("c"), "b": {"k": "rep", "e": {"k": "str", "v": " "}}}}},
             "c": {"ty": "normal", "expr": {"k": "str", "v": "x"}}}
    return [d[:3] for d in dead_alternatives(rules)] == [("a", "b", "c")]
