#!/usr/bin/env python3
"""Confirm a sub-agent's seeded change and run the checks against it.
usage: tools_seed.py <PID> <A|B> [--keep]
 1. in a scratch worktree (/tmp/wtv): patch applies, existing suite passes, demo fails with / passes without the patch
 2. apply the patch to /repo's working tree, run every check, record which fire, undo (git checkout -- .)
 3. with --keep: copy patch.diff, demo.rs, meta.json (+ our confirmation and detection record) to /verif/seeded/<PID>-<A|B>/
"""
import json, os, shutil, subprocess, sys, re
HERE = os.path.dirname(os.path.abspath(__file__))
pid, ab = sys.argv[1], sys.argv[2]
keep = "--keep" in sys.argv
src = "%s/%s/%s" % (os.environ.get("SEEDOUT", "/tmp/seedout"), pid, ab)
patch = os.path.join(src, "patch.diff")
demo = os.path.join(src, "demo.rs")
WT = "/tmp/wtv"
env = dict(os.environ, CARGO_NET_OFFLINE="true", CARGO_TARGET_DIR="/tmp/wtv-target")

def sh(cmd, cwd=None, env=env):
    r = subprocess.run(cmd, cwd=cwd, env=env, stdout=subprocess.PIPE, stderr=subprocess.STDOUT, text=True, shell=isinstance(cmd, str))
    return r.returncode, r.stdout

rec = {"seed": "%s-%s" % (pid, ab)}
if os.path.isdir(WT):
    sh("git -C /repo worktree remove --force %s" % WT)
rc, out = sh("git -C /repo worktree add -q --detach %s HEAD" % WT)
assert rc == 0, out
try:
    rc, out = sh("git apply --check %s" % patch, cwd=WT)
    rec["applies"] = rc == 0
    if rc != 0:
        print("patch does not apply:", out[-500:]); print(json.dumps(rec)); sys.exit(1)
    os.makedirs(os.path.join(WT, "tests"), exist_ok=True)
    shutil.copy(demo, os.path.join(WT, "tests", "demo.rs"))
    rc0, out0 = sh("cargo test --offline --test demo 2>&1 | tail -15", cwd=WT)
    rec["demo_passes_without_patch"] = "test result: ok" in out0 and "FAILED" not in out0
    sh("git apply %s" % patch, cwd=WT)
    rc1, out1 = sh("cargo test --offline --lib 2>&1 | grep -E '^test result'", cwd=WT)
    m = re.search(r"(\d+) passed; (\d+) failed", out1)
    rec["suite_with_patch"] = m.group(0) if m else out1[-200:]
    rec["suite_passes_with_patch"] = bool(m and m.group(2) == "0" and int(m.group(1)) >= 94)
    rc2, out2 = sh("cargo test --offline --test demo 2>&1 | tail -15", cwd=WT)
    rec["demo_fails_with_patch"] = ("FAILED" in out2) or ("panicked" in out2) or ("error" in out2 and "test result: ok" not in out2)
finally:
    sh("git -C /repo worktree remove --force %s" % WT)
confirmed = rec["demo_passes_without_patch"] and rec["suite_passes_with_patch"] and rec["demo_fails_with_patch"]
rec["confirmed"] = confirmed
# 2. run the checks on /repo with the patch
rc, out = sh("git -C /repo status --porcelain")
assert out.strip() == "", "/repo working tree is dirty: " + out
shutil.rmtree(os.path.join(HERE, ".cache", "evbak"), ignore_errors=True)
shutil.copytree(os.path.join(HERE, "evidence"), os.path.join(HERE, ".cache", "evbak"))
fired = {}
try:
    rc, o = sh("git -C /repo apply %s" % patch)
    assert rc == 0, o
    rc, o = sh([os.path.join(HERE, "vf"), "all"], env=dict(os.environ))
    for ln in o.splitlines():
        m = re.match(r"\s+(VIOLATION|UNRECOGNISED) (C\d\d-\S+) at (\S+): (.*)", ln)
        if m:
            fired.setdefault(m.group(2)[:3], []).append("%s at %s: %s" % (m.group(2), m.group(3), m.group(4)[:300]))
        if ln.startswith("MACHINERY"):
            fired.setdefault("MACHINERY", []).append(ln[:300])
finally:
    sh("git -C /repo checkout -- .")
    shutil.rmtree(os.path.join(HERE, "evidence"))
    shutil.copytree(os.path.join(HERE, ".cache", "evbak"), os.path.join(HERE, "evidence"))
    shutil.rmtree(os.path.join(HERE, "out", "violations"), ignore_errors=True)
rec["checks_fired"] = {k: v[:3] for k, v in fired.items()}
rec["detected_by_own_property"] = pid in fired
rec["detected_by_any"] = bool(fired) and list(fired) != ["MACHINERY"]
print(json.dumps(rec, indent=1))
json.dump(rec, open(os.path.join(src, "result.json"), "w"), indent=1)
if keep and confirmed:
    dst = os.path.join(HERE, "seeded", "%s-%s" % (pid, ab))
    os.makedirs(dst, exist_ok=True)
    shutil.copy(patch, os.path.join(dst, "patch.diff"))
    shutil.copy(demo, os.path.join(dst, "demo.rs"))
    meta = {}
    try:
        meta = json.load(open(os.path.join(src, "meta.json")))
    except Exception as ex:
        meta = {"note": "sub-agent meta.json unreadable: %s" % ex}
    meta["breaks_property"] = pid
    meta["confirmation"] = {"what_was_run": ["git worktree add /tmp/wtv; git apply patch.diff", "cargo test --offline --lib (existing suite)",
                                              "cargo test --offline --test demo with and without the patch"],
                            "suite_with_patch": rec["suite_with_patch"], "demo_fails_with_patch": rec["demo_fails_with_patch"],
                            "demo_passes_without_patch": rec["demo_passes_without_patch"]}
    meta["detection"] = {"checks_fired": rec["checks_fired"], "detected_by_own_property": rec["detected_by_own_property"]}
    json.dump(meta, open(os.path.join(dst, "meta.json"), "w"), indent=1)
    print("kept in", dst)
