#!/usr/bin/env python3
"""Re-run the checks against the kept seeded changes (seeded/<id>/patch.diff): apply to /repo, run, undo.
usage: tools_seedcheck.py [seed-substring ...]   (prints which properties fire per seed; updates seeded/INDEX.md with --index)"""
import json, os, re, shutil, subprocess, sys
HERE = os.path.dirname(os.path.abspath(__file__))
sel = [a for a in sys.argv[1:] if not a.startswith("--")]
seeds = sorted(d for d in os.listdir(os.path.join(HERE, "seeded")) if os.path.isdir(os.path.join(HERE, "seeded", d)))
rows = []
assert subprocess.run("git -C /repo status --porcelain", shell=True, stdout=subprocess.PIPE, text=True).stdout.strip() == "", "/repo dirty"
shutil.rmtree(os.path.join(HERE, ".cache", "evbak"), ignore_errors=True)
shutil.copytree(os.path.join(HERE, "evidence"), os.path.join(HERE, ".cache", "evbak"))
try:
    for sd in seeds:
        if sel and not any(x in sd for x in sel):
            continue
        patch = os.path.join(HERE, "seeded", sd, "patch.diff")
        pid = sd.split("-")[0]
        fired = {}
        try:
            r = subprocess.run("git -C /repo apply %s" % patch, shell=True, stdout=subprocess.PIPE, stderr=subprocess.STDOUT, text=True)
            if r.returncode != 0:
                print("%-8s patch does not apply" % sd); continue
            o = subprocess.run([os.path.join(HERE, "vf"), "all"], stdout=subprocess.PIPE, stderr=subprocess.STDOUT, text=True).stdout
            for ln in o.splitlines():
                m = re.match(r"\s+(VIOLATION|UNRECOGNISED) (C\d\d)-(\S+) at (\S+): (.*)", ln)
                if m:
                    fired.setdefault(m.group(2), []).append("%s-%s: %s" % (m.group(2), m.group(3), m.group(5)[:200]))
                if ln.startswith("MACHINERY"):
                    fired.setdefault("MACHINERY", []).append(ln[:200])
        finally:
            subprocess.run("git -C /repo checkout -- .", shell=True)
        own = pid in fired
        print("%-8s own=%-5s fired=%s" % (sd, own, sorted(fired)))
        if pid in fired:
            print("          ", fired[pid][0][:240])
        rows.append((sd, own, fired))
        mp = os.path.join(HERE, "seeded", sd, "meta.json")
        try:
            meta = json.load(open(mp))
            meta["detection"] = {"checks_fired": {k: v[:3] for k, v in fired.items()}, "detected_by_own_property": own}
            json.dump(meta, open(mp, "w"), indent=1)
        except Exception:
            pass
finally:
    shutil.rmtree(os.path.join(HERE, "evidence"))
    shutil.copytree(os.path.join(HERE, ".cache", "evbak"), os.path.join(HERE, "evidence"))
    shutil.rmtree(os.path.join(HERE, "out", "violations"), ignore_errors=True)
if "--index" in sys.argv:
    with open(os.path.join(HERE, "seeded", "INDEX.md"), "w") as fh:
        fh.write("# Seeded changes (written by sub-agents from the property text only) and the checks that report them\n\n")
        fh.write("| seed | breaks | what it needs to manifest | reported by own property | all properties that fire | first report |\n|---|---|---|---|---|---|\n")
        for sd, own, fired in rows:
            meta = json.load(open(os.path.join(HERE, "seeded", sd, "meta.json")))
            need = str(meta.get("needs_to_manifest", meta.get("summary", "")))[:160].replace("|", "/").replace("\n", " ")
            first = (fired.get(sd.split("-")[0]) or [v for k, v in sorted(fired.items())][0] if fired else ["-"])[0][:150].replace("|", "/")
            fh.write("| %s | %s | %s | %s | %s | %s |\n" % (sd, sd.split("-")[0], need, "yes" if own else "NO", ", ".join(sorted(fired)) or "none", first))
    print("INDEX.md written")
