#!/bin/bash
# usage: tools_seed_summary.sh PID AB  -> short summary of confirmation + detection
/verif/tools_seed.py $1 $2 --keep > /tmp/seedout/$1/$2/run.log 2>&1
python3 - "$1" "$2" <<'PY'
import json,sys
try:
    r=json.load(open('/tmp/seedout/%s/%s/result.json'%(sys.argv[1],sys.argv[2])))
    print("%s-%s confirmed=%s own=%s fired=%s" % (sys.argv[1],sys.argv[2],r.get('confirmed'),r.get('detected_by_own_property'),sorted(r.get('checks_fired',{}).keys())))
    for k,v in r.get('checks_fired',{}).items():
        print("    ",k,":",v[0][:230])
    if not r.get('confirmed'): print("   NOT CONFIRMED:", {k:r[k] for k in r if k in ('applies','demo_passes_without_patch','suite_with_patch','demo_fails_with_patch')})
except Exception as ex:
    print("ERR",ex, open('/tmp/seedout/%s/%s/run.log'%(sys.argv[1],sys.argv[2])).read()[-600:])
PY
