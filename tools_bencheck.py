#!/usr/bin/env python3
"""False-alarm hunt: apply each behaviour-preserving refactoring written by a sub-agent (<dir>/<agent>/<n>/patch.diff) to
/repo's working tree, run every check, undo.  usage: tools_bencheck.py <dir> [substring] [--keep]
With --keep the silent ones and the ones that alarmed are both copied to /verif/benign_agents/<agent>-<n>/ with the outcome."""
import json, os, re, shutil, subprocess, sys
HERE = os.path.dirname(os.path.abspath(__file__))
root = sys.argv[1]
sub = [a for a in sys.argv[2:] if not a.startswith("--")]
keep = "--keep" in sys.argv

def sh(cmd):
    r = subprocess.run(cmd, shell=True, stdout=subprocess.PIPE, stderr=subprocess.STDOUT, text=True)
    return r.returncode, r.stdout

rc, out = sh("git -C /repo status --porcelain")
assert out.strip() == "", "/repo dirty"
shutil.rmtree(os.path.join(HERE, ".cache", "evbak"), ignore_errors=True)
shutil.copytree(os.path.join(HERE, "evidence"), os.path.join(HERE, ".cache", "evbak"))
nalarm = 0
try:
    for ag in sorted(os.listdir(root)):
        d0 = os.path.join(root, ag)
        if not os.path.isdir(d0):
            continue
        for n in sorted(os.listdir(d0)):
            d = os.path.join(d0, n)
            patch = os.path.join(d, "patch.diff")
            if not os.path.exists(patch):
                continue
            name = "%s-%s" % (ag, n)
            if sub and not any(s in name for s in sub):
                continue
            rc, o = sh("git -C /repo apply %s" % patch)
            if rc != 0:
                print("NOAPPLY %s %s" % (name, o[-200:])); continue
            try:
                rc, o = sh("%s all" % os.path.join(HERE, "vf"))
                fired = []
                for ln in o.splitlines():
                    m = re.match(r"\s+(VIOLATION|UNRECOGNISED) (C\d\d-\S+) at (\S+): (.*)", ln)
                    if m:
                        fired.append("%s %s at %s: %s" % (m.group(1), m.group(2), m.group(3), m.group(4)[:260]))
                    if ln.startswith("MACHINERY"):
                        fired.append(ln[:300])
            finally:
                sh("git -C /repo checkout -- . && git -C /repo clean -fdq src")
            title = ""
            try:
                title = json.load(open(os.path.join(d, "meta.json"))).get("title", "")
            except Exception:
                pass
            if fired:
                nalarm += 1
                print("ALARM  %s  %s" % (name, title[:80]))
                for f in fired[:6]:
                    print("         " + f)
            else:
                print("silent %s  %s" % (name, title[:80]))
            json.dump({"name": name, "fired": fired}, open(os.path.join(d, "result.json"), "w"), indent=1)
            if keep:
                dst = os.path.join(HERE, "benign_agents", name)
                os.makedirs(dst, exist_ok=True)
                for f in ("patch.diff", "meta.json", "result.json"):
                    if os.path.exists(os.path.join(d, f)):
                        shutil.copy(os.path.join(d, f), os.path.join(dst, f))
finally:
    shutil.rmtree(os.path.join(HERE, "evidence"))
    shutil.copytree(os.path.join(HERE, ".cache", "evbak"), os.path.join(HERE, "evidence"))
    shutil.rmtree(os.path.join(HERE, "out", "violations"), ignore_errors=True)
print("refactorings that raised an alarm: %d" % nalarm)
