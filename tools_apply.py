#!/usr/bin/env python3
"""debug aid: apply one benign edit / variant by name to /repo's working tree (undo with git -C /repo checkout -- .)"""
import json, sys, os
HERE = os.path.dirname(os.path.abspath(__file__))
name = sys.argv[1]
for fn in ("benign.json", "variants.json"):
    for e in json.load(open(os.path.join(HERE, "fixtures", fn))):
        if e["name"] == name:
            edits = e.get("edits") or ([{"file": e["file"], "old": e["old"], "new": e["new"]}] + e.get("also", []))
            for ed in edits:
                p = os.path.join("/repo", ed["file"])
                s = open(p).read()
                assert ed["old"] in s, "anchor not found in " + ed["file"]
                open(p, "w").write(s.replace(ed["old"], ed["new"], 1))
            print("applied", name); sys.exit(0)
print("not found"); sys.exit(1)
