#!/usr/bin/env python3
"""Regenerates MANIFEST.json from the per-property META of rules/*.py (single source of truth)."""
import importlib, json, os, sys
HERE = os.path.dirname(os.path.abspath(__file__))
sys.path.insert(0, HERE)
PROPS = ["C%02d" % i for i in range(1, 16)]
NOTES = json.load(open(os.path.join(HERE, "manifest_notes.json")))
checks = []
na = []
for pid in PROPS:
    try:
        mod = importlib.import_module("rules." + pid.lower())
    except ModuleNotFoundError:
        na.append({"property_id": pid, "reason": NOTES["pending"].get(pid, "rules for this property are not built yet (see DESIGN.md section 4); nothing is claimed")})
        continue
    n = NOTES["checks"][pid]
    checks.append({
        "property_id": pid,
        "quick_cmd": "./vf check %s --tier quick" % pid,
        "thorough_cmd": "./vf check %s --tier thorough" % pid,
        "evidence_file": "/verif/evidence/%s.json" % pid,
        "replay_cmd_template": "./vf replay {path}",
        "engine": "vf",
        "level_claimed": {"category": mod.META["level"], "text": n["text"], "design_ref": n["design_ref"]},
        "level_note": n["level_note"],
        "technique": n["technique"],
    })
man = {
    "version": 1,
    "setup_cmd": "./vf setup",
    "hooks": {
        "guard": "besok_jsonpath_rust_verif",
        "enable": "none needed: static analysis reads /repo's sources through a rustc driver (RUSTC_WORKSPACE_WRAPPER under cargo +nightly check); no instrumentation is compiled into the library",
        "baseline_off_cmd": "cd /repo && cargo test --workspace --no-fail-fast --offline",
        "source_commits": NOTES.get("source_commits", []),
        "add_only": True,
    },
    "engines": [
        {"name": "vf-driver", "path": "/verif/driver", "serves_properties": PROPS, "kind_free_text": "rustc_private driver (nightly): dumps items, ADTs, trait-solver answers, THIR trees and MIR CFGs of /repo's lib target as JSON"},
        {"name": "pestfacts", "path": "/verif/pestfacts", "serves_properties": ["C05", "C06", "C07", "C13", "C08"], "kind_free_text": "pest_meta-based grammar reader + automata engine comparing the .pest grammar with the RFC 9535 ABNF"},
        {"name": "vf rules", "path": "/verif/rules", "serves_properties": PROPS, "kind_free_text": "python rule layer: call graph, reachability, match tables, provenance terms, dominators, per-property rules with floors and positive controls"},
    ],
    "checks": checks,
    "not_applicable": na,
    "notes": NOTES["notes"],
}
json.dump(man, open(os.path.join(HERE, "MANIFEST.json"), "w"), indent=1)
print("MANIFEST.json: %d checks, %d not_applicable" % (len(checks), len(na)))
