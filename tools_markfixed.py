#!/usr/bin/env python3
"""tools_markfixed.py <defect-id> <commit> : move the known findings of a defect to the `fixed` list."""
import json, sys
p = "/verif/known_findings.json"
k = json.load(open(p))
d, commit = sys.argv[1], sys.argv[2]
keep = []
for f in k["findings"]:
    if f.get("defect") == d:
        k["fixed"].append("fixed: property=%s %s %s [%s, rule %s, key %s]" % (f["property"], commit, f["what"], d, f["rule"], f["key"]))
    else:
        keep.append(f)
k["findings"] = keep
json.dump(k, open(p, "w"), indent=1)
print("moved", d)
