#!/bin/bash
# usage: tools_try.sh <patch-file> <ID> [<ID>...]   applies a patch to /repo, runs checks, reverts.
set -u
P=$1; shift
git -C /repo apply "$P" || { echo "patch does not apply"; exit 3; }
for id in "$@"; do
  /verif/vf check "$id" 2>&1 | grep -E "VIOLATION|KNOWN|MACHINERY|obligations" | cut -c1-400
done
git -C /repo checkout -- . 
git -C /repo status --short | head -3
