#!/usr/bin/env python3
"""Write spec/inventory.json: the functions of /repo the rules' recognisers were confirmed against (free functions and
inherent/trait methods with bodies, closures and macro output excluded).  A function that is NOT in this list is a helper
introduced later; the second analysis of `vf check` unfolds calls to such helpers (see vf: cmd_check)."""
import sys, os, json, importlib.machinery, importlib.util
HERE = os.path.dirname(os.path.abspath(__file__))
sys.path.insert(0, HERE)
loader = importlib.machinery.SourceFileLoader("vfmain", os.path.join(HERE, "vf"))
spec = importlib.util.spec_from_loader("vfmain", loader)
m = importlib.util.module_from_spec(spec); loader.exec_module(m)
ctx = m.Ctx("quick", 0); prog = ctx.prog
fns = sorted(p for p, it in prog.items.items() if p in prog.bodies and it["kind"] in ("Fn", "AssocFn") and "::{closure#" not in p and not prog.is_expansion(p))
out = {"_comment": __doc__.strip(), "tree": os.popen("git -C /repo rev-parse --short HEAD").read().strip(), "functions": fns}
json.dump(out, open(os.path.join(HERE, "spec", "inventory.json"), "w"), indent=1)
print(len(fns), "functions")
