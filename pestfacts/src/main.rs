// pestfacts: reads a .pest grammar with pest's own meta-parser and prints the rule list as JSON.
//   pestfacts dump <grammar.pest>
use pest_meta::ast::{Expr, RuleType};
use pest_meta::parser::{self, Rule};
use std::fmt::Write;

mod automata;

fn esc(s: &str) -> String {
    let mut o = String::new();
    for c in s.chars() {
        match c {
            '"' => o.push_str("\\\""),
            '\\' => o.push_str("\\\\"),
            '\n' => o.push_str("\\n"),
            '\r' => o.push_str("\\r"),
            '\t' => o.push_str("\\t"),
            c if (c as u32) < 0x20 => {
                let _ = write!(o, "\\u{:04x}", c as u32);
            }
            c => o.push(c),
        }
    }
    o
}

fn expr_json(e: &Expr, o: &mut String) {
    match e {
        Expr::Str(s) => {
            let _ = write!(o, "{{\"k\":\"str\",\"v\":\"{}\"}}", esc(s));
        }
        Expr::Insens(s) => {
            let _ = write!(o, "{{\"k\":\"insens\",\"v\":\"{}\"}}", esc(s));
        }
        Expr::Range(a, b) => {
            let _ = write!(o, "{{\"k\":\"range\",\"lo\":{},\"hi\":{}}}", cp(a), cp(b));
        }
        Expr::Ident(s) => {
            let _ = write!(o, "{{\"k\":\"ident\",\"v\":\"{}\"}}", esc(s));
        }
        Expr::PeekSlice(..) => o.push_str("{\"k\":\"peekslice\"}"),
        Expr::PosPred(x) => un("pospred", x, o),
        Expr::NegPred(x) => un("negpred", x, o),
        Expr::Seq(a, b) => bin("seq", a, b, o),
        Expr::Choice(a, b) => bin("choice", a, b, o),
        Expr::Opt(x) => un("opt", x, o),
        Expr::Rep(x) => un("rep", x, o),
        Expr::RepOnce(x) => un("rep1", x, o),
        Expr::RepExact(x, n) => {
            let _ = write!(o, "{{\"k\":\"repn\",\"min\":{},\"max\":{},\"e\":", n, n);
            expr_json(x, o);
            o.push('}');
        }
        Expr::RepMin(x, n) => {
            let _ = write!(o, "{{\"k\":\"repn\",\"min\":{},\"max\":-1,\"e\":", n);
            expr_json(x, o);
            o.push('}');
        }
        Expr::RepMax(x, n) => {
            let _ = write!(o, "{{\"k\":\"repn\",\"min\":0,\"max\":{},\"e\":", n);
            expr_json(x, o);
            o.push('}');
        }
        Expr::RepMinMax(x, a, b) => {
            let _ = write!(o, "{{\"k\":\"repn\",\"min\":{},\"max\":{},\"e\":", a, b);
            expr_json(x, o);
            o.push('}');
        }
        Expr::Skip(v) => {
            let _ = write!(o, "{{\"k\":\"skip\",\"n\":{}}}", v.len());
        }
        Expr::Push(x) => un("push", x, o),
        #[allow(unreachable_patterns)]
        _ => o.push_str("{\"k\":\"other\"}"),
    }
}

fn cp(s: &str) -> u32 {
    s.chars().next().map(|c| c as u32).unwrap_or(0)
}

fn un(k: &str, x: &Expr, o: &mut String) {
    let _ = write!(o, "{{\"k\":\"{}\",\"e\":", k);
    expr_json(x, o);
    o.push('}');
}

fn bin(k: &str, a: &Expr, b: &Expr, o: &mut String) {
    let _ = write!(o, "{{\"k\":\"{}\",\"a\":", k);
    expr_json(a, o);
    o.push_str(",\"b\":");
    expr_json(b, o);
    o.push('}');
}

fn main() {
    let args: Vec<String> = std::env::args().collect();
    if args.len() >= 3 && args[1] == "dump" {
        let src = std::fs::read_to_string(&args[2]).expect("read grammar");
        let pairs = match parser::parse(Rule::grammar_rules, &src) {
            Ok(p) => p,
            Err(e) => {
                eprintln!("grammar does not parse: {}", e);
                std::process::exit(2);
            }
        };
        let rules = match parser::consume_rules(pairs) {
            Ok(r) => r,
            Err(e) => {
                eprintln!("grammar invalid: {:?}", e);
                std::process::exit(2);
            }
        };
        let mut o = String::from("{\"rules\":[");
        for (i, r) in rules.iter().enumerate() {
            if i > 0 {
                o.push(',');
            }
            let ty = match r.ty {
                RuleType::Normal => "normal",
                RuleType::Silent => "silent",
                RuleType::Atomic => "atomic",
                RuleType::CompoundAtomic => "compound_atomic",
                RuleType::NonAtomic => "non_atomic",
            };
            let _ = write!(o, "{{\"name\":\"{}\",\"ty\":\"{}\",\"expr\":", esc(&r.name), ty);
            expr_json(&r.expr, &mut o);
            o.push('}');
        }
        o.push_str("]}");
        println!("{}", o);
        return;
    }
    if args.len() >= 2 && args[1] == "automata" {
        automata::main(&args[2..]);
        return;
    }
    eprintln!("usage: pestfacts dump <grammar.pest> | pestfacts automata <spec.json>");
    std::process::exit(2);
}
