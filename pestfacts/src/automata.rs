pub fn main(_args: &[String]) {
    eprintln!("automata engine: not built yet");
    std::process::exit(2);
}
