// Regular-language engine over an extended alphabet (Unicode scalar values + a few "knot" symbols).
//
//   pestfacts automata <spec.json>   ->  JSON on stdout
//
// spec = { "defs": {name: EXPR}, "compare": [{"id", "impl": EXPR, "rfc": EXPR}],
//          "equiv": [{"id", "a": EXPR, "b": EXPR}], "overlap": [{"id", "a": EXPR, "b": EXPR}],
//          "facts": [{"id", "e": EXPR}] }
// EXPR = {"k":"eps"} | {"k":"set","r":[[lo,hi],..]} | {"k":"seq","xs":[..]} | {"k":"alt","xs":[..]}
//      | {"k":"star","e":..} | {"k":"plus","e":..} | {"k":"opt","e":..} | {"k":"ref","n":name}
//      | {"k":"tag","t":label,"e":..} | {"k":"and","a":..,"b":..} | {"k":"not","e":..} | {"k":"any"}
//
// compare: every divergence between L(impl) and L(rfc), keyed (direction, tags, symbol class), with a shortest witness.
// equiv:   same, for two expressions that must be equal (side conditions of the method).
// overlap: is L(a).Sigma* ∩ L(b).Sigma* non-empty? (prefix-comparability of PEG alternatives) + witness.
// facts:   min length, can-start-with / can-end-with class lists of a language.
use std::collections::{BTreeMap, BTreeSet, HashMap, VecDeque};

// ---------------------------------------------------------------- tiny JSON reader
#[derive(Debug, Clone)]
pub enum Js {
    Null,
    Bool(bool),
    Num(f64),
    Str(String),
    Arr(Vec<Js>),
    Obj(BTreeMap<String, Js>),
}

struct P<'a> {
    s: &'a [u8],
    i: usize,
}

impl<'a> P<'a> {
    fn ws(&mut self) {
        while self.i < self.s.len() && (self.s[self.i] as char).is_ascii_whitespace() {
            self.i += 1;
        }
    }
    fn val(&mut self) -> Js {
        self.ws();
        match self.s[self.i] {
            b'{' => {
                self.i += 1;
                let mut m = BTreeMap::new();
                loop {
                    self.ws();
                    if self.s[self.i] == b'}' {
                        self.i += 1;
                        break;
                    }
                    if self.s[self.i] == b',' {
                        self.i += 1;
                        continue;
                    }
                    let k = match self.val() {
                        Js::Str(s) => s,
                        _ => panic!("key"),
                    };
                    self.ws();
                    assert_eq!(self.s[self.i], b':');
                    self.i += 1;
                    let v = self.val();
                    m.insert(k, v);
                }
                Js::Obj(m)
            }
            b'[' => {
                self.i += 1;
                let mut v = vec![];
                loop {
                    self.ws();
                    if self.s[self.i] == b']' {
                        self.i += 1;
                        break;
                    }
                    if self.s[self.i] == b',' {
                        self.i += 1;
                        continue;
                    }
                    v.push(self.val());
                }
                Js::Arr(v)
            }
            b'"' => {
                self.i += 1;
                let mut out = String::new();
                loop {
                    let c = self.s[self.i];
                    if c == b'"' {
                        self.i += 1;
                        break;
                    }
                    if c == b'\\' {
                        self.i += 1;
                        let e = self.s[self.i];
                        self.i += 1;
                        match e {
                            b'n' => out.push('\n'),
                            b't' => out.push('\t'),
                            b'r' => out.push('\r'),
                            b'b' => out.push('\u{8}'),
                            b'f' => out.push('\u{c}'),
                            b'u' => {
                                let h = std::str::from_utf8(&self.s[self.i..self.i + 4]).unwrap();
                                let cp = u32::from_str_radix(h, 16).unwrap();
                                self.i += 4;
                                out.push(char::from_u32(cp).unwrap_or('\u{fffd}'));
                            }
                            other => out.push(other as char),
                        }
                    } else {
                        // utf-8 passthrough
                        let start = self.i;
                        let len = if c < 0x80 {
                            1
                        } else if c >> 5 == 0b110 {
                            2
                        } else if c >> 4 == 0b1110 {
                            3
                        } else {
                            4
                        };
                        self.i += len;
                        out.push_str(std::str::from_utf8(&self.s[start..start + len]).unwrap());
                    }
                }
                Js::Str(out)
            }
            b't' => {
                self.i += 4;
                Js::Bool(true)
            }
            b'f' => {
                self.i += 5;
                Js::Bool(false)
            }
            b'n' => {
                self.i += 4;
                Js::Null
            }
            _ => {
                let st = self.i;
                while self.i < self.s.len() && (self.s[self.i] == b'-' || self.s[self.i] == b'+' || self.s[self.i] == b'.' || self.s[self.i] == b'e' || self.s[self.i] == b'E' || self.s[self.i].is_ascii_digit()) {
                    self.i += 1;
                }
                Js::Num(std::str::from_utf8(&self.s[st..self.i]).unwrap().parse().unwrap())
            }
        }
    }
}

impl Js {
    fn get(&self, k: &str) -> &Js {
        match self {
            Js::Obj(m) => m.get(k).unwrap_or(&Js::Null),
            _ => &Js::Null,
        }
    }
    fn str(&self) -> &str {
        match self {
            Js::Str(s) => s,
            _ => "",
        }
    }
    fn arr(&self) -> &[Js] {
        match self {
            Js::Arr(v) => v,
            _ => &[],
        }
    }
    fn num(&self) -> u32 {
        match self {
            Js::Num(n) => *n as u32,
            _ => 0,
        }
    }
}

fn jstr(s: &str) -> String {
    let mut o = String::from("\"");
    for c in s.chars() {
        match c {
            '"' => o.push_str("\\\""),
            '\\' => o.push_str("\\\\"),
            '\n' => o.push_str("\\n"),
            '\r' => o.push_str("\\r"),
            '\t' => o.push_str("\\t"),
            c if (c as u32) < 0x20 => o.push_str(&format!("\\u{:04x}", c as u32)),
            c => o.push(c),
        }
    }
    o.push('"');
    o
}

// ---------------------------------------------------------------- alphabet
pub const MAXSYM: u32 = 0x110010; // scalars + up to 16 knot symbols

struct Alphabet {
    cuts: Vec<u32>, // sorted start points of classes; class i = [cuts[i], cuts[i+1]-1]
}

impl Alphabet {
    fn class_of(&self, c: u32) -> usize {
        match self.cuts.binary_search(&c) {
            Ok(i) => i,
            Err(i) => i - 1,
        }
    }
    fn n(&self) -> usize {
        self.cuts.len()
    }
    fn range(&self, cl: usize) -> (u32, u32) {
        let lo = self.cuts[cl];
        let hi = if cl + 1 < self.cuts.len() { self.cuts[cl + 1] - 1 } else { MAXSYM - 1 };
        (lo, hi)
    }
    fn valid(&self, cl: usize) -> bool {
        // surrogates are not symbols
        let (lo, hi) = self.range(cl);
        !(lo >= 0xD800 && hi <= 0xDFFF)
    }
    fn classes_of(&self, lo: u32, hi: u32) -> Vec<usize> {
        let mut out = vec![];
        let mut c = self.class_of(lo);
        while c < self.n() && self.range(c).0 <= hi {
            out.push(c);
            c += 1;
        }
        out
    }
}

fn collect_cuts(e: &Js, cuts: &mut BTreeSet<u32>) {
    match e {
        Js::Obj(m) => {
            if e.get("k").str() == "set" {
                for r in e.get("r").arr() {
                    let a = r.arr();
                    cuts.insert(a[0].num());
                    cuts.insert(a[1].num() + 1);
                }
            }
            for (_, v) in m {
                collect_cuts(v, cuts);
            }
        }
        Js::Arr(v) => {
            for x in v {
                collect_cuts(x, cuts);
            }
        }
        _ => {}
    }
}

// ---------------------------------------------------------------- tags
// A transition carries a *set* of rule tags (interned); sets are unioned when transitions are merged by
// determinisation / minimisation, so a divergence can always name the innermost grammar rules it happens in.
struct Tags {
    names: Vec<String>,
    name_ids: HashMap<String, u32>,
    sets: Vec<Vec<u32>>,
    set_ids: HashMap<Vec<u32>, u32>,
}

impl Tags {
    fn new() -> Tags {
        let mut t = Tags { names: vec![], name_ids: HashMap::new(), sets: vec![], set_ids: HashMap::new() };
        t.sets.push(vec![]);
        t.set_ids.insert(vec![], 0);
        t
    }
    fn single(&mut self, s: &str) -> u32 {
        if s.is_empty() {
            return 0;
        }
        let id = match self.name_ids.get(s) {
            Some(i) => *i,
            None => {
                let i = self.names.len() as u32;
                self.names.push(s.to_string());
                self.name_ids.insert(s.to_string(), i);
                i
            }
        };
        self.intern(vec![id])
    }
    fn intern(&mut self, mut v: Vec<u32>) -> u32 {
        v.sort();
        v.dedup();
        if let Some(i) = self.set_ids.get(&v) {
            return *i;
        }
        let i = self.sets.len() as u32;
        self.sets.push(v.clone());
        self.set_ids.insert(v, i);
        i
    }
    fn union(&mut self, a: u32, b: u32) -> u32 {
        if a == b || b == 0 {
            return a;
        }
        if a == 0 {
            return b;
        }
        let mut v = self.sets[a as usize].clone();
        v.extend(self.sets[b as usize].iter().copied());
        self.intern(v)
    }
    fn show(&self, a: u32) -> Vec<String> {
        self.sets[a as usize].iter().map(|i| self.names[*i as usize].clone()).collect()
    }
}

// ---------------------------------------------------------------- NFA
struct Nfa {
    eps: Vec<Vec<usize>>,
    tr: Vec<Vec<(usize, usize, u32)>>, // (class, target, tag set)
    start: usize,
    accept: usize,
}

struct Ctx<'a> {
    al: &'a Alphabet,
    defs: &'a BTreeMap<String, Js>,
    tags: Tags,
    memo: HashMap<String, Dfa>,
}

struct Builder {
    eps: Vec<Vec<usize>>,
    tr: Vec<Vec<(usize, usize, u32)>>,
    depth: usize,
}

impl Builder {
    fn new() -> Self {
        Builder { eps: vec![], tr: vec![], depth: 0 }
    }
    fn st(&mut self) -> usize {
        self.eps.push(vec![]);
        self.tr.push(vec![]);
        self.eps.len() - 1
    }
    fn finish(self, s: usize, a: usize) -> Nfa {
        Nfa { eps: self.eps, tr: self.tr, start: s, accept: a }
    }
    // returns (start, accept)
    fn build(&mut self, cx: &mut Ctx, e: &Js, tag: u32) -> (usize, usize) {
        self.depth += 1;
        if self.depth > 400 {
            panic!("expression too deep (unexpected recursion through a non-knot rule?)");
        }
        let k = e.get("k").str().to_string();
        let r = match k.as_str() {
            "eps" => {
                let s = self.st();
                (s, s)
            }
            "set" => {
                let s = self.st();
                let t = self.st();
                for r in e.get("r").arr() {
                    let a = r.arr();
                    for c in cx.al.classes_of(a[0].num(), a[1].num()) {
                        if cx.al.valid(c) {
                            self.tr[s].push((c, t, tag));
                        }
                    }
                }
                (s, t)
            }
            "seq" => {
                let xs = e.get("xs").arr();
                if xs.is_empty() {
                    let s = self.st();
                    (s, s)
                } else {
                    let (s0, mut cur) = self.build(cx, &xs[0], tag);
                    for x in &xs[1..] {
                        let (s, a) = self.build(cx, x, tag);
                        self.eps[cur].push(s);
                        cur = a;
                    }
                    (s0, cur)
                }
            }
            "alt" => {
                let s = self.st();
                let t = self.st();
                for x in e.get("xs").arr() {
                    let (a, b) = self.build(cx, x, tag);
                    self.eps[s].push(a);
                    self.eps[b].push(t);
                }
                (s, t)
            }
            "star" | "plus" | "opt" => {
                let (a, b) = self.build(cx, e.get("e"), tag);
                let s = self.st();
                let t = self.st();
                self.eps[s].push(a);
                self.eps[b].push(t);
                if k != "plus" {
                    self.eps[s].push(t);
                }
                if k != "opt" {
                    self.eps[b].push(a);
                }
                (s, t)
            }
            "ref" => {
                // a definition is compiled once to a minimal DFA (with tag sets) and embedded
                let name = e.get("n").str().to_string();
                if !cx.memo.contains_key(&name) {
                    let d = cx.defs.get(&name).unwrap_or_else(|| panic!("undefined ref {}", name)).clone();
                    let dfa = compile(cx, &d);
                    cx.memo.insert(name.clone(), dfa);
                }
                let d = cx.memo.get(&name).unwrap().clone();
                self.embed(cx, &d, tag)
            }
            "tag" => {
                let t = cx.tags.single(e.get("t").str());
                self.build(cx, e.get("e"), t)
            }
            "and" | "not" => {
                let d = if k == "not" {
                    let a = compile(cx, e.get("e"));
                    a.complement()
                } else {
                    let a = compile(cx, e.get("a"));
                    let b = compile(cx, e.get("b"));
                    a.product(&b, &mut cx.tags, |x, y| x && y)
                };
                let d = d.minimize(&mut cx.tags);
                self.embed(cx, &d, tag)
            }
            other => panic!("unknown expr kind {}", other),
        };
        self.depth -= 1;
        r
    }
    fn embed(&mut self, cx: &mut Ctx, d: &Dfa, tag: u32) -> (usize, usize) {
        let base: Vec<usize> = (0..d.n).map(|_| self.st()).collect();
        let acc = self.st();
        for q in 0..d.n {
            for c in 0..d.nc {
                let t = d.tr[q][c];
                if t != usize::MAX && cx.al.valid(c) {
                    let tg = if d.tg[q][c] == 0 { tag } else { d.tg[q][c] };
                    self.tr[base[q]].push((c, base[t], tg));
                }
            }
            if d.acc[q] {
                self.eps[base[q]].push(acc);
            }
        }
        (base[d.start], acc)
    }
}

fn compile(cx: &mut Ctx, e: &Js) -> Dfa {
    let mut b = Builder::new();
    let (s, a) = b.build(cx, e, 0);
    let n = b.finish(s, a);
    Dfa::from_nfa(&n, cx.al, &mut cx.tags).minimize(&mut cx.tags)
}

// ---------------------------------------------------------------- DFA
#[derive(Clone)]
struct Dfa {
    n: usize,
    nc: usize,
    tr: Vec<Vec<usize>>, // usize::MAX = no transition (dead)
    tg: Vec<Vec<u32>>,   // tag set of each transition
    acc: Vec<bool>,
    start: usize,
}

impl Dfa {
    fn from_nfa(n: &Nfa, al: &Alphabet, tags: &mut Tags) -> Dfa {
        let nc = al.n();
        let ns = n.eps.len();
        // epsilon closures
        let mut clo: Vec<Vec<usize>> = Vec::with_capacity(ns);
        for s in 0..ns {
            let mut seen = vec![s];
            let mut mark: BTreeSet<usize> = BTreeSet::new();
            mark.insert(s);
            let mut i = 0;
            while i < seen.len() {
                let x = seen[i];
                i += 1;
                for &t in &n.eps[x] {
                    if mark.insert(t) {
                        seen.push(t);
                    }
                }
            }
            seen.sort();
            clo.push(seen);
        }
        let mut ids: HashMap<Vec<usize>, usize> = HashMap::new();
        let mut sets: Vec<Vec<usize>> = vec![];
        let mut tr: Vec<Vec<usize>> = vec![];
        let mut tg: Vec<Vec<u32>> = vec![];
        let mut acc = vec![];
        let mut q = VecDeque::new();
        let sv = clo[n.start].clone();
        ids.insert(sv.clone(), 0);
        sets.push(sv);
        tr.push(vec![usize::MAX; nc]);
        tg.push(vec![0; nc]);
        acc.push(false);
        q.push_back(0usize);
        let mut mark = vec![0u32; ns];
        let mut stamp = 0u32;
        while let Some(i) = q.pop_front() {
            let cur = sets[i].clone();
            acc[i] = cur.binary_search(&n.accept).is_ok();
            // group transitions by class
            let mut by: BTreeMap<usize, (Vec<usize>, u32)> = BTreeMap::new();
            for &s in &cur {
                for &(c, t, tagset) in &n.tr[s] {
                    let e = by.entry(c).or_insert((vec![], 0));
                    e.0.push(t);
                    e.1 = tags.union(e.1, tagset);
                }
            }
            for (c, (targets, tagset)) in by {
                stamp += 1;
                let mut v: Vec<usize> = vec![];
                for t in targets {
                    for &x in &clo[t] {
                        if mark[x] != stamp {
                            mark[x] = stamp;
                            v.push(x);
                        }
                    }
                }
                v.sort();
                let id = match ids.get(&v) {
                    Some(id) => *id,
                    None => {
                        let id = sets.len();
                        ids.insert(v.clone(), id);
                        sets.push(v);
                        tr.push(vec![usize::MAX; nc]);
                        tg.push(vec![0; nc]);
                        acc.push(false);
                        q.push_back(id);
                        id
                    }
                };
                tr[i][c] = id;
                tg[i][c] = tagset;
            }
        }
        Dfa { n: sets.len(), nc, tr, tg, acc, start: 0 }
    }

    fn complement(&self) -> Dfa {
        let mut d = self.clone();
        let sink = d.n;
        d.tr.push(vec![sink; d.nc]);
        d.tg.push(vec![0; d.nc]);
        d.acc.push(false);
        d.n += 1;
        for q in 0..d.n {
            for c in 0..d.nc {
                if d.tr[q][c] == usize::MAX {
                    d.tr[q][c] = sink;
                }
            }
        }
        for q in 0..d.n {
            d.acc[q] = !d.acc[q];
        }
        d
    }

    fn product(&self, o: &Dfa, tags: &mut Tags, f: impl Fn(bool, bool) -> bool) -> Dfa {
        let nc = self.nc;
        let mut ids: HashMap<(usize, usize), usize> = HashMap::new();
        let mut st: Vec<(usize, usize)> = vec![];
        let mut tr: Vec<Vec<usize>> = vec![];
        let mut tg: Vec<Vec<u32>> = vec![];
        let mut acc = vec![];
        let mut q = VecDeque::new();
        const D: usize = usize::MAX;
        ids.insert((self.start, o.start), 0);
        st.push((self.start, o.start));
        tr.push(vec![D; nc]);
        tg.push(vec![0; nc]);
        acc.push(false);
        q.push_back(0usize);
        while let Some(i) = q.pop_front() {
            let (a, b) = st[i];
            let aa = a != D && self.acc[a];
            let bb = b != D && o.acc[b];
            acc[i] = f(aa, bb);
            for c in 0..nc {
                let ta = if a == D { D } else { self.tr[a][c] };
                let tb = if b == D { D } else { o.tr[b][c] };
                if ta == D && tb == D {
                    continue;
                }
                let id = match ids.get(&(ta, tb)) {
                    Some(id) => *id,
                    None => {
                        let id = st.len();
                        ids.insert((ta, tb), id);
                        st.push((ta, tb));
                        tr.push(vec![D; nc]);
                        tg.push(vec![0; nc]);
                        acc.push(false);
                        q.push_back(id);
                        id
                    }
                };
                tr[i][c] = id;
                let x = if a == D { 0 } else { self.tg[a][c] };
                let y = if b == D { 0 } else { o.tg[b][c] };
                tg[i][c] = tags.union(x, y);
            }
        }
        Dfa { n: st.len(), nc, tr, tg, acc, start: 0 }
    }

    fn live(&self) -> Vec<bool> {
        let mut rev: Vec<Vec<usize>> = vec![vec![]; self.n];
        for q in 0..self.n {
            for c in 0..self.nc {
                let t = self.tr[q][c];
                if t != usize::MAX {
                    rev[t].push(q);
                }
            }
        }
        let mut live = vec![false; self.n];
        let mut stack: Vec<usize> = (0..self.n).filter(|&q| self.acc[q]).collect();
        for &q in &stack {
            live[q] = true;
        }
        while let Some(q) = stack.pop() {
            for &p in &rev[q] {
                if !live[p] {
                    live[p] = true;
                    stack.push(p);
                }
            }
        }
        live
    }

    fn minimize(&self, tags: &mut Tags) -> Dfa {
        let live = self.live();
        if !live[self.start] {
            return Dfa { n: 1, nc: self.nc, tr: vec![vec![usize::MAX; self.nc]], tg: vec![vec![0; self.nc]], acc: vec![false], start: 0 };
        }
        let mut map = vec![usize::MAX; self.n];
        let mut order = vec![];
        let mut q = VecDeque::new();
        map[self.start] = 0;
        order.push(self.start);
        q.push_back(self.start);
        while let Some(s) = q.pop_front() {
            for c in 0..self.nc {
                let t = self.tr[s][c];
                if t != usize::MAX && live[t] && map[t] == usize::MAX {
                    map[t] = order.len();
                    order.push(t);
                    q.push_back(t);
                }
            }
        }
        let n = order.len();
        let mut tr = vec![vec![usize::MAX; self.nc]; n];
        let mut tg = vec![vec![0u32; self.nc]; n];
        let mut acc = vec![false; n];
        for (i, &s) in order.iter().enumerate() {
            acc[i] = self.acc[s];
            for c in 0..self.nc {
                let t = self.tr[s][c];
                if t != usize::MAX && live[t] {
                    tr[i][c] = map[t];
                    tg[i][c] = self.tg[s][c];
                }
            }
        }
        // Moore refinement
        let mut part: Vec<usize> = acc.iter().map(|&a| if a { 1 } else { 0 }).collect();
        let mut nparts = part.iter().copied().collect::<BTreeSet<_>>().len();
        loop {
            let mut sig: HashMap<(usize, Vec<usize>), usize> = HashMap::new();
            let mut np = vec![0usize; n];
            for s in 0..n {
                let key: Vec<usize> = (0..self.nc).map(|c| if tr[s][c] == usize::MAX { usize::MAX } else { part[tr[s][c]] }).collect();
                let l = sig.len();
                let id = *sig.entry((part[s], key)).or_insert(l);
                np[s] = id;
            }
            let newn = sig.len();
            part = np;
            if newn == nparts {
                break;
            }
            nparts = newn;
        }
        let k = nparts;
        let mut tr2 = vec![vec![usize::MAX; self.nc]; k];
        let mut tg2 = vec![vec![0u32; self.nc]; k];
        let mut acc2 = vec![false; k];
        for s in 0..n {
            acc2[part[s]] = acc[s];
            for c in 0..self.nc {
                if tr[s][c] != usize::MAX {
                    tr2[part[s]][c] = part[tr[s][c]];
                    tg2[part[s]][c] = tags.union(tg2[part[s]][c], tg[s][c]);
                }
            }
        }
        Dfa { n: k, nc: self.nc, tr: tr2, tg: tg2, acc: acc2, start: part[0] }
    }

    /// shortest string (as class ids) from state s to an accepting state
    fn completion(&self, s: usize) -> Option<Vec<usize>> {
        let mut prev: HashMap<usize, (usize, usize)> = HashMap::new();
        let mut q = VecDeque::new();
        q.push_back(s);
        let mut seen = vec![false; self.n];
        seen[s] = true;
        while let Some(x) = q.pop_front() {
            if self.acc[x] {
                let mut out = vec![];
                let mut cur = x;
                while cur != s {
                    let (p, c) = prev[&cur];
                    out.push(c);
                    cur = p;
                }
                out.reverse();
                return Some(out);
            }
            for c in 0..self.nc {
                let t = self.tr[x][c];
                if t != usize::MAX && !seen[t] {
                    seen[t] = true;
                    prev.insert(t, (x, c));
                    q.push_back(t);
                }
            }
        }
        None
    }
}

// ---------------------------------------------------------------- symbol class labels
fn class_label(al: &Alphabet, c: usize) -> String {
    let (lo, hi) = al.range(c);
    if lo >= 0x110000 {
        return format!("knot{}", lo - 0x110000);
    }
    let cat = |x: u32| -> &'static str {
        match x {
            0x20 | 0x09 | 0x0A | 0x0D => "blank",
            0x00..=0x1F | 0x7F => "control",
            0x30 => "zero",
            0x31..=0x39 => "digit",
            0x41..=0x46 => "upper-hex",
            0x47..=0x5A => "upper-alpha",
            0x61..=0x66 => "lower-hex",
            0x67..=0x7A => "lower-alpha",
            0x85 | 0xA0 | 0x1680 | 0x2000..=0x200A | 0x2028 | 0x2029 | 0x202F | 0x205F | 0x3000 | 0x0B | 0x0C => "unicode-space",
            0x80..=0x10FFFF => "non-ascii",
            _ => "punct",
        }
    };
    let a = cat(lo);
    if a == "punct" && lo == hi {
        return format!("'{}'", char::from_u32(lo).unwrap_or('?'));
    }
    if matches!(a, "lower-alpha" | "lower-hex" | "upper-alpha" | "upper-hex") && lo == hi {
        return format!("{}:{}", a, char::from_u32(lo).unwrap_or('?'));
    }
    if a == "blank" && lo == hi {
        return format!("blank:U+{:04X}", lo);
    }
    a.to_string()
}

fn rep_char(al: &Alphabet, c: usize) -> u32 {
    al.range(c).0
}

// ---------------------------------------------------------------- comparison
struct Div {
    dir: &'static str,
    tags: Vec<String>,
    class: String,
    witness: Vec<u32>,
    at: usize,
}

fn compare(cx: &mut Ctx, ea: &Js, eb: &Js, names: (&'static str, &'static str)) -> (Vec<Div>, usize, usize, usize) {
    let t0 = std::time::Instant::now();
    let da = compile(cx, ea);
    let t1 = std::time::Instant::now();
    let db = compile(cx, eb);
    let t2 = std::time::Instant::now();
    if std::env::var("VF_TIMING").is_ok() {
        eprintln!("dfa a={} ({:?}) b={} ({:?})", da.n, t1 - t0, db.n, t2 - t1);
    }
    let al = cx.al;
    const D: usize = usize::MAX;
    // minimised DFAs have no dead states: a transition exists iff it can still lead to acceptance
    let mut seen: HashMap<(usize, usize), usize> = HashMap::new();
    let mut nodes: Vec<(usize, usize, usize, usize)> = vec![]; // (a, b, parent, class)
    let mut q = VecDeque::new();
    seen.insert((da.start, db.start), 0);
    nodes.push((da.start, db.start, usize::MAX, 0));
    q.push_back(0usize);
    let mut divs: BTreeMap<(String, String, String), Div> = BTreeMap::new();
    let path = |nodes: &Vec<(usize, usize, usize, usize)>, mut i: usize| -> Vec<u32> {
        let mut out = vec![];
        while nodes[i].2 != usize::MAX {
            out.push(rep_char(al, nodes[i].3));
            i = nodes[i].2;
        }
        out.reverse();
        out
    };
    let a_empty = !da.live()[da.start];
    let b_empty = !db.live()[db.start];
    while let Some(i) = q.pop_front() {
        let (pa, pb, _, _) = nodes[i];
        let acc_a = !a_empty && da.acc[pa];
        let acc_b = !b_empty && db.acc[pb];
        if acc_a != acc_b {
            let dir = if acc_a { names.0 } else { names.1 };
            let tags = vec!["<end>".to_string()];
            let w = path(&nodes, i);
            let key = (dir.to_string(), tags.join("+"), "$end".to_string());
            divs.entry(key).or_insert(Div { dir, tags, class: "$end".into(), witness: w.clone(), at: w.len() });
        }
        for c in 0..al.n() {
            if !al.valid(c) {
                continue;
            }
            let ta = if a_empty { D } else { da.tr[pa][c] };
            let tb = if b_empty { D } else { db.tr[pb][c] };
            let ga = ta != D;
            let gb = tb != D;
            if ga && !gb {
                let tags = cx.tags.show(da.tg[pa][c]);
                let mut w = path(&nodes, i);
                let at = w.len();
                w.push(rep_char(al, c));
                if let Some(comp) = da.completion(ta) {
                    for cc in comp {
                        w.push(rep_char(al, cc));
                    }
                }
                let cl = class_label(al, c);
                let key = (names.0.to_string(), tags.join("+"), cl.clone());
                divs.entry(key).or_insert(Div { dir: names.0, tags, class: cl, witness: w, at });
            } else if gb && !ga {
                let tags = cx.tags.show(db.tg[pb][c]);
                let mut w = path(&nodes, i);
                let at = w.len();
                w.push(rep_char(al, c));
                if let Some(comp) = db.completion(tb) {
                    for cc in comp {
                        w.push(rep_char(al, cc));
                    }
                }
                let cl = class_label(al, c);
                let key = (names.1.to_string(), tags.join("+"), cl.clone());
                divs.entry(key).or_insert(Div { dir: names.1, tags, class: cl, witness: w, at });
            } else if ga && gb {
                if !seen.contains_key(&(ta, tb)) {
                    seen.insert((ta, tb), nodes.len());
                    nodes.push((ta, tb, i, c));
                    q.push_back(nodes.len() - 1);
                }
            }
        }
    }
    (divs.into_values().collect(), da.n, db.n, nodes.len())
}

fn witness_json(w: &[u32]) -> String {
    let mut o = String::from("[");
    for (i, c) in w.iter().enumerate() {
        if i > 0 {
            o.push(',');
        }
        o.push_str(&c.to_string());
    }
    o.push(']');
    o
}

pub fn main(args: &[String]) {
    let src = std::fs::read(&args[0]).expect("read spec");
    let mut p = P { s: &src, i: 0 };
    let spec = p.val();
    let mut cuts = BTreeSet::new();
    cuts.insert(0u32);
    for c in [0x09u32, 0x0A, 0x0B, 0x0D, 0x0E, 0x20, 0x21, 0x30, 0x31, 0x3A, 0x41, 0x47, 0x5B, 0x61, 0x67, 0x7B, 0x7F, 0x80, 0x85, 0x86, 0xA0, 0xA1, 0x1680, 0x1681,
        0x2000, 0x200B, 0x2028, 0x202A, 0x202F, 0x2030, 0x205F, 0x2060, 0x3000, 0x3001, 0xD800, 0xE000, 0x110000, 0x110001, 0x110002, 0x110003, 0x110004] {
        cuts.insert(c);
    }
    collect_cuts(&spec, &mut cuts);
    let cuts: Vec<u32> = cuts.into_iter().filter(|c| *c < MAXSYM).collect();
    let al = Alphabet { cuts };
    let defs: BTreeMap<String, Js> = match spec.get("defs") {
        Js::Obj(m) => m.clone(),
        _ => BTreeMap::new(),
    };
    let mut cx = Ctx { al: &al, defs: &defs, tags: Tags::new(), memo: HashMap::new() };
    let mut out = String::from("{");
    out.push_str(&format!("\"classes\":{},", al.n()));
    out.push_str("\"compare\":[");
    for (i, c) in spec.get("compare").arr().iter().enumerate() {
        if i > 0 {
            out.push(',');
        }
        let (divs, sa, sb, prod) = compare(&mut cx, c.get("impl"), c.get("rfc"), ("impl-only", "rfc-only"));
        out.push_str(&format!("{{\"id\":{},\"impl_states\":{},\"rfc_states\":{},\"product_states\":{},\"divergences\":[", jstr(c.get("id").str()), sa, sb, prod));
        for (j, d) in divs.iter().enumerate() {
            if j > 0 {
                out.push(',');
            }
            let tags: Vec<String> = d.tags.iter().map(|t| jstr(t)).collect();
            out.push_str(&format!(
                "{{\"dir\":{},\"tags\":[{}],\"class\":{},\"witness\":{},\"at\":{}}}",
                jstr(d.dir),
                tags.join(","),
                jstr(&d.class),
                witness_json(&d.witness),
                d.at
            ));
        }
        out.push_str("]}");
    }
    out.push_str("],\"equiv\":[");
    for (i, c) in spec.get("equiv").arr().iter().enumerate() {
        if i > 0 {
            out.push(',');
        }
        let (divs, _, _, prod) = compare(&mut cx, c.get("a"), c.get("b"), ("a-only", "b-only"));
        out.push_str(&format!("{{\"id\":{},\"product_states\":{},\"equal\":{},\"witness\":{},\"dir\":{}}}", jstr(c.get("id").str()), prod, divs.is_empty(),
            divs.first().map(|d| witness_json(&d.witness)).unwrap_or("null".into()), jstr(divs.first().map(|d| d.dir).unwrap_or(""))));
    }
    out.push_str("],\"overlap\":[");
    for (i, c) in spec.get("overlap").arr().iter().enumerate() {
        if i > 0 {
            out.push(',');
        }
        // L(a).Sigma* ∩ L(b).Sigma*  : first the minimal DFAs, then "accept as soon as an accepting state was seen"
        let da = compile(&mut cx, c.get("a"));
        let db = compile(&mut cx, c.get("b"));
        // BFS over pairs with sticky acceptance flags
        let mut seen: HashMap<(usize, usize, bool, bool), usize> = HashMap::new();
        let mut nodes: Vec<(usize, usize, bool, bool, usize, usize)> = vec![];
        let mut q = VecDeque::new();
        let ea = !da.live()[da.start];
        let eb = !db.live()[db.start];
        let mut found: Option<usize> = None;
        if !ea && !eb {
            let s = (da.start, db.start, da.acc[da.start], db.acc[db.start]);
            seen.insert(s, 0);
            nodes.push((s.0, s.1, s.2, s.3, usize::MAX, 0));
            q.push_back(0usize);
        }
        const D: usize = usize::MAX;
        while let Some(i) = q.pop_front() {
            let (pa, pb, fa, fb, _, _) = nodes[i];
            if fa && fb {
                found = Some(i);
                break;
            }
            for cl in 0..al.n() {
                if !al.valid(cl) {
                    continue;
                }
                let ta = if fa { pa } else if pa == D { D } else { da.tr[pa][cl] };
                let tb = if fb { pb } else if pb == D { D } else { db.tr[pb][cl] };
                if (!fa && ta == D) || (!fb && tb == D) {
                    continue;
                }
                let nfa_ = fa || da.acc[ta];
                let nfb_ = fb || db.acc[tb];
                let key = (if nfa_ { 0 } else { ta }, if nfb_ { 0 } else { tb }, nfa_, nfb_);
                if !seen.contains_key(&key) {
                    seen.insert(key, nodes.len());
                    nodes.push((ta, tb, nfa_, nfb_, i, cl));
                    q.push_back(nodes.len() - 1);
                }
            }
        }
        match found {
            Some(mut i) => {
                let mut w = vec![];
                while nodes[i].4 != usize::MAX {
                    w.push(rep_char(&al, nodes[i].5));
                    i = nodes[i].4;
                }
                w.reverse();
                out.push_str(&format!("{{\"id\":{},\"overlap\":true,\"witness\":{}}}", jstr(c.get("id").str()), witness_json(&w)));
            }
            None => out.push_str(&format!("{{\"id\":{},\"overlap\":false,\"witness\":null}}", jstr(c.get("id").str()))),
        }
    }
    out.push_str("],\"facts\":[");
    for (i, c) in spec.get("facts").arr().iter().enumerate() {
        if i > 0 {
            out.push(',');
        }
        let d = compile(&mut cx, c.get("e"));
        let empty = !d.live()[d.start];
        let minlen = if empty { -1 } else { d.completion(d.start).map(|w| w.len() as i64).unwrap_or(-1) };
        let mut first = BTreeSet::new();
        let mut last = BTreeSet::new();
        if !empty {
            for cl in 0..al.n() {
                if d.tr[d.start][cl] != usize::MAX {
                    first.insert(class_label(&al, cl));
                }
            }
            for q in 0..d.n {
                for cl in 0..al.n() {
                    let t = d.tr[q][cl];
                    if t != usize::MAX && d.acc[t] {
                        last.insert(class_label(&al, cl));
                    }
                }
            }
        }
        let f: Vec<String> = first.iter().map(|x| jstr(x)).collect();
        let l: Vec<String> = last.iter().map(|x| jstr(x)).collect();
        out.push_str(&format!("{{\"id\":{},\"states\":{},\"min_len\":{},\"nullable\":{},\"first\":[{}],\"last\":[{}]}}", jstr(c.get("id").str()), d.n, minlen, !empty && d.acc[d.start], f.join(","), l.join(",")));
    }
    out.push_str("]}");
    println!("{}", out);
}
