"""C04 -- filter comparisons follow the RFC 9535 comparison rules."""
import re
from vflib import thir as T, tables
from vflib.terms import Evaluator, Tm, subterms
from spec import tables as SPEC
from rules import shared

META = {
    "level": "other",
    "explanation": (
        "Table agreement + truth-source rules on the resolved program. R1: operator token -> Comparison variant "
        "(match table of try_new) composed with variant -> formula (match table of <Comparison as Query>::process) "
        "equals RFC 9535's table over one `eq` and one `lt` (compared as formulas, eq symmetric, lt ordered); "
        "`lt`/`eq` identified by role (answer on (Nothing,Nothing)). R2: every way `lt` can answer true is an "
        "ordered `<` of the numeric views of left and right, or of their string views, in that order. R3: outcome "
        "table of `eq` over {Value,Ref,Nothing}^2. R4: number equality is `==` of the two numeric views (no tolerance "
        "arithmetic). R5: comparables never evaluate to a multi-node list (constructors census), so the Refs arms of "
        "eq/lt are dead. R6: census of equality delegated to T: PartialEq. Not decided: that f64 `<`/`==` on converted "
        "values is mathematical order for |n| > 2^53; deep equality of arrays/objects (delegated to the data type)."),
    "trusted_base": ["rustc nightly THIR", "vf driver + rules", "spec/tables.py (RFC 9535 2.3.5.2.2 transcription)"],
    "assumptions": ["f64 comparison of i64->f64 converted values is exact within the I-JSON range"],
    "not_decided": ["value-level equality/order of all JSON pairs", "exactness of i64->f64 beyond 2^53",
                    "deep equality semantics of arrays/objects (T: PartialEq)"],
}
META["explanation"] += " R7 value equality never uses Queryable::get. R8 the reference implementor's as_f64/as_i64/as_str/as_bool are unconditional delegations to serde_json."
META["explanation"] += ' R9 literals denote exactly the value written (shared literal-exactness rule).'

QT = "crate::query::queryable::Queryable"
CMP_PROC = None


def run(ctx, rep):
    prog = ctx.prog
    ev = Evaluator(prog)
    roles = find_roles(prog, ev, rep)
    if roles is None:
        return
    lt_fn, eq_fn, proc = roles
    r1(prog, ev, rep, lt_fn, eq_fn, proc)
    r2(prog, ev, rep, lt_fn)
    helper = r3(prog, ev, rep, eq_fn)
    if helper:
        r4(prog, ev, rep, helper)
        r6(prog, ev, rep, helper, eq_fn)
    r5(prog, ev, rep)
    if helper:
        r7(prog, ev, rep, helper)
    r8(prog, ev, rep)
    shared.literal_exact(prog, ev, rep, "C04-R9")


# ------------------------------------------------------------------------------------------- roles
def data_shapes():
    return ["Ref", "Refs", "Value", "Nothing"]


def state_pair_table(prog, ev, fn):
    """For a fn(State, State) -> bool : {(lv, rv): body term} using its top-level match on (l.data, r.data)."""
    t = ev.summary(fn)
    if t.k != "match":
        return None, t
    scrut = t.a[0]
    arms = t.a[1]
    out = {}
    nf = dict(tables.variants_of(prog, "crate::query::state::Data"))
    for lv in data_shapes():
        for rv in data_shapes():
            shape = ("t", [("v", lv, [tables.ANY] * nf[lv]), ("v", rv, [tables.ANY] * nf[rv])])
            sel = tables.select(arms, shape)
            out[(lv, rv)] = [(arms[i][2], how) for i, how in sel]
    return out, t


def find_roles(prog, ev, rep):
    proc = prog.impl_method("crate::query::Query", "crate::parser::model::Comparison", "process")
    cands = []
    for name, node in prog.callees(proc):
        it = prog.items.get(name)
        if not it or it["kind"] != "Fn":
            continue
        ins = it.get("inputs_s", [])
        if len(ins) == 2 and all(s.startswith("crate::query::state::State<") for s in ins) and it.get("output_s") == "bool":
            if name not in cands:
                cands.append(name)
    lt_fn = eq_fn = None
    for c in cands:
        tab, t = state_pair_table(prog, ev, c)
        if tab is None:
            continue
        nn = tab[("Nothing", "Nothing")]
        if len(nn) == 1 and nn[0][0].k == "lit":
            if nn[0][0].a[1] == "true":
                eq_fn = c if eq_fn is None else "ambiguous"
            elif nn[0][0].a[1] == "false":
                lt_fn = c if lt_fn is None else "ambiguous"
    if not lt_fn or not eq_fn or "ambiguous" in (lt_fn, eq_fn):
        rep.unrecognised("C04-R1", "roles", prog.loc_of(proc),
                         "could not identify exactly one `eq` (true on two empty results) and one `lt` (false on them) among "
                         "the (State,State)->bool helpers of Comparison::process: candidates %s" % cands)
        return None
    return lt_fn, eq_fn, proc


# ------------------------------------------------------------------------------------------- R1
def formula(t, lt_fn, eq_fn, L, R):
    """bool term -> set of atoms (disjunction) or None"""
    if t.k == "logic" and t.a[0] == "Or":
        a, b = formula(t.a[1], lt_fn, eq_fn, L, R), formula(t.a[2], lt_fn, eq_fn, L, R)
        if a is None or b is None:
            return None
        return a | b
    if t.k == "un" and t.a[0] == "Not":
        inner = formula(t.a[1], lt_fn, eq_fn, L, R)
        if inner == {"eq"}:
            return {"!eq"}
        return None
    if t.k == "call" and t.a[0] == eq_fn and len(t.a) == 3:
        if {t.a[1], t.a[2]} == {L, R} and t.a[1] != t.a[2]:
            return {"eq"}
        return None
    if t.k == "call" and t.a[0] == lt_fn and len(t.a) == 3:
        if (t.a[1], t.a[2]) == (L, R):
            return {"lt(L,R)"}
        if (t.a[1], t.a[2]) == (R, L):
            return {"lt(R,L)"}
        return None
    return None


def r1(prog, ev, rep, lt_fn, eq_fn, proc):
    rep.rule("C04-R1", "operator table: token -> variant (Comparison::try_new) composed with variant -> formula over "
             "lt/eq (<Comparison as Query>::process, operands from vals() in written order) equals RFC 9535's table", floor=6 + 6 + 1)
    tn = prog.inherent_method("crate::parser::model::Comparison", "try_new")
    t = ev.summary(tn)
    if t.k != "match" or not (t.a[0].k == "param" and t.a[0].a[0] == 0):
        rep.unrecognised("C04-R1", "try_new", prog.loc_of(tn), "not a match on the operator string: %s" % t)
        return
    arms = t.a[1]
    tok2var = {}
    toks = tables.str_constants(arms)
    for tok in toks + [None]:
        shape = ("s", tok) if tok is not None else ("s*",)
        sel = tables.select(arms, shape)
        key = "try_new/%s" % (tok if tok is not None else "<other>")
        if len(sel) != 1 or sel[0][1] != "definite":
            rep.unrecognised("C04-R1", key, prog.loc_of(tn), "arm selection not unique: %s" % sel)
            continue
        body = arms[sel[0][0]][2]
        if tok is None or tok not in SPEC.COMPARISON:
            good = body.k == "adt" and body.a[1] == "Err"
            rep.check(good, "C04-R1", key, prog.loc_of(tn), "rejected", "operator `%s` outside the RFC's six is accepted: %s" % (tok, body))
            continue
        ok = body.k == "adt" and body.a[1] == "Ok"
        inner = body.a[2][0][1] if ok else None
        if not (ok and inner.k == "adt" and inner.a[0] == "crate::parser::model::Comparison"):
            rep.bad("C04-R1", key, prog.loc_of(tn), "RFC operator `%s` does not construct a Comparison: %s" % (tok, body))
            continue
        f = dict(inner.a[2])
        inorder = f.get("0") == Tm("param", (1, "left")) or (f.get("0") is not None and f["0"].k == "param" and f["0"].a[0] == 1)
        inorder = inorder and f.get("1") is not None and f["1"].k == "param" and f["1"].a[0] == 2
        rep.check(inorder, "C04-R1", key, prog.loc_of(tn), "%s -> Comparison::%s(left, right)" % (tok, inner.a[1]),
                  "operands of `%s` are not stored in written order: %s" % (tok, inner))
        tok2var[tok] = inner.a[1]
    missing = [k for k in SPEC.COMPARISON if k not in tok2var]
    if missing:
        rep.bad("C04-R1", "try_new/missing", prog.loc_of(tn), "RFC operators not accepted: %s" % missing)
    # vals(): fields in order for each variant
    vp = prog.inherent_method("crate::parser::model::Comparison", "vals")
    vt = ev.summary(vp)
    variants = tables.variants_of(prog, "crate::parser::model::Comparison") or []
    for vn, nf in variants:
        sel = tables.select(vt.a[1], ("v", vn, [tables.ANY] * nf)) if vt.k == "match" else []
        key = "vals/%s" % vn
        if len(sel) != 1:
            rep.unrecognised("C04-R1", key, prog.loc_of(vp), "vals() is not a match selecting one arm per variant")
            continue
        body = vt.a[1][sel[0][0]][2]
        good = (body.k == "tuple" and len(body.a) == 2 and body.a[0].k == "proj" and body.a[0].a[1] == "Comparison::%s.0" % vn
                and body.a[1].k == "proj" and body.a[1].a[1] == "Comparison::%s.1" % vn)
        rep.check(good, "C04-R1", key, prog.loc_of(vp), "(field 0, field 1)", "vals() of %s returns %s (operands swapped or mixed)" % (vn, body))
    # process: variant -> formula
    pt = ev.summary(proc)
    # `f(match S {.. => x}, y)` is `match S {.. => f(x, y)}`: a result built once around a match on the variant
    for _ in range(3):
        if pt.k == "call" and len(pt.a) >= 2:
            idx = [i for i, a_ in enumerate(pt.a[1:], 1) if isinstance(a_, Tm) and a_.k == "match"]
            if len(idx) == 1:
                i = idx[0]
                m_ = pt.a[i]
                pt = Tm("match", (m_.a[0], tuple((p_, g_, Tm("call", pt.a[:i] + (b_,) + pt.a[i + 1:], pt.n)) for p_, g_, b_ in m_.a[1])), m_.n)
                continue
        break
    if pt.k != "match":
        rep.unrecognised("C04-R1", "process", prog.loc_of(proc), "not a match on the comparison variant")
        return
    cproc = "crate::query::comparable::<impl crate::query::Query for crate::parser::model::Comparable>::process"
    selfp = pt.a[0]
    vals = Tm("call", (vp, selfp))
    st = Tm("param", (1, "state"))
    L = Tm("call", (cproc, Tm("field", (vals, "0")), st))
    R = Tm("call", (cproc, Tm("field", (vals, "1")), st))
    var2formula = {}
    for vn, nf in variants:
        sel = tables.select(pt.a[1], ("v", vn, [tables.ANY] * nf))
        key = "process/%s" % vn
        if len(sel) != 1 or sel[0][1] != "definite":
            rep.unrecognised("C04-R1", key, prog.loc_of(proc), "arm selection not unique")
            continue
        body = pt.a[1][sel[0][0]][2]
        if not (body.k == "call" and body.a[0].endswith("State::<'a, T>::bool") and len(body.a) == 3):
            rep.unrecognised("C04-R1", key, prog.loc_of(proc), "result is not State::bool(formula, root): %s" % body)
            continue
        fm = formula(body.a[1], lt_fn, eq_fn, L, R)
        if fm is None:
            rep.unrecognised("C04-R1", key, prog.loc_of(proc),
                             "formula is not a disjunction of eq(L,R) / lt(L,R) / lt(R,L) / !eq over the two operands "
                             "evaluated against the same state: %s" % body.a[1])
            continue
        var2formula[vn] = fm
    for tok, want in SPEC.COMPARISON.items():
        vn = tok2var.get(tok)
        if vn is None or vn not in var2formula:
            continue
        got = var2formula[vn]
        rep.check(got == want, "C04-R1", "table/%s" % tok, prog.loc_of(proc),
                  "`%s` = %s" % (tok, " or ".join(sorted(want))),
                  "`%s` (variant %s) computes `%s`, RFC 9535 requires `%s`" % (tok, vn, " or ".join(sorted(got)), " or ".join(sorted(want))))
    # both operands are evaluated against the incoming state (checked implicitly by L/R above)


# ------------------------------------------------------------------------------------------- R2
def operand_values(side):
    """terms for the inner value of a State parameter per Data variant"""
    p = Tm("param", (0 if side == "L" else 1, None))
    return p


def leaves_with(t):
    """All result leaves of nested if/match (conditions are not leaves)."""
    out = []
    stack = [t]
    while stack:
        x = stack.pop()
        if x.k == "if":
            stack.extend([x.a[1], x.a[2]])
        elif x.k == "match":
            for p, g, b in x.a[1]:
                stack.append(b)
        elif x.k == "phi":
            stack.extend(x.a)
        else:
            out.append(x)
    return out


def accessor_calls(t):
    """[(accessor name, argument term)] for Queryable accessor calls inside t (closures applied by the caller)."""
    out = []
    for x in subterms(t):
        if x.k == "call" and x.a[0].startswith(QT + "::") and len(x.a) >= 2:
            out.append((x.a[0].rsplit("::", 1)[1], x.a[1]))
    return out


def expand_closures(ev, t, depth=0):
    """Replace Option::or_else/map/and_then(opt, closure) by the closure's body applied to a placeholder so that
    accessor calls inside become visible as sub-terms."""
    if not isinstance(t, Tm) or depth > 8:
        return t
    if t.k == "call":
        args = [expand_closures(ev, a, depth + 1) if isinstance(a, Tm) else a for a in t.a[1:]]
        new = []
        for a in args:
            if isinstance(a, Tm) and a.k == "closure":
                body = ev.apply(a, [Tm("proj", (args[0] if args and isinstance(args[0], Tm) else Tm("opaque", ("x",)), "item"))], 0)
                new.append(expand_closures(ev, body, depth + 1))
            else:
                new.append(a)
        return Tm("call", (t.a[0],) + tuple(new), t.n)
    if t.k in ("proj", "field"):
        return Tm(t.k, (expand_closures(ev, t.a[0], depth + 1), t.a[1]), t.n)
    if t.k in ("tuple", "array", "phi"):
        return Tm(t.k, [expand_closures(ev, a, depth + 1) for a in t.a], t.n)
    if t.k in ("bin", "logic"):
        return Tm(t.k, (t.a[0], expand_closures(ev, t.a[1], depth + 1), expand_closures(ev, t.a[2], depth + 1)), t.n)
    if t.k in ("un", "cast"):
        return Tm(t.k, (t.a[0], expand_closures(ev, t.a[1], depth + 1)), t.n)
    if t.k == "if":
        return Tm("if", [expand_closures(ev, a, depth + 1) for a in t.a], t.n)
    if t.k == "match":
        return Tm("match", (expand_closures(ev, t.a[0], depth + 1),
                            tuple((p, expand_closures(ev, g, depth + 1) if g is not None else None, expand_closures(ev, b, depth + 1)) for p, g, b in t.a[1])), t.n)
    return t


def view_of(t):
    """-> (kind, {argument terms}) where kind in {'num','str','bool','other',None}"""
    acc = accessor_calls(t)
    if not acc:
        return None, set()
    names = {a for a, _ in acc}
    args = {x for _, x in acc}
    if names <= {"as_f64", "as_i64"}:
        return "num", args
    if names == {"as_str"}:
        return "str", args
    if names == {"as_bool"}:
        return "bool", args
    return "other", args


def inner_value(state_param, variant):
    d = Tm("field", (state_param, "data"))
    if variant == "Value":
        return Tm("proj", (d, "Data::Value.0"))
    if variant == "Ref":
        return Tm("field", (Tm("proj", (d, "Data::Ref.0")), "inner"))
    return None


def r2(prog, ev, rep, lt_fn):
    rep.rule("C04-R2", "truth sources of `lt`: every result leaf is `false`, or `<` between the numeric views "
             "(as_f64/as_i64) of left and right in that order, or `<` between their string views; only "
             "{Value,Ref}x{Value,Ref} shapes can answer true", floor=16)
    tab, t = state_pair_table(prog, ev, lt_fn)
    if tab is None:
        rep.unrecognised("C04-R2", "lt", prog.loc_of(lt_fn), "lt is not a match over the two states' data")
        return
    it = prog.items[lt_fn]
    lp = Tm("param", (0, _pname(prog, lt_fn, 0)))
    rp = Tm("param", (1, _pname(prog, lt_fn, 1)))
    for (lv, rv), bodies in sorted(tab.items()):
        key = "lt/(%s,%s)" % (lv, rv)
        if len(bodies) != 1:
            rep.unrecognised("C04-R2", key, prog.loc_of(lt_fn), "guarded arms: cannot tabulate")
            continue
        body = expand_closures(ev, bodies[0][0])
        if lv in ("Value", "Ref") and rv in ("Value", "Ref"):
            x, y = inner_value(lp, lv), inner_value(rp, rv)
            probs = []
            nontrivial = 0
            for leaf in leaves_with(body):
                pr = classify_lt_leaf(leaf, x, y)
                if pr == "false":
                    continue
                if pr == "ok":
                    nontrivial += 1
                    continue
                probs.append(pr)
            if probs:
                rep.bad("C04-R2", key, prog.loc_of(lt_fn), "; ".join(probs))
            elif nontrivial < 2:
                rep.bad("C04-R2", key, prog.loc_of(lt_fn),
                        "`lt` must be able to answer through a numeric `<` and a string `<` for this shape, found %d ordered comparison leaf/leaves" % nontrivial)
            else:
                rep.ok("C04-R2", key, prog.loc_of(lt_fn), "numeric `<` and string `<` on (left, right)")
        else:
            good = all(l.k == "lit" and l.a[1] == "false" for l in leaves_with(body))
            rep.check(good, "C04-R2", key, prog.loc_of(lt_fn), "false",
                      "`<` can hold when a side is %s/%s (empty result or node list): %s" % (lv, rv, body))


def _pname(prog, fn, i):
    pat = prog.params(fn)[i].get("pat") or {}
    while pat.get("k") in ("Deref", "DerefPattern"):
        pat = pat["sub"]
    return pat.get("name", "arg%d" % i)


def classify_lt_leaf(leaf, x, y):
    if leaf.k == "lit" and leaf.a[0] == "bool":
        return "false" if leaf.a[1] == "false" else "a constant `true` answer"
    a = b = None
    if leaf.k == "bin" and leaf.a[0] in ("Lt", "Gt"):
        a, b = leaf.a[1], leaf.a[2]
        if leaf.a[0] == "Gt":
            a, b = b, a
    elif leaf.k == "call" and leaf.a[0].endswith("::lt") and "PartialOrd" in leaf.a[0] and len(leaf.a) == 3:
        a, b = leaf.a[1], leaf.a[2]
    elif leaf.k == "call" and leaf.a[0].endswith("::gt") and "PartialOrd" in leaf.a[0] and len(leaf.a) == 3:
        b, a = leaf.a[1], leaf.a[2]
    elif leaf.k == "bin" and leaf.a[0] == "Eq" and _is_less(leaf.a[2]) and _is_cmp_call(leaf.a[1]):
        a, b = leaf.a[1].a[1], leaf.a[1].a[2]
    else:
        return "result `%s` is not an ordered `<` comparison (e.g. `<=`, a boolean, or another operator)" % leaf
    ka, xa = view_of(a)
    kb, xb = view_of(b)
    if ka != kb or ka not in ("num", "str"):
        return "`<` compares a %s view with a %s view (`%s` < `%s`)" % (ka, kb, a, b)
    if xa != {x} or xb != {y}:
        return "`<` does not compare (left, right) in that order: left operand reads %s, right operand reads %s" % (
            sorted(map(str, xa)), sorted(map(str, xb)))
    return "ok"


def _is_less(t):
    return t.k in ("adt", "const") and "Less" in str(t.a)


def _is_cmp_call(t):
    return t.k == "call" and (t.a[0].endswith("::partial_cmp") or t.a[0].endswith("::cmp")) and len(t.a) == 3


# ------------------------------------------------------------------------------------------- R3
def r3(prog, ev, rep, eq_fn):
    rep.rule("C04-R3", "`eq` outcome table: {Value,Ref}^2 -> one value-equality helper on the two values; "
             "(Nothing,Nothing) -> true; exactly one Nothing -> false", floor=9)
    tab, t = state_pair_table(prog, ev, eq_fn)
    if tab is None:
        rep.unrecognised("C04-R3", "eq", prog.loc_of(eq_fn), "eq is not a match over the two states' data")
        return None
    lp = Tm("param", (0, _pname(prog, eq_fn, 0)))
    rp = Tm("param", (1, _pname(prog, eq_fn, 1)))
    helpers = set()
    for lv in ("Value", "Ref", "Nothing"):
        for rv in ("Value", "Ref", "Nothing"):
            bodies = tab[(lv, rv)]
            key = "eq/(%s,%s)" % (lv, rv)
            if len(bodies) != 1:
                rep.unrecognised("C04-R3", key, prog.loc_of(eq_fn), "guarded arms: cannot tabulate")
                continue
            body = bodies[0][0]
            if lv == "Nothing" and rv == "Nothing":
                rep.check(body.k == "lit" and body.a[1] == "true", "C04-R3", key, prog.loc_of(eq_fn), "true",
                          "two empty results must compare equal, found `%s`" % body)
            elif "Nothing" in (lv, rv):
                rep.check(body.k == "lit" and body.a[1] == "false", "C04-R3", key, prog.loc_of(eq_fn), "false",
                          "an empty result must never equal a value, found `%s`" % body)
            else:
                x, y = inner_value(lp, lv), inner_value(rp, rv)
                good = (body.k == "call" and body.a[0] in prog.bodies and len(body.a) == 3 and {body.a[1], body.a[2]} == {x, y})
                if good:
                    helpers.add(body.a[0])
                rep.check(good, "C04-R3", key, prog.loc_of(eq_fn), "value_eq(left value, right value)",
                          "expected the value-equality helper applied to the two values, found `%s`" % body)
    if len(helpers) != 1:
        rep.bad("C04-R3", "eq/helper", prog.loc_of(eq_fn), "the four value/node shapes use %d different helpers: %s" % (len(helpers), sorted(helpers)))
        return None
    return helpers.pop()


# ------------------------------------------------------------------------------------------- R4
ARITH = {"Sub", "Add", "Mul", "Div", "Rem"}


def r4(prog, ev, rep, helper):
    rep.rule("C04-R4", "number equality is comparison: where both numeric views exist the result is `==` of the two "
             "numbers (no subtraction, abs, tolerance constant)", floor=1)
    t = expand_closures(ev, ev.summary(helper))
    a0 = Tm("param", (0, _pname(prog, helper, 0)))
    a1 = Tm("param", (1, _pname(prog, helper, 1)))
    found = False
    for x in subterms(t):
        if x.k != "match":
            continue
        kx, ax = view_of(x.a[0])
        if kx != "num" or ax != {a0, a1}:
            continue
        # the arm taken when both views are Some
        sel = tables.select(x.a[1], ("t", [("v", "Some", [tables.ANY]), ("v", "Some", [tables.ANY])]))
        if not sel:
            continue
        found = True
        body = x.a[1][sel[0][0]][2]
        problems = []
        for leaf in leaves_with(body):
            ops = [s for s in subterms(leaf) if (s.k == "bin" and s.a[0] in ARITH) or (s.k == "call" and s.a[0].endswith("::abs"))
                   or (s.k == "const" and "EPSILON" in s.a[0]) or (s.k == "lit" and s.a[0] == "float")]
            is_eq = (leaf.k == "bin" and leaf.a[0] == "Eq") or (leaf.k == "call" and leaf.a[0].endswith("::eq") and "PartialEq" in leaf.a[0]) \
                or (leaf.k == "bin" and leaf.a[0] == "Eq" and _is_cmp_call(leaf.a[1]))
            if ops:
                problems.append("numeric equality is computed with arithmetic/tolerance (`%s`): distinct numbers closer than the "
                                "tolerance compare equal" % leaf)
            elif not is_eq:
                problems.append("numeric equality leaf `%s` is not an `==` of the two numbers" % leaf)
            else:
                ka, xa = view_of(leaf.a[1]); kb, xb = view_of(leaf.a[2])
                if not (ka == kb == "num" and xa | xb == {a0, a1} and xa != xb):
                    problems.append("`==` does not compare the numeric views of the two operands: `%s`" % leaf)
        if problems and all("is not an `==`" in p_ for p_ in problems) and _loopy(t):
            rep.unrecognised("C04-R4", "%s|numeric-eq" % shared.rk(prog, ev, helper), prog.loc_of(helper),
                             "the helper has early exits inside loops whose values could not be separated from the numeric branch: " + "; ".join(problems))
        else:
            rep.check(not problems, "C04-R4", "%s|numeric-eq" % shared.rk(prog, ev, helper), prog.loc_of(helper), "== of the two numeric views", "; ".join(problems))
    if not found:
        rep.unrecognised("C04-R4", "%s|numeric-eq" % shared.rk(prog, ev, helper), prog.loc_of(helper),
                         "no branch on `both operands have a numeric view (as_f64/as_i64)` found in the value-equality helper: "
                         "1 == 1.0 cannot hold")


# ------------------------------------------------------------------------------------------- R5
def comparable_constructors(prog):
    """families that produce the value of a comparable -> must not construct a multi-node list"""
    out = {}
    lit = prog.impl_method("crate::query::Query", "crate::parser::model::Literal", "process")
    out["Literal::process"] = (prog.family(lit), {"Value"})
    sq = prog.impl_method("crate::query::Query", "crate::parser::model::SingularQuerySegment", "process")
    fams = list(prog.family(sq))
    for name, node in prog.callees(sq) + [c for p in prog.closures_in(sq) for c in prog.callees(p)]:
        if name in prog.bodies and name.startswith("crate::query::selector::"):
            fams.extend(prog.family(name))
    out["SingularQuerySegment::process"] = (sorted(set(fams)), {"Ref", "Nothing"})
    return out


def data_constructions(prog, bodies):
    """[(variant, node, body)] for every construction of a Data value in these bodies"""
    out = []
    for p in bodies:
        for x in T.walk(prog.bodies[p]["thir"]["root"]):
            if x.get("k") == "Adt" and x.get("adt") == "crate::query::state::Data":
                out.append((x["variant"], x, p))
            elif x.get("k") == "Call":
                fn = x.get("fn") or ""
                if fn.endswith("Data::<'a, T>::new_ref"):
                    out.append(("Ref", x, p))
                elif fn.endswith("Data::<'a, T>::new_refs"):
                    out.append(("Refs", x, p))
                elif fn.endswith("unwrap_or_default") and "Data<" in (x.get("ty") or ""):
                    out.append(("Nothing", x, p))
                elif fn == "core::default::Default::default" and "Data<" in (x.get("ty") or ""):
                    out.append(("Nothing", x, p))
    return out


def r5(prog, ev, rep):
    rep.rule("C04-R5", "comparables never evaluate to a multi-node list: literals build Data::Value, singular-query "
             "steps build Ref/Nothing only, comparable functions (is_comparable) build Value/Ref/Nothing only; "
             "Data::flat_map on a single Ref returns the callee's result unchanged", floor=6)
    cons = comparable_constructors(prog)
    for name, (bodies, allowed) in cons.items():
        found = data_constructions(prog, bodies)
        if not found:
            rep.unrecognised("C04-R5", name, "-", "no Data construction found in %d bodies" % len(bodies))
        for v, node, p in found:
            rep.check(v in allowed, "C04-R5", "%s|Data::%s@%s" % (name, v, prog.owner_fn(p)), T.loc(node),
                      "constructs Data::%s" % v, "%s can construct Data::%s: a comparable could carry %s" % (name, v, "a node list" if v == "Refs" else v))
    # comparable functions
    tfp = prog.inherent_method("crate::parser::model::TestFunction", "is_comparable")
    t = ev.summary(tfp)
    comparable = []
    for vn, nf in tables.variants_of(prog, "crate::parser::model::TestFunction") or []:
        sel = tables.select(t.a[1], ("v", vn, [tables.ANY] * nf)) if t.k == "match" else []
        if len(sel) == 1 and t.a[1][sel[0][0]][2].k == "lit":
            if t.a[1][sel[0][0]][2].a[1] == "true":
                comparable.append(vn)
        else:
            rep.unrecognised("C04-R5", "is_comparable/%s" % vn, prog.loc_of(tfp), "not a constant per variant")
    ap = prog.inherent_method("crate::parser::model::TestFunction", "apply")
    at = ev.summary(ap)
    for vn in comparable:
        nf = dict(tables.variants_of(prog, "crate::parser::model::TestFunction"))[vn]
        sel = tables.select(at.a[1], ("v", vn, [tables.ANY] * nf)) if at.k == "match" else []
        if len(sel) != 1:
            rep.unrecognised("C04-R5", "apply/%s" % vn, prog.loc_of(ap), "no unique arm")
            continue
        body = at.a[1][sel[0][0]][2]
        if body.k != "call" or body.a[0] not in prog.bodies:
            rep.unrecognised("C04-R5", "apply/%s" % vn, prog.loc_of(ap), "arm does not call a local function: %s" % body)
            continue
        fam = prog.family(body.a[0])
        bad = [(v, node, p) for v, node, p in data_constructions(prog, fam) if v == "Refs"]
        rep.check(not bad, "C04-R5", "fn:%s" % vn, prog.loc_of(body.a[0]), "%s() yields Value/Ref/Nothing" % vn.lower(),
                  "comparable function %s can yield a node list (Data::Refs) at %s" % (vn, [T.loc(n) for _, n, _ in bad]))
    # Data::flat_map(Ref(p), f) == f(p)
    fm = prog.inherent_method("crate::query::state::Data", "flat_map")
    ft = ev.summary(fm)
    good = False
    if ft.k == "match":
        sel = tables.select(ft.a[1], ("v", "Ref", [tables.ANY]))
        if len(sel) == 1:
            body = ft.a[1][sel[0][0]][2]
            good = body.k == "call" and body.a[0] == "<apply>" and body.a[1].k == "param" and body.a[1].a[0] == 1 \
                and body.a[2] == Tm("proj", (ft.a[0], "Data::Ref.0"))
    rep.check(good, "C04-R5", "Data::flat_map/Ref", prog.loc_of(fm), "f(data)", "flat_map over a single node does not return f(node) unchanged")


def comparables_never_refs(prog, ev):
    """used by C15: True iff R5 holds (silent re-evaluation)"""
    from vflib.report import Report
    r = Report("tmp")
    r5(prog, ev, r)
    return all(i["status"] == "ok" for i in r.instances)


# ------------------------------------------------------------------------------------------- R8
def r8(prog, ev, rep):
    rep.rule("C04-R8", "the views comparisons read are total for the reference document type: `impl Queryable for serde_json::Value` "
             "answers as_f64 / as_i64 / as_str / as_bool by delegating unconditionally to serde_json's accessor of the same name "
             "(serde_json's as_f64 answers every number, also u64 beyond i64::MAX)", floor=4)
    VALT = "serde_json::value::Value"
    for m in ("as_f64", "as_i64", "as_str", "as_bool"):
        try:
            p = prog.impl_method(QT, VALT, m)
        except Exception:
            rep.unrecognised("C04-R8", "Value::%s" % m, "-", "impl method not found")
            continue
        t = ev.summary(p)
        ok = t.k == "call" and t.a[0] == "%s::%s" % (VALT, m) and len(t.a) == 2 and t.a[1].k == "param" and t.a[1].a[0] == 0
        rep.check(ok, "C04-R8", "Value::%s" % m, prog.loc_of(p), "serde_json::Value::%s(self)" % m,
                  "`<Value as Queryable>::%s` is `%s`, not a plain delegation: some JSON values lose this view (a number that answers "
                  "neither as_f64 nor as_i64 compares false with everything, itself included)" % (m, str(t)[:200]))


# ------------------------------------------------------------------------------------------- R7
def r7(prog, ev, rep, helper):
    rep.rule("C04-R7", "value equality reads operands only through as_* views (and T: PartialEq): it never looks members up with "
             "Queryable::get, whose contract is a *selector-text* lookup that strips enclosing quotes from the key", floor=1)
    conc = prog.concrete_view_bodies()
    reach, foreign = prog.reach([helper], stop=lambda p: p in conc)
    gets = foreign.get(QT + "::get", [])
    for body, node in gets:
        rep.bad("C04-R7", "%s|Queryable::get" % shared.rk(prog, ev, prog.owner_fn(body)), T.loc(node),
                "value equality looks a member up with Queryable::get(key): get() strips enclosing quotes from its key (selector text), so "
                "objects whose member names are themselves quoted (`'a'` vs `a`) compare wrongly and asymmetrically")
    rep.ok("C04-R7", "census", "-", "%d bodies reachable from the value-equality helper, %d Queryable::get call(s)" % (len(reach), len(gets)))


# ------------------------------------------------------------------------------------------- R6
def shared_numeric_eq(prog, ev, rep, rid):
    """C04-R3/R4 (every operand shape reaches the value-equality helper; numbers compare by value) under another id"""
    from vflib.report import Report, Shared
    tmp = Report("tmp")
    roles = find_roles(prog, ev, tmp)
    if roles is None:
        rep.unrecognised(rid, "comparison-helpers", "-", "eq / lt helpers of Comparison::process not identified"); return
    sh = Shared(rep, {"C04-R3": rid, "C04-R4": rid}, lender="C04")
    helper = r3(prog, ev, sh, roles[1])
    if helper:
        r4(prog, ev, sh, helper)


DISCHARGED = {}


def partial_eq_discharged(prog, ev):
    """locations of `T == T` sites that C04-R6 shows to be residual (operands not both numbers/arrays/objects)"""
    if id(prog) not in DISCHARGED:
        from vflib.report import Report
        tmp = Report("tmp")
        DISCHARGED[id(prog)] = set()
        roles = find_roles(prog, ev, tmp)
        if roles:
            helper = r3(prog, ev, tmp, roles[1])
            if helper:
                r6(prog, ev, tmp, helper, roles[1])
                if any(i["rule"] == "C04-R6" and i["status"] not in ("ok",) for i in tmp.instances):
                    DISCHARGED[id(prog)] = set()
                UNREADABLE[id(prog)] = any(i["rule"] == "C04-R6" and i["status"] == "unrecognised" for i in tmp.instances) and \
                    not any(i["rule"] == "C04-R6" and i["status"] == "violation" for i in tmp.instances)
    return DISCHARGED[id(prog)]


UNREADABLE = {}


def partial_eq_unreadable(prog, ev):
    """the structural branches exist but one of them is written in a form C04-R6 could not read (no violation was shown)"""
    partial_eq_discharged(prog, ev)
    return UNREADABLE.get(id(prog), False)


def _loopy(t):
    """does the term come out of loops / mutation (phi of loop-carried values), i.e. is it beyond the quantifier readers?"""
    return any(x.k in ("phi", "loopvar", "mutated", "opaque") for x in subterms(t))


def r6(prog, ev, rep, helper, eq_fn):
    rep.rule("C04-R6", "containers are compared structurally: arrays element-wise and objects member-wise through the value-equality "
             "helper itself (so numbers inside them compare by mathematical value); the data type's own `==` (T: PartialEq) decides "
             "only what is left when the operands are not both numbers, not both arrays and not both objects")
    P0, P1 = None, None
    t = ev.summary(helper)

    def pair_of(x, acc):
        """x is the tuple (acc(lhs), acc(rhs)) of the helper's two parameters"""
        if x.k != "tuple" or len(x.a) != 2:
            return False
        ok = []
        for i, y in enumerate(x.a):
            ok.append(y.k == "call" and y.a[0] == QT + "::" + acc and len(y.a) == 2 and y.a[1].k == "param" and y.a[1].a[0] == i)
        return all(ok)
    branches = {}
    for x in subterms(t):
        if x.k == "match":
            for acc in ("as_array", "as_object"):
                if pair_of(x.a[0], acc) and acc not in branches:
                    sel = [b for p, g, b in x.a[1] if p.get("k") != "Wild"]
                    if sel:
                        branches[acc] = (x, sel[0])

    def is_self_call(b, want_args=None):
        return b.k == "call" and b.a[0] == helper and len(b.a) == 3
    where = prog.loc_of(helper)
    def inline(body):
        # a branch that only calls a local helper: look at what the helper computes
        for _ in range(3):
            if body.k == "call" and body.a[0] in prog.bodies and body.a[0] != helper and prog.items[body.a[0]]["kind"] == "Fn":
                body = ev.apply(Tm("fnitem", (body.a[0],)), list(body.a[1:]))
            else:
                break
        return body

    def coll(x):
        # the collection a length / iteration is taken of, through iter()/collect() copies of references
        for _ in range(6):
            if x.k == "call" and len(x.a) == 2 and x.a[0].rsplit("::", 1)[-1] in ("iter", "collect", "into_iter", "as_slice", "deref", "as_ref"):
                x = x.a[1]
            else:
                break
        return x

    def conj(x):
        return [x.a[1], x.a[2]] if x.k == "logic" and x.a[0] == "And" else [x]
    if "as_array" in branches:
        m, body = branches["as_array"]
        body = inline(body)
        A = Tm("proj", (m.a[0].a[0], "Option::Some.0")); B = Tm("proj", (m.a[0].a[1], "Option::Some.0"))
        good = False
        why = str(body)[:200]
        if body.k == "logic" and body.a[0] == "And":
            ln, rest = body.a[1], body.a[2]
            oklen = ln.k == "bin" and ln.a[0] == "Eq" and all(y.k == "call" and y.a[0].endswith("::len") for y in ln.a[1:]) and {coll(ln.a[1].a[1]), coll(ln.a[2].a[1])} == {A, B}
            okall = False
            if rest.k == "call" and rest.a[0].endswith("Iterator::all") and len(rest.a) == 3:
                it = ev.item_of(rest.a[1])
                app = ev.apply(rest.a[2], [it])
                unit = lambda y: coll(y.a[1]) if y.k == "call" and y.a[0] == "<item>" else None
                okall = it.k == "tuple" and is_self_call(app) and app.a[1] == it.a[0] and app.a[2] == it.a[1] \
                    and {unit(it.a[0]), unit(it.a[1])} == {A, B}
            good = oklen and okall
            if not oklen:
                why = "lengths are not compared: `%s`" % ln
            elif not okall:
                why = "elements are not compared pairwise by the helper: `%s`" % str(rest)[:160]
        if not good and _loopy(body):
            rep.unrecognised("C04-R6", "%s|arrays" % shared.rk(prog, ev, helper), where, "the array branch of the value-equality helper is written with "
                             "loops / early exits that could not be read as `same length && all pairs equal`: %s" % why)
        else:
            rep.check(good, "C04-R6", "%s|arrays" % shared.rk(prog, ev, helper), where, "same length and element-wise equal (by the helper)",
                      "arrays are not compared as RFC 9535 2.3.5.2.2 requires (same length, element-wise equal): %s" % why)
    if "as_object" in branches:
        m, body = branches["as_object"]
        A = Tm("proj", (m.a[0].a[0], "Option::Some.0")); B = Tm("proj", (m.a[0].a[1], "Option::Some.0"))
        good = False
        why = str(body)[:200]
        if body.k == "logic" and body.a[0] == "And":
            ln, rest = body.a[1], body.a[2]
            oklen = ln.k == "bin" and ln.a[0] == "Eq" and all(y.k == "call" and y.a[0].endswith("::len") for y in ln.a[1:]) and {ln.a[1].a[1], ln.a[2].a[1]} == {A, B}
            okq = False
            if rest.k == "call" and rest.a[0].endswith("::all") and len(rest.a) == 3:
                it = ev.item_of(rest.a[1])
                inner = ev.apply(rest.a[2], [it])
                if inner.k == "call" and inner.a[0].endswith("::any") and len(inner.a) == 3:
                    it2 = ev.item_of(inner.a[1])
                    leaf = ev.apply(inner.a[2], [it2])
                    if leaf.k == "logic" and leaf.a[0] == "And":
                        keq, veq = leaf.a[1], leaf.a[2]
                        if is_self_call(keq):
                            keq, veq = veq, keq
                        okq = "PartialEq" in str(keq) and is_self_call(veq) and str(it) != str(it2) \
                            and {str(ev.item_of(rest.a[1])), str(ev.item_of(inner.a[1]))} == {"<item>(%s)" % A, "<item>(%s)" % B}
            good = oklen and okq
            if not oklen:
                why = "member counts are not compared: `%s`" % ln
            elif not okq:
                why = "members are not matched by name and compared by the helper: `%s`" % str(rest)[:160]
        if not good and _loopy(body):
            rep.unrecognised("C04-R6", "%s|objects" % shared.rk(prog, ev, helper), where, "the object branch of the value-equality helper is written with "
                             "loops / early exits that could not be read as `same count && every member has an equal namesake`: %s" % why)
        else:
            rep.check(good, "C04-R6", "%s|objects" % shared.rk(prog, ev, helper), where, "same member count, every member has an equal member of the same name (by the helper)",
                      "objects are not compared as RFC 9535 2.3.5.2.2 requires (same names, each with equal values): %s" % why)
    n = 0
    for s_ in ev.sited(helper):
        if s_["kind"] != "call" or not re.search(r"PartialEq.*::(eq|ne)$", s_["term"].a[0]):
            continue
        x = s_["node"]
        g = x.get("gargs") or []
        if not (g and re.fullmatch(r"&*(?:'\w+ )?T", g[0])):
            continue
        n += 1
        excluded = set()
        for c in s_["pc"]:
            if c[0] == "notarm":
                for acc in ("as_array", "as_object"):
                    if pair_of(c[1], acc):
                        excluded.add(acc)
        if {"as_array", "as_object"} <= excluded and {"as_array", "as_object"} <= set(branches):
            rep.ok("C04-R6", "%s|PartialEq<T>" % shared.rk(prog, ev, prog.owner_fn(helper)), T.loc(x),
                   "the data type's `==` only decides operands that are not both numbers / arrays / objects")
            DISCHARGED.setdefault(id(prog), set()).add(T.loc(x))
        else:
            rep.bad("C04-R6", "%s|PartialEq<T>" % shared.rk(prog, ev, prog.owner_fn(helper)), T.loc(x),
                    "structured values are compared with the data type's own `==`; inside arrays/objects numbers are "
                    "then not compared by mathematical value")
    rep.ok("C04-R6", "census", "-", "%d delegation site(s)" % n)
