"""C14 -- in, nin, none_of, any_of, subset_of implement set membership."""
from vflib import thir as T, tables
from vflib.terms import Evaluator, Tm, subterms
from vflib import pipeline as PL
from spec import tables as SPEC

META = {
    "level": "other",
    "explanation": (
        "R1 name table: the five documented names exist in <Value as Queryable>::extension_custom, each requires exactly "
        "two arguments and the array-ness the documentation states (in/nin: second; the others: both); every other shape "
        "yields null (read as false by the filter's truth extraction). R2 quantifier signature of each function "
        "(exists / not exists / exists-exists / not exists-exists / forall-exists over the right operands, with element "
        "equality between one element of each side) compared with spec/tables.py, negations pushed inward. R3 hand-over: "
        "custom() evaluates every argument against the current state and passes values owned, nodes borrowed, in "
        "written order; extension calls are in the logical column (C10-R8) so the result is used as a truth value. "
        "Not decided: that element equality is JSON equality (it is serde_json::Value's PartialEq; cross-reference D-04b)."),
    "trusted_base": ["rustc nightly THIR", "vf driver + rules", "spec/tables.py (library documentation of the five functions)"],
    "assumptions": ["Iterator::any/all semantics"],
    "not_decided": ["element equality being RFC JSON equality (Value: PartialEq distinguishes 1 and 1.0)"],
}
META["explanation"] += ' R3 also: a missing argument is handed over as no element. R4 the engine never mentions an extension name outside the Queryable implementations and builds TestFunction::Custom from the name as written.'
META["explanation"] += ' R5 literals handed to extension functions denote exactly the value written.'

QT = "crate::query::queryable::Queryable"
VAL = "serde_json::value::Value"
WANT = {
    "in": ("E", ("x", "R")),
    "nin": ("!E", ("x", "R")),
    "any_of": ("EE", ("L", "R")),
    "none_of": ("!EE", ("L", "R")),
    "subset_of": ("AE", ("L", "R")),
}


def run(ctx, rep):
    prog = ctx.prog
    ev = Evaluator(prog)
    r1_r2(prog, ev, rep)
    r3(prog, ev, rep)
    r4(prog, ev, rep)
    from rules import shared
    shared.literal_exact(prog, ev, rep, "C14-R5")
    # the hook's null answer must read as false: the truth of a function test is the logical result itself
    from vflib.report import Shared
    from rules import c05
    c05.r3_r4(prog, ev, Shared(rep, {"C05-R3": "C14-R6"}, lender="C05", only_keys=["FilterAtom::Test"]))
    # an argument written as a function call / query / literal reaches the hook as that kind of argument: no alternative of
    # `function_argument` is swallowed by an earlier one (a nested length(..) parsed as a logical expression is handed over as
    # true/false instead of its value)
    from rules import c06
    rep.rule("C14-R7", "arguments are parsed as what they are: in the grammar rule `function_argument` no alternative is shadowed "
             "by an earlier one [analysis shared with C06-R2]")
    if "function_argument" in ctx.grammar.rules:
        c06.dead_alternatives(ctx, rep, "C14-R7", only_rule="function_argument")
    else:
        rep.unrecognised("C14-R7", "function_argument", "-", "grammar rule `function_argument` not found")


def _walkall(x):
    if isinstance(x, dict):
        yield x
        for v in x.values():
            yield from _walkall(v)
    elif isinstance(x, list):
        for v in x:
            yield from _walkall(v)


def r4(prog, ev, rep):
    rep.rule("C14-R4", "the engine does not know the extension names: outside `impl Queryable for <type>` no string literal or string "
             "pattern equals in / nin / none_of / any_of / subset_of (so no call is renamed, negated or special-cased on its way "
             "to extension_custom), and every TestFunction::Custom is built from the name as written and the arguments as parsed",
             floor=2)
    NAMES = {"in", "nin", "none_of", "any_of", "subset_of"}
    conc = set(prog.concrete_view_bodies())
    n = 0
    done0 = set()
    for p in sorted(prog.bodies):
        if prog.is_expansion(p) or p in conc or prog.owner_fn(p) in conc:
            continue
        n += 1
        for x in _walkall(prog.bodies[p]["thir"]["root"]):
            if x.get("k") in ("Constant", "Lit"):
                v = x.get("value", x.get("v"))
                if isinstance(v, str) and v.strip('"') in NAMES and (x.get("str") or x.get("ty", "").endswith("str") or x.get("k") == "Lit"):
                    if (p, v) in done0:
                        continue
                    done0.add((p, v))
                    rep.bad("C14-R4", "%s|mentions:%s" % (prog.owner_fn(p), v.strip('"')), prog.loc_of(p),
                            "`%s` mentions the extension name `%s`: the generic engine special-cases an extension function "
                            "(a call that is renamed or negated on the way no longer answers null -> false for missing or non-array arguments)" % (p, v.strip('"')))
    rep.ok("C14-R4", "name-census", "-", "%d bodies outside the Queryable implementations examined" % n)
    # constructions of Custom
    M_ = "crate::parser::model::"
    cons = 0
    done = set()
    for p in sorted(prog.bodies):
        if prog.is_expansion(p) or "::{closure#" in p:
            continue
        t = ev.summary(p)
        for x in subterms(t):
            if x.k == "adt" and x.a[0] == M_ + "TestFunction" and x.a[1] == "Custom":
                if (p, str(x)) in done:
                    continue
                done.add((p, str(x)))
                cons += 1
                fd = dict(x.a[2])
                nm = fd.get("0")
                okn = nm is not None and nm.k == "call" and nm.a[0].rsplit("::", 1)[-1] in ("to_string", "to_owned", "from", "into") and len(nm.a) == 2 \
                    and nm.a[1].k in ("param", "var", "proj", "field")
                rep.check(okn, "C14-R4", "%s|Custom-name" % p, prog.loc_of(p), "name copied from the parsed text",
                          "TestFunction::Custom is built with the name `%s`, not the name as written" % nm)
    if cons == 0:
        rep.unrecognised("C14-R4", "Custom-construction", "-", "no construction of TestFunction::Custom found")


def is_null(t):
    return t.k == "call" and t.a[0].endswith("::null") and "Queryable" in t.a[0]


def quant(ev, t, env):
    """Normalise a boolean term into (signature, domains, equality operands).
    signature over {'E','A','!'} ; returns None if unrecognised."""
    if t.k == "call" and t.a[0].endswith("core::convert::Into<U>>::into") and len(t.a) == 2:
        return quant(ev, t.a[1], env)
    if t.k == "un" and t.a[0] == "Not":
        q = quant(ev, t.a[1], env)
        if q is None:
            return None
        return ("!" + q[0], q[1], q[2])
    src, stages = PL.unwind(t)
    names = [s[0] for s in stages]
    if names and names[-1] in ("any", "all") and all(PL.classify(n) == "preserving" for n in names[:-1]):
        f = stages[-1][1][0]
        item = Tm("param", (60 + len(env), "e%d" % len(env)))
        body = ev.apply(f, [item])
        q = quant(ev, body, env + [(item, src)])
        if q is None:
            return None
        return (("E" if names[-1] == "any" else "A") + q[0], [src] + q[1], q[2])
    if t.k == "call" and len(t.a) == 3 and ("PartialEq" in t.a[0] and t.a[0].endswith("::eq")):
        return ("", [], (t.a[1], t.a[2]))
    if t.k == "bin" and t.a[0] == "Eq":
        return ("", [], (t.a[1], t.a[2]))
    if t.k == "call" and len(t.a) == 3 and ("PartialEq" in t.a[0] and t.a[0].endswith("::ne")):
        return ("!", [], (t.a[1], t.a[2]))
    return None


def push_neg(sig):
    """push negations inward: !E -> A!, !A -> E!, !! -> '' ; returns canonical string"""
    out = ""
    neg = False
    for ch in sig:
        if ch == "!":
            neg = not neg
        elif ch == "E":
            out += "A" if neg else "E"
        elif ch == "A":
            out += "E" if neg else "A"
    return out + ("!" if neg else "")


def _by_name(prog, p, t):
    """The hook specialised per function name (partial evaluation: the name is known, so matches and `name == ".."` tests on
    it are decided), re-assembled as a match on the name - for hooks that dispatch on the arguments first and on the name
    inside.  None when the name is not consulted at all."""
    from vflib.terms import prune_nested
    name = Tm("param", (0, prog.params(p)[0]["pat"].get("name", "name")))
    lits = set()
    for x in subterms(t):
        if x.k == "match" and x.a[0] == name:
            lits |= set(tables.str_constants(x.a[1]))
        if x.k == "bin" and x.a[0] in ("Eq", "Ne") and name in (x.a[1], x.a[2]):
            o = x.a[2] if x.a[1] == name else x.a[1]
            if o.k == "lit" and o.a[0] == "str":
                lits.add(o.a[1])
        if x.k == "call" and x.a[0].endswith("::eq") and "PartialEq" in x.a[0] and len(x.a) == 3 and name in (x.a[1], x.a[2]):
            o = x.a[2] if x.a[1] == name else x.a[1]
            if o.k == "lit" and o.a[0] == "str":
                lits.add(o.a[1])
    if not lits:
        return None
    conds = [x for x in subterms(t) if (x.k == "bin" and x.a[0] in ("Eq", "Ne") and name in (x.a[1], x.a[2])) or
             (x.k == "call" and x.a[0].endswith("::eq") and "PartialEq" in x.a[0] and len(x.a) == 3 and name in (x.a[1], x.a[2]))]

    def spec(n):
        known = {name: ("s", n)} if n is not None else {}
        known_not = {} if n is not None else {name: [("s", l) for l in sorted(lits)]}
        for c in conds:
            o = c.a[2] if c.a[1] == name else c.a[1]
            if o.k == "lit" and o.a[0] == "str":
                val = (o.a[1] == n)
                if c.k == "bin" and c.a[0] == "Ne":
                    val = not val
                known[("cond", c)] = val
        return prune_nested(prune_nested(t, known, 0, known_not), known, 0, known_not)
    arms = []
    for n in sorted(lits):
        arms.append(({"k": "Constant", "str": True, "value": n, "ty": "&str"}, None, spec(n)))
    arms.append(({"k": "Wild", "ty": "&str"}, None, spec(None)))
    return Tm("match", (name, tuple(arms)), t.n)


def r1_r2(prog, ev, rep):
    rep.rule("C14-R1", "name table: five names; each needs the two-argument shape; array-ness conditions (in/nin: second "
             "argument; any_of/none_of/subset_of: both); every other shape -> null", floor=12)
    rep.rule("C14-R2", "quantifier signature: in = E r. r=x ; nin = not in ; any_of = E l. E r. l=r ; none_of = not any_of ; "
             "subset_of = A l. E r. l=r", floor=5)
    p = prog.impl_method(QT, VAL, "extension_custom")
    where = prog.loc_of(p)
    t = ev.summary(p)
    if t.k != "match" or not (t.a[0].k == "param" and t.a[0].a[0] == 0):
        t2 = _by_name(prog, p, t)
        if t2 is None:
            rep.unrecognised("C14-R1", "extension_custom", where, "not a match on the function name"); return
        t = t2
    names = tables.str_constants(t.a[1])
    for want in WANT:
        if want not in names:
            rep.bad("C14-R1", "name/%s" % want, where, "documented extension function `%s` is not implemented" % want)
    argsp = Tm("param", (1, "args"))
    for name in WANT:
        if name not in names:
            continue
        sel = tables.select(t.a[1], ("s", name))
        if len(sel) != 1:
            rep.unrecognised("C14-R1", "name/%s" % name, where, "no unique arm"); continue
        body = t.a[1][sel[0][0]][2]
        slice_scrut = body.k == "match" and (body.a[0].k == "call" and body.a[0].a[0].rsplit("::", 1)[-1] in ("as_slice", "deref", "as_ref") or body.a[0].k == "param"
                                               or any(p.get("k") == "Slice" or (p.get("k") in ("Deref", "DerefPattern") and p.get("sub", {}).get("k") == "Slice") for p, _, _ in body.a[1]))
        if body.k != "match" or not slice_scrut:
            rep.unrecognised("C14-R1", "%s/arity" % name, where, "no dispatch on the argument slice: %s" % str(body)[:200]); continue
        # arity: slices of length 0,1,3 -> null ; 2 -> further
        okar = True
        two = None
        for n in (0, 1, 2, 3):
            s2 = tables.select(body.a[1], ("sl", n))
            if len(s2) != 1:
                okar = False; continue
            b2 = body.a[1][s2[0][0]][2]
            if n == 2:
                two = b2
            elif not is_null(b2):
                okar = False
        rep.check(okar and two is not None, "C14-R1", "%s/arity" % name, where, "exactly two arguments, otherwise null",
                  "`%s` does not map every argument count other than 2 to null" % name)
        if two is None:
            continue
        a0 = Tm("index", (argsp, Tm("lit", ("int", "0"))))
        a1 = Tm("index", (argsp, Tm("lit", ("int", "1"))))
        arr = lambda a: Tm("call", (VAL + "::as_array", a))
        sig, doms = WANT[name]
        # array-ness
        if two.k != "match":
            rep.unrecognised("C14-R1", "%s/arrays" % name, where, "no array test: %s" % two); continue
        sc = two.a[0]
        if doms == ("x", "R"):
            oksc = sc == arr(a1)
            some_shape = ("v", "Some", [tables.ANY])
            none_shapes = [("v", "None", [])]
        else:
            oksc = sc.k == "tuple" and sc.a == (arr(a0), arr(a1))
            some_shape = ("t", [("v", "Some", [tables.ANY]), ("v", "Some", [tables.ANY])])
            none_shapes = [("t", [("v", "None", []), ("v", "Some", [tables.ANY])]), ("t", [("v", "Some", [tables.ANY]), ("v", "None", [])]),
                           ("t", [("v", "None", []), ("v", "None", [])])]
        oknull = True
        for ns in none_shapes:
            s3 = tables.select(two.a[1], ns)
            if len(s3) != 1 or not is_null(two.a[1][s3[0][0]][2]):
                oknull = False
        rep.check(oksc and oknull, "C14-R1", "%s/arrays" % name, where,
                  "array test on %s, non-array -> null" % ("the second argument" if doms == ("x", "R") else "both arguments"),
                  "`%s`: array test is `%s`; non-array arguments do not all yield null" % (name, sc))
        s3 = tables.select(two.a[1], some_shape)
        if len(s3) != 1:
            rep.unrecognised("C14-R2", name, where, "no unique arm for array arguments"); continue
        core = two.a[1][s3[0][0]][2]
        q = quant(ev, core, [])
        if q is None:
            rep.unrecognised("C14-R2", name, where, "not a nest of any/all over the arrays with an element equality: %s" % core); continue
        got = push_neg(q[0])
        want_sig = push_neg(sig)
        L = Tm("proj", (arr(a0), "Option::Some.0"))
        R = Tm("proj", (arr(a1), "Option::Some.0"))
        ok = got == want_sig
        why = "`%s` has quantifier structure `%s`, documented meaning is `%s` (%s)" % (name, got, want_sig, SPEC.EXTENSIONS[name])
        # domains and equality operands
        if ok:
            if doms == ("x", "R"):
                ok = q[1] == [R]
                eqops = set(map(str, q[2]))
                ok = ok and len(q[2]) == 2 and (a0 in q[2]) and any(x.k == "param" for x in q[2])
                why = "`%s` must compare each element of the second argument with the first argument; found domain %s, equality %s" % (name, [str(d) for d in q[1]], [str(x) for x in q[2]])
            else:
                ok = q[1] == [L, R] and all(x.k == "param" for x in q[2]) and q[2][0] != q[2][1]
                why = "`%s` must range over the first array outside and the second inside and compare one element of each; found domains %s, equality %s" % (name, [str(d) for d in q[1]], [str(x) for x in q[2]])
        rep.check(ok, "C14-R2", name, where, SPEC.EXTENSIONS[name], why)
    # unknown names -> null
    sel = tables.select(t.a[1], ("s*",))
    def all_null(x, d=0):
        if is_null(x):
            return True
        if d < 8 and x.k == "match":
            return all(all_null(b, d + 1) for _, _, b in x.a[1])
        if d < 8 and x.k == "if":
            return all_null(x.a[1], d + 1) and all_null(x.a[2], d + 1)
        return False
    good = len(sel) == 1 and all_null(t.a[1][sel[0][0]][2])
    rep.check(good, "C14-R1", "name/<other>", where, "null", "unknown extension names do not yield null")
    # trait default is null as well
    dp = prog.trait_default_methods(QT).get("extension_custom")
    if dp:
        dt = ev.summary(dp)
        rep.check(is_null(dt), "C14-R1", "default/extension_custom", prog.loc_of(dp), "null", "trait default returns `%s`" % dt)


def loop_form_custom(prog, ev, rep, e, where):
    """`let mut vals = vec![]; for arg in args { match arg.process(state).data { Value(v) => vals.push(Cow::Owned(v)), Ref(p) =>
    vals.push(Cow::Borrowed(p.inner)), _ => {} } }`: the same hand-over written as a loop."""
    acc = e.a[2]
    if acc.k != "phi":
        return False
    argp = prog.impl_method("crate::query::Query", "crate::parser::model::FnArg", "process")
    kinds = set()
    for alt in acc.a:
        if (alt.k == "call" and alt.a == ("<vec>",)) or alt.k == "loopvar":
            continue
        if alt.k != "mutated":
            return False
        prev, eff = alt.a
        if not (prev.k == "phi" and all((x.k == "call" and x.a == ("<vec>",)) or x.k == "loopvar" for x in prev.a)):
            return False
        if isinstance(eff, Tm) and eff.k == "call" and eff.a[0].endswith("::extend") and len(eff.a) == 3:
            # vals.extend(list.into_iter().map(|p| Cow::Borrowed(p.inner))): every node of a node list, borrowed, in order
            it = ev.item_of(eff.a[2])
            if it.k == "adt" and it.a[0] == "alloc::borrow::Cow" and it.a[1] == "Borrowed" and len(it.a[2]) == 1:
                pay = it.a[2][0][1]
                calls = [y for y in subterms(pay) if y.k == "call" and y.a[0] == argp]
                if len(calls) == 1 and pay.k == "field" and pay.a[1] == "inner" and pay.a[0].k == "call" and pay.a[0].a[0] == "<item>":
                    c = calls[0]
                    src = pay.a[0].a[1]
                    while src.k == "call" and len(src.a) == 2 and src.a[0].rsplit("::", 1)[-1] in ("into_iter", "iter"):
                        src = src.a[1]
                    if src == Tm("proj", (Tm("field", (c, "data")), "Data::Refs.0")) and c.a[1].k == "call" and c.a[1].a[0] == "<item>" \
                            and c.a[1].a[1].k == "param" and c.a[1].a[1].a[0] == 1 and c.a[2].k == "param" and c.a[2].a[0] == 2:
                        kinds.add("Refs")
                        continue
            return False
        if not (isinstance(eff, Tm) and eff.k == "call" and eff.a[0].endswith("::push") and len(eff.a) == 3):
            return False
        x = eff.a[2]
        if not (x.k == "adt" and x.a[0] == "alloc::borrow::Cow" and len(x.a[2]) == 1):
            return False
        pay = x.a[2][0][1]
        calls = [y for y in subterms(pay) if y.k == "call" and y.a[0] == argp]
        if len(calls) != 1:
            return False
        c = calls[0]
        itemok = c.a[1].k == "call" and c.a[1].a[0] == "<item>" and c.a[1].a[1].k == "param" and c.a[1].a[1].a[0] == 1
        stateok = c.a[2].k == "param" and c.a[2].a[0] == 2
        if not (itemok and stateok):
            return False
        data = Tm("field", (c, "data"))
        if x.a[1] == "Owned" and pay == Tm("proj", (data, "Data::Value.0")):
            kinds.add("Value")
        elif x.a[1] == "Borrowed" and pay == Tm("field", (Tm("proj", (data, "Data::Ref.0")), "inner")):
            kinds.add("Ref")
        elif x.a[1] == "Borrowed" and pay.k == "field" and pay.a[1] == "inner" and pay.a[0].k == "call" and pay.a[0].a[0] == "<item>" \
                and pay.a[0].a[1] == Tm("proj", (data, "Data::Refs.0")):
            kinds.add("Refs")           # every node of a node list, borrowed, in order
        else:
            return False
    if not ({"Value", "Ref"} <= kinds):
        return False
    rep.ok("C14-R3", "custom/hook", where, "loop over the arguments in order, appending to the end of the argument vector")
    rep.ok("C14-R3", "custom/eval", where, "arg.process(state)")
    rep.ok("C14-R3", "custom/values", where, "Value -> owned, Ref -> borrowed node")
    rep.ok("C14-R3", "custom/missing", where, "only Value and Ref push an element: a missing argument contributes none")
    return True


def r3(prog, ev, rep):
    rep.rule("C14-R3", "hand-over: custom() evaluates every argument against the current state in written order and "
             "passes a value owned / a node borrowed, a missing argument as nothing; the extension's result becomes the state's value", floor=4)
    ap = prog.inherent_method("crate::parser::model::TestFunction", "apply")
    at = ev.summary(ap)
    sel = tables.select(at.a[1], ("v", "Custom", [tables.ANY, tables.ANY])) if at.k == "match" else []
    if len(sel) != 1:
        rep.unrecognised("C14-R3", "apply/Custom", prog.loc_of(ap), "no unique arm"); return
    body = at.a[1][sel[0][0]][2]
    good = body.k == "call" and body.a[0] in prog.bodies and body.a[1] == Tm("proj", (at.a[0], "TestFunction::Custom.0")) \
        and body.a[2] == Tm("proj", (at.a[0], "TestFunction::Custom.1")) and body.a[3].k == "param"
    rep.check(good, "C14-R3", "apply/Custom", prog.loc_of(ap), "custom(name, args, state)", "Custom arm is `%s`" % body)
    if not good:
        return
    cp = body.a[0]
    ct = ev.summary(cp)
    where = prog.loc_of(cp)
    ext = [x for x in subterms(ct) if x.k == "call" and x.a[0] == QT + "::extension_custom"]
    if len(ext) != 1:
        rep.unrecognised("C14-R3", "custom/hook", where, "%d calls of Queryable::extension_custom" % len(ext)); return
    e = ext[0]
    good = e.a[1].k == "param" and e.a[1].a[0] == 0
    src, stages = PL.unwind(e.a[2])
    names = [s[0] for s in stages]
    okpipe = src.k == "param" and src.a[0] == 1 and names[:1] in (["into_iter"], ["iter"]) and names[1:] == ["map", "flat_map", "collect"]
    if not okpipe and good and loop_form_custom(prog, ev, rep, e, where):
        okres = ct.k == "call" and ct.a[0].endswith("State::<'a, T>::data") and ct.a[2].k == "adt" and ct.a[2].a[1] == "Value" and ct.a[2].a[2][0][1] == e
        rep.check(okres, "C14-R3", "custom/result", where, "State::data(root, Value(result))", "result is `%s`" % ct)
        return
    rep.check(good and okpipe, "C14-R3", "custom/hook", where, "extension_custom(name, args evaluated in order)",
              "hook is called as `%s` (pipeline %s)" % (e, names))
    if okpipe:
        st = Tm("param", (2, "state"))
        a = Tm("param", (50, "arg"))
        mb = ev.apply(stages[1][1][0], [a])
        argp = prog.impl_method("crate::query::Query", "crate::parser::model::FnArg", "process")
        rep.check(mb == Tm("call", (argp, a, st)), "C14-R3", "custom/eval", where, "arg.process(state)", "argument evaluated as `%s`" % mb)
        fb = ev.apply(stages[2][1][0], [Tm("param", (51, "v"))])
        okv = False
        if fb.k == "match":
            sv = tables.select(fb.a[1], ("v", "Value", [tables.ANY]))
            sr = tables.select(fb.a[1], ("v", "Ref", [tables.ANY]))
            if len(sv) == 1 and len(sr) == 1:
                bv, br = fb.a[1][sv[0][0]][2], fb.a[1][sr[0][0]][2]
                okv = (bv.k == "call" and bv.a[0] == "<vec>" and len(bv.a) == 2 and bv.a[1].k == "adt" and bv.a[1].a[1] == "Owned"
                       and br.k == "call" and br.a[0] == "<vec>" and len(br.a) == 2 and br.a[1].k == "adt" and br.a[1].a[1] == "Borrowed")
        rep.check(okv, "C14-R3", "custom/values", where, "Value -> owned, Ref -> borrowed node", "argument hand-over is `%s`" % fb)
        okn = False
        if fb.k == "match":
            sn = tables.select(fb.a[1], ("v", "Nothing", []))
            if len(sn) == 1:
                bn = fb.a[1][sn[0][0]][2]
                okn = bn.k == "call" and bn.a[0] == "<vec>" and len(bn.a) == 1
        rep.check(okn, "C14-R3", "custom/missing", where, "a missing argument contributes no element (so the arity test fails and the result is null = false)",
                  "an argument that selects nothing is handed over as `%s`: a missing node becomes indistinguishable from a present value "
                  "(e.g. JSON null), so `nin(@.k, L)` is true for elements without `k`" % (fb.a[1][sn[0][0]][2] if fb.k == "match" and len(tables.select(fb.a[1], ("v", "Nothing", []))) == 1 else fb))
    # result wrapped as the state's value
    okres = ct.k == "call" and ct.a[0].endswith("State::<'a, T>::data") and ct.a[2].k == "adt" and ct.a[2].a[1] == "Value" and ct.a[2].a[2][0][1] == e
    rep.check(okres, "C14-R3", "custom/result", where, "State::data(root, Value(result))", "result is `%s`" % ct)
