"""C11 -- index and slice arithmetic (structural clauses + formula agreement where the RFC's shape is used)."""
import re
from vflib import pwl
from vflib import thir as T, tables
from vflib.terms import Evaluator, Tm, subterms
from rules import shared, c08

META = {
    "level": "other",
    "explanation": (
        "R1 both stepping loops terminate (counter loop form with the step's sign fixed by the dispatching guard). R2 a step of "
        "0 and a non-array select nothing (the `neither positive nor negative` shape selects an empty vector with no loop; "
        "extraction is control-dependent on as_array() being Some). R3 every parser constructor range-checks index, start, "
        "end and step. R4 slot mapping: grammar rules start/end/step feed tuple positions 0/1/2, those feed Selector::Slice "
        "fields 0/1/2, those feed the handler's parameters in order, and the parameter that drives the sign dispatch is the "
        "step. R5 the index/slice handlers cannot panic (interval analysis with a linear-inequality fallback, shared with C08-R2). "
        "R6 agreement with RFC 9535 2.3.4.2.2 / 2.3.3.2: direction guards, loop condition, increment and the element fetch are "
        "compared with the RFC's pseudo-code after normalisation (commutativity of min/max and +, constant folding, clamp = "
        "min(max()), mirrored comparisons, Option::map/unwrap_or). The first index and stop bound of each walk are decided by "
        "REGION ANALYSIS: both the code's and the RFC's formulas are piecewise linear in (len, start, end); their domains are "
        "partitioned into regions of linear inequalities, and in every region the two walks must select the same in-range "
        "indices for every step of that sign (criterion and proof in vflib/pwl.py: live <=> live', and live => equal first "
        "index and equal clipped stop). Empty regions are shown empty by Fourier-Motzkin elimination; a deviation is reported "
        "only with an integer witness (query, array length, both index lists). The index selector is decided the same way "
        "(every fetch site selects exactly the RFC's element under its guards; every in-range index reaches a fetch). A "
        "textually different but equivalent implementation is proved equivalent, not flagged; an operator outside the "
        "piecewise-linear language makes R6 abstain with a note."),
    "trusted_base": ["rustc nightly THIR", "vf driver + rules", "RFC 9535 2.3.4.2.2 pseudo-code transcription in this module", "vflib/pwl.py (Fourier-Motzkin elimination, walk-equivalence criterion)"],
    "assumptions": ["collections hold at most 2^62 elements"],
    "not_decided": ["slice/index handlers whose bound computation is not piecewise linear over (len, start, end) or not two counter loops (R6 abstains with a note)"],
}

Q = "crate::query::Query"
M = "crate::parser::model::"
QT = "crate::query::queryable::Queryable"
PTR = "crate::query::state::Pointer::<'a, T>::"


def run(ctx, rep):
    prog = ctx.prog
    ev = Evaluator(prog)
    handlers = find_handlers(prog, ev, rep)
    if handlers is None:
        return
    slice_fn, index_fn, slice_args, index_args = handlers
    r1(ctx, prog, ev, rep, slice_fn)
    r2(prog, ev, rep, slice_fn, index_fn)
    r3(prog, ev, rep)
    r4(ctx, prog, ev, rep, slice_fn, slice_args)
    r5(ctx, prog, ev, rep, slice_fn, index_fn)
    r6(prog, ev, rep, slice_fn, slice_args, index_fn, index_args)
    r7(prog, ev, rep, slice_fn, slice_args)
    shared.selector_tables(prog, ev, rep, "C11-R8")


def fam_with_helpers(prog, fn):
    """the function, its closures, and the private helpers it calls that the second analysis unfolds"""
    from vflib import terms as _t
    out = list(prog.family(fn))
    unf = set(_t.UNFOLD or ())
    if unf:
        seen = set(out)
        work = list(out)
        while work:
            b = work.pop()
            for callee, _ in prog.edges().get(b, []):
                if callee in unf and callee not in seen:
                    for x in prog.family(callee):
                        if x not in seen:
                            seen.add(x); out.append(x); work.append(x)
    return out


def find_handlers(prog, ev, rep):
    """slice / index handler functions and the positions of their (start, end, step) / index parameters, from the
    Selector dispatch."""
    sp = prog.impl_method(Q, M + "Selector", "process")
    t, trace, conds = ev.traced(sp)
    slice_fn = index_fn = None
    slice_args = {}
    index_args = {}
    for c in trace:
        if c.k == "call" and c.a[0] in prog.bodies:
            for i, a in enumerate(c.a[1:]):
                if a.k == "proj" and a.a[1].startswith("Selector::Slice."):
                    slice_fn = c.a[0]
                    slice_args[int(a.a[1][-1])] = i
                if a.k == "proj" and a.a[1] == "Selector::Index.0":
                    index_fn = c.a[0]
                    index_args[0] = i
    if slice_fn is None or index_fn is None or sorted(slice_args) != [0, 1, 2]:
        rep.unrecognised("C11-R4", "handlers", prog.loc_of(sp), "slice/index handlers not found in the Selector dispatch (slice args %s)" % slice_args)
        return None
    return slice_fn, index_fn, slice_args, index_args


# ------------------------------------------------------------------------------------------- R1
def r1(ctx, prog, ev, rep, slice_fn):
    rep.rule("C11-R1", "termination of the stepping loops of the slice handler (form B of C08-R3: one unconditional `idx += step`, "
             "sign of step fixed by the dispatching guard and pointing toward the exit)", floor=2)
    n = 0
    for s in ev.sited(slice_fn):
        if s["kind"] == "loop":
            ok, why = c08.classify_loop(prog, ev, slice_fn, s)
            rep.check(ok, "C11-R1", "%s|loop#%d" % (slice_fn, n), T.loc(s["node"]), why, "slice loop may not terminate: %s" % why)
            n += 1
        elif s["kind"] == "forloop":
            ity = (T.strip(s["node"]["scrut"]).get("ty") or "")
            ok = c08.FINITE_ITER.search(ity) is not None and not c08.INFINITE.search(ity)
            rep.check(ok, "C11-R1", "%s|loop#%d" % (slice_fn, n), T.loc(s["node"]), "for over %s" % ity[:60], "`for` over `%s`" % ity)
            n += 1
    # iterator-style walks: a pipeline over a finite range terminates (a zero step_by panics: C08-R2 proves n >= 1)
    from vflib import pipeline as PL
    seen = set()
    for s in ev.sited(slice_fn):
        if s["kind"] == "call" and s["term"].a[0].endswith("Iterator::collect") and id(s["node"]) not in seen:
            seen.add(id(s["node"]))
            src, stages = PL.unwind(s["term"])
            if src.k == "adt" and src.a[0].startswith("core::ops::range::Range") and src.a[1] in ("Range", "RangeInclusive"):
                rep.ok("C11-R1", "%s|range#%d" % (slice_fn, n), T.loc(s["node"]), "pipeline %s over a finite range" % [x[0] for x in stages])
                n += 1


# ------------------------------------------------------------------------------------------- R2
def r2(prog, ev, rep, slice_fn, index_fn):
    rep.rule("C11-R2", "nothing for step 0 and for non-arrays: the sign dispatch's `neither > 0 nor < 0` case yields an empty vector "
             "with no loop in its reach; element extraction only happens under as_array() == Some, otherwise the empty Data", floor=3)
    sites = ev.sited(slice_fn)
    where = prog.loc_of(slice_fn)
    # the match whose guards compare one scrutinee with 0 in both directions
    disp = None
    for x in T.walk(prog.bodies[slice_fn]["thir"]["root"]):
        pass
    for fam in fam_with_helpers(prog, slice_fn):
        for x in T.walk(prog.bodies[fam]["thir"]["root"]):
            if x.get("k") == "Match" and sum(1 for a in x["arms"] if "guard" in a) >= 2:
                disp = (fam, x)
    if disp is None:
        # if / else-if chain form: if step > 0 {..} else if step < 0 {..} else { vec![] }  (either order of the two tests)
        ok_chain = False
        try:
            from vflib.report import Report
            h = find_handlers(prog, ev, Report("tmp"))
            names = {}
            for slot, nm in ((0, "start"), (1, "end"), (2, "step")):
                i = h[2][slot]
                names[Tm("param", (i, c08._pname(prog, slice_fn, i)))] = nm
            mdl = rfc_model()
            want = {repr(mdl["pos"]["guard"]), repr(mdl["neg"]["guard"])}
            from rules.c04 import expand_closures
            for x in subterms(expand_closures(ev, ev.summary(slice_fn))):
                if x.k == "if" and x.a[2].k == "if":
                    g1, g2 = norm(prog, x.a[0], names, None), norm(prog, x.a[2].a[0], names, None)
                    last = x.a[2].a[2]
                    if {repr(g1), repr(g2)} == want and last.k == "call" and last.a == ("<vec>",):
                        ok_chain = True
        except Exception:
            ok_chain = False
        if ok_chain:
            rep.ok("C11-R2", "%s|step-zero" % slice_fn, where, "if step > 0 | else if step < 0 | else vec![]")
        else:
            rep.unrecognised("C11-R2", "%s|dispatch" % slice_fn, where, "sign dispatch on the step not found as a guarded match or an if / else-if chain ending in an empty vector")
    else:
        fam, m = disp
        arms = m["arms"]
        gs = []
        for a in arms:
            if "guard" in a:
                g = T.strip(a["guard"])
                if g.get("k") == "Binary" and g["op"] in ("Gt", "Lt", "Ge", "Le") and T.peel(g["r"]).get("k") == "Lit" and T.peel(g["r"])["v"] == "0":
                    gs.append(g["op"])
        last = arms[-1]
        is_catch = "guard" not in last and last["pat"].get("k") in ("Wild", "Binding")
        body = T.strip(last["body"])
        empty = (body.get("k") == "Call" and (body.get("fn") or "").endswith("Vec::<T>::new")) or \
            (any((y.get("fn") or "").endswith("box_assume_init_into_vec_unsafe") for y in T.walk(body)) and not any(y.get("k") == "Array" and y["elems"] for y in T.walk(body)))
        noloop = not any(y.get("k") == "Loop" for y in T.walk(body))
        rep.check(sorted(gs) == ["Gt", "Lt"] and is_catch and empty and noloop, "C11-R2", "%s|step-zero" % slice_fn, T.loc(m),
                  "step > 0 | step < 0 | otherwise vec![]",
                  "the dispatch on the step's sign has guards %s and the remaining case is `%s`: a step of 0 must select nothing" % (gs, T.pp(body)[:80]))
    for fn in (slice_fn, index_fn):
        t = ev.summary(fn)
        # result must be `as_array(inner).map(...)...unwrap_or_default()` or a match with None -> Nothing
        acc = [x for x in subterms(t) if x.k == "call" and x.a[0] == QT + "::as_array"]
        okarr = bool(acc) and all(x.a[1].k == "field" and x.a[1].a[1] == "inner" for x in acc)
        top_ok = (t.k == "call" and t.a[0].endswith("Option::<T>::unwrap_or_default")) or \
            (t.k == "match" and any(b.k == "adt" and b.a[1] == "Nothing" for _, _, b in t.a[1])) or \
            (t.k == "call" and t.a[0].endswith("Option::<T>::unwrap_or") and any(x.k == "adt" and x.a[1] == "Nothing" for x in subterms(t.a[2])))
        rep.check(okarr and top_ok, "C11-R2", "%s|non-array" % fn, prog.loc_of(fn), "as_array() None -> empty",
                  "the handler does not reduce to the empty result when the node is not an array: `%s`" % str(t)[:200])


# ------------------------------------------------------------------------------------------- R3
def r3(prog, ev, rep):
    rep.rule("C11-R3", "validated parameters: every parser construction of Selector::Index / Selector::Slice fields passes the value "
             "through the I-JSON range validator", floor=4)
    sites, validators = shared.int_slot_sites(prog, ev)
    from vflib.intervals import IJSON
    for vp, (lo, hi) in sorted(validators.items()):
        rep.check((lo, hi) == IJSON, "C11-R3", "validator:%s" % shared.rk(prog, ev, vp), prog.loc_of(vp), "admits exactly [-(2^53-1), 2^53-1]",
                  "the range validator admits [%d, %d]: index / start / end / step values at the edge of the I-JSON range are %s" % (
                      lo, hi, "rejected although valid" if (lo > IJSON[0] or hi < IJSON[1]) else "accepted although out of range"))
    for lab, p, node, cls in sites:
        if not lab.startswith("Selector::"):
            continue
        bad = [d for c, d in cls if c == "unvalidated"]
        if bad and all("(argument of " in d for d in bad):
            # built by a pass-through constructor whose callers' values could not be followed: not a claim that no check exists
            rep.unrecognised("C11-R3", "%s@%s" % (lab, p), T.loc(node) if node else prog.loc_of(p),
                             "%s is built by a conversion whose argument could not be traced back to the range validator: %s" % (lab, "; ".join(bad)[:240]))
            continue
        rep.check(not bad, "C11-R3", "%s@%s" % (lab, p), T.loc(node) if node else prog.loc_of(p), "range-checked",
                  "%s is stored without passing the range validator: %s" % (lab, "; ".join(bad)))


# ------------------------------------------------------------------------------------------- R4
def r4(ctx, prog, ev, rep, slice_fn, slice_args):
    rep.rule("C11-R4", "slot mapping: Rule::start/end/step -> tuple positions 0/1/2 -> Selector::Slice fields 0/1/2 -> handler "
             "parameters in order; the sign dispatch is driven by the step", floor=5)
    # parser side: the function returning the (start, end, step) tuple
    sel = prog.find_fn("crate::parser::selector")
    st = ev.summary(sel)
    slice_cons = [x for x in subterms(st) if x.k == "adt" and x.a[0] == M + "Selector" and x.a[1] == "Slice"]
    if len(slice_cons) != 1:
        rep.unrecognised("C11-R4", "parser/Selector::Slice", prog.loc_of(sel), "%d constructions" % len(slice_cons)); return
    f = dict(slice_cons[0].a[2])
    src_fn = None
    ok = True
    for i in ("0", "1", "2"):
        x = f.get(i)
        good = x is not None and x.k == "field" and x.a[1] == i and x.a[0].k == "try" and x.a[0].a[0].k == "call" and x.a[0].a[0].a[0] in prog.bodies
        if good:
            src_fn = x.a[0].a[0].a[0]
        ok = ok and good
    rep.check(ok, "C11-R4", "parser/Selector::Slice", T.loc(slice_cons[0].n) if slice_cons[0].n else prog.loc_of(sel), "Slice(t.0, t.1, t.2)",
              "Selector::Slice fields are not the tuple components in order: %s" % slice_cons[0])
    if src_fn:
        root = prog.bodies[src_fn]["thir"]["root"]
        # local assigned under each Rule arm, and the order of the returned tuple
        arm_var = {}
        for m in T.walk(root):
            if m.get("k") == "Match":
                for a in m["arms"]:
                    if a["pat"].get("k") == "Variant" and a["pat"].get("variant") in ("start", "end", "step"):
                        for y in T.walk(a["body"]):
                            if y.get("k") == "Assign" and T.peel(y["l"]).get("k") == "Var":
                                arm_var[a["pat"]["variant"]] = T.peel(y["l"])["var"]["id"]
        ret = None
        for y in T.walk(root):
            if y.get("k") == "Adt" and y.get("variant") == "Ok":
                tup = T.peel(y["fields"][0]["e"])
                if tup.get("k") == "Tuple" and len(tup["elems"]) == 3:
                    ret = [T.peel(e)["var"]["id"] if T.peel(e).get("k") == "Var" else None for e in tup["elems"]]
        good = ret is not None and [arm_var.get("start"), arm_var.get("end"), arm_var.get("step")] == ret and None not in ret
        rep.check(good, "C11-R4", "%s|rule->slot" % src_fn, prog.loc_of(src_fn), "start/end/step -> (0, 1, 2)",
                  "grammar rules start/end/step are assigned to %s but the tuple returns %s" % (arm_var, ret))
        # each arm parses the text of its own pair
        rep.ok("C11-R4", "%s|arms" % src_fn, prog.loc_of(src_fn), "three arms found") if len(arm_var) == 3 else \
            rep.bad("C11-R4", "%s|arms" % src_fn, prog.loc_of(src_fn), "arms for start/end/step: %s" % sorted(arm_var))
    # evaluator side
    order = [slice_args[0], slice_args[1], slice_args[2]]
    rep.check(order == sorted(order), "C11-R4", "dispatch/params", prog.loc_of(slice_fn), "fields 0,1,2 passed in order",
              "Selector::Slice fields are passed to the handler out of order: %s" % slice_args)
    # the sign dispatch is on the step parameter
    stepname = c08._pname(prog, slice_fn, slice_args[2])
    startname = c08._pname(prog, slice_fn, slice_args[0])
    endname = c08._pname(prog, slice_fn, slice_args[1])
    disp_ok = False
    for fam in fam_with_helpers(prog, slice_fn):
        for x in T.walk(prog.bodies[fam]["thir"]["root"]):
            if x.get("k") == "Match" and sum(1 for a in x["arms"] if "guard" in a) >= 2:
                names = {y["var"]["name"] for y in T.walk(x["scrut"]) if y.get("k") in ("Var", "Upvar")}
                disp_ok = names == {stepname}
    if not disp_ok:
        # term level (helper boundaries and variable names do not matter): the guards of the two walks are `step.unwrap_or(1) > 0`
        # and `< 0` over the handler's own step parameter
        try:
            EV[0] = ev
            names = {}
            for slot, nm in ((0, "start"), (1, "end"), (2, "step")):
                i = slice_args[slot]
                names[Tm("param", (i, c08._pname(prog, slice_fn, i)))] = nm
            sites = ev.sited(slice_fn)
            gets = [s_ for s_ in sites if s_["kind"] == "call" and (s_["term"].a[0] in ("core::slice::<impl [T]>::get",) or s_["term"].a[0].endswith("Index<I>>::index"))]
            arr = gets[-1]["term"].a[1] if gets else None
            ab = []
            ws = loop_walks(prog, ev, sites, names, arr, gets, ab) + range_walks(prog, ev, sites, names, arr, ab)
            mdl = rfc_model()
            gs = sorted(repr(w["guard"]) for w in ws)
            disp_ok = len(ws) == 2 and gs == sorted([repr(mdl["pos"]["guard"]), repr(mdl["neg"]["guard"])])
        except Exception:
            disp_ok = False
    rep.check(disp_ok, "C11-R4", "%s|dispatch-on-step" % slice_fn, prog.loc_of(slice_fn), "sign dispatch reads the step",
              "the sign dispatch does not read (only) the step parameter `%s`" % stepname)


# ------------------------------------------------------------------------------------------- R5
def r5(ctx, prog, ev, rep, slice_fn, index_fn):
    rep.rule("C11-R5", "bounds safety of the index/slice handlers: their panic-capable operations are discharged (C08-R2's interval "
             "analysis restricted to these two functions)", floor=10)
    from vflib.report import Report
    tmp = Report("C08")
    c08.r2(ctx, prog, ev, tmp)
    for i in tmp.instances:
        if i["rule"] == "C08-R2" and (i["key"].startswith(slice_fn + "|") or i["key"].startswith(index_fn + "|")):
            if i["status"] == "ok":
                rep.ok("C11-R5", i["key"], i["where"], i["msg"])
            else:
                rep.bad("C11-R5", i["key"], i["where"], i["msg"], status=i["status"])


# ------------------------------------------------------------------------------------------- R6
def norm(prog, t, names, len_of, depth=0):
    """Tm -> canonical tuple language (see module docstring of R6)."""
    if depth > 60:
        return ("?",)
    if t in names:
        return ("var", names[t])
    k = t.k
    if k == "cast":
        return norm(prog, t.a[1], names, len_of, depth + 1)
    if k == "lit" and t.a[0] == "int":
        return ("const", int(t.a[1]))
    if k == "call":
        m = t.a[0].rsplit("::", 1)[-1]
        if m == "len" and len(t.a) == 2:
            if len_of is None or t.a[1] == len_of:
                return ("len",)
            return ("len?", str(t.a[1])[:40])
        if t.a[0] in ("core::cmp::min", "core::cmp::max", "core::cmp::Ord::min", "core::cmp::Ord::max") and len(t.a) == 3:
            return mk(m, [norm(prog, t.a[1], names, len_of, depth + 1), norm(prog, t.a[2], names, len_of, depth + 1)])
        if m == "clamp" and len(t.a) == 4:
            return mk("min", [mk("max", [norm(prog, t.a[1], names, len_of, depth + 1), norm(prog, t.a[2], names, len_of, depth + 1)]),
                              norm(prog, t.a[3], names, len_of, depth + 1)])
        if m == "unwrap_or" and len(t.a) == 3:
            return ("default", norm(prog, t.a[1], names, len_of, depth + 1), norm(prog, t.a[2], names, len_of, depth + 1))
        if t.a[0] == "core::option::Option::<T>::map" and len(t.a) == 3 and t.a[2].k in ("closure", "fnitem") and EV[0] is not None:
            opt = norm(prog, t.a[1], names, len_of, depth + 1)
            lvl = sum(1 for v in names.values() if v.startswith("#"))
            hole = Tm("param", (90 + lvl, "payload"))
            n2 = dict(names)
            n2[hole] = "#%d" % lvl
            body = norm(prog, EV[0].apply(t.a[2], [hole]), n2, len_of, depth + 1)
            return ("optmap", opt, "#%d" % lvl, body)
        if m in ("abs", "unsigned_abs") and len(t.a) == 2:
            return ("abs", norm(prog, t.a[1], names, len_of, depth + 1))
        if m in ("copied", "cloned") and len(t.a) == 2:
            return norm(prog, t.a[1], names, len_of, depth + 1)
        return ("call", m)
    if k == "bin":
        op = t.a[0]
        a, b = norm(prog, t.a[1], names, len_of, depth + 1), norm(prog, t.a[2], names, len_of, depth + 1)
        if op == "Add":
            return mk("add", [a, b])
        if op == "Sub":
            return mk("add", [a, neg(b)])
        if op == "Lt":
            return ("lt", a, b)
        if op == "Gt":
            return ("lt", b, a)
        if op == "Ge":
            return ("nlt", a, b)
        if op == "Le":
            return ("nlt", b, a)
        return (op.lower(), a, b)
    if k == "un" and t.a[0] == "Neg":
        return neg(norm(prog, t.a[1], names, len_of, depth + 1))
    if k == "if":
        return ("ite", norm(prog, t.a[0], names, len_of, depth + 1), norm(prog, t.a[1], names, len_of, depth + 1), norm(prog, t.a[2], names, len_of, depth + 1))
    if k == "phi":
        alts = [x for x in t.a if x.k != "loopvar"]
        if len(alts) == 1:
            return norm(prog, alts[0], names, len_of, depth + 1)
    return ("?", k)


RID = ["C11-R6"]   # rule id under which the slice/index agreement is reported (C01 and C02 share the analysis)
EV = [None]      # evaluator used by norm() to apply closures handed to Option::map


def substitute(x, name, repl):
    if not isinstance(x, tuple):
        return x
    if x == ("var", name):
        return repl
    return tuple(substitute(y, name, repl) if isinstance(y, tuple) else y for y in x)


def resolve(x, present):
    """Eliminate the Option layer for one presence assignment {name: bool}: ('var', n) of an Option parameter becomes
    ('val', n); `default`/`optmap` are reduced.  -> integer-valued tree, or raises pwl.Undecided."""
    def opt(o):
        # -> ('some', tree) | ('none',)
        if o[0] == "var" and o[1] in present:
            return ("some", ("val", o[1])) if present[o[1]] else ("none",)
        if o[0] == "optmap":
            inner = opt(o[1])
            if inner[0] == "none":
                return inner
            return ("some", val(substitute(o[3], o[2], inner[1])))
        raise pwl.Undecided("option expression `%s`" % show(o)[:80])

    def val(t):
        if not isinstance(t, tuple):
            return t
        h = t[0]
        if h == "default":
            o = opt(t[1])
            return o[1] if o[0] == "some" else val(t[2])
        if h in ("min", "max", "add"):
            return mk(h, [val(y) for y in t[1]])
        if h == "neg":
            return neg(val(t[1]))
        if h == "ite":
            return ("ite", (t[1][0], val(t[1][1]), val(t[1][2])) if t[1][0] in ("lt", "nlt") else t[1], val(t[2]), val(t[3]))
        if h == "var" and t[1] in present:
            raise pwl.Undecided("Option parameter `%s` used as an integer" % t[1])
        if h in ("optmap",):
            raise pwl.Undecided("Option used as an integer")
        return t
    return val(x)


def region_compare(direction, got, want, bounds):
    """got/want = (init, bound) normalised trees.  -> ('equal', stats) | ('different', text, stats) ; raises pwl.Undecided"""
    lo, hi = bounds
    total = {"regions": 0, "queries": 0, "presence_cases": 0}
    for ps, pe in ((True, True), (True, False), (False, True), (False, False)):
        present = {"start": ps, "end": pe, "step": True}
        g = (resolve(got[0], present), resolve(got[1], present))
        w = (resolve(want[0], present), resolve(want[1], present))
        if g == w:
            total["presence_cases"] += 1
            continue
        order = ["start", "end", "len"]
        domain = [{"len": 1}, {"len": -1, 1: 2 ** 47}]
        for v in ("start", "end"):
            domain += [{v: 1, 1: -lo}, {v: -1, 1: hi}]
        wit, vals, stats = pwl.walk_diff(direction, g, w, domain, order)
        total["presence_cases"] += 1
        total["regions"] += stats["regions"]
        total["queries"] += stats["queries"]
        if wit is not None:
            length = wit.get("len", 0)
            # certify on the model walks: find a step for which the emitted indices differ
            sgn = 1 if direction == "pos" else -1
            for mag in (1, 2, 3, abs(vals["init"][0]) or 1, abs(vals["init"][1]) or 1, length + abs(vals["init"][0]) + abs(vals["init"][1]) + 1):
                a = pwl.emitted(direction, vals["init"][0], vals["stop"][0], sgn * mag, length)
                b = pwl.emitted(direction, vals["init"][1], vals["stop"][1], sgn * mag, length)
                if a != b:
                    q = "[%s:%s:%d]" % (wit["start"] if ps else "", wit["end"] if pe else "", sgn * mag)
                    return ("different", "for `%s` on an array of %d elements the code walks from %d to (excl.) %d and selects indices %s, "
                            "RFC 9535 walks from %d to %d and selects %s" % (q, length, vals["init"][0], vals["stop"][0], a, vals["init"][1], vals["stop"][1], b), total)
            raise pwl.Undecided("a differing region was found but no step made the difference visible")
    return ("equal", total)


def neg(x):
    if x[0] == "const":
        return ("const", -x[1])
    if x[0] == "neg":
        return x[1]
    if x[0] == "add":
        return mk("add", [neg(y) for y in x[1]])
    return ("neg", x)


def mk(op, args):
    flat = []
    for a in args:
        if a[0] == op and op in ("add", "min", "max"):
            flat.extend(a[1])
        else:
            flat.append(a)
    if op == "add":
        c = sum(a[1] for a in flat if a[0] == "const")
        rest = [a for a in flat if a[0] != "const"]
        if c != 0 or not rest:
            rest.append(("const", c))
        flat = rest
        if len(flat) == 1:
            return flat[0]
    return (op, tuple(sorted(flat, key=repr)))


def linear(x):
    """built from constants, len, + and - only"""
    if not isinstance(x, tuple):
        return False
    if x[0] in ("const", "len"):
        return True
    if x[0] == "neg":
        return linear(x[1])
    if x[0] == "add":
        return all(linear(y) for y in x[1])
    return False


def shape(x):
    """Shape of a formula: operators kept, every linear leaf expression over {constants, len} collapsed to `L`,
    variables to `v`, min/max identified, comparison direction ignored."""
    if not isinstance(x, tuple):
        return "."
    if linear(x):
        return "L"
    h = x[0]
    if h in ("var",):
        return "v"
    if h in ("min", "max"):
        return ("mm", tuple(sorted((shape(y) for y in x[1]), key=repr)))
    if h == "add":
        parts = [shape(y) for y in x[1] if not linear(y)]
        if any(linear(y) for y in x[1]):
            parts.append("L")
        return ("add", tuple(sorted(parts, key=repr)))
    if h in ("lt", "nlt"):
        return ("cmp", tuple(sorted([shape(x[1]), shape(x[2])], key=repr)))
    return (h,) + tuple(shape(y) for y in x[1:])


def V(n):
    return ("var", n)


def C(n):
    return ("const", n)


LEN = ("len",)


def rfc_norm(x):
    return ("ite", ("nlt", x, C(0)), x, mk("add", [LEN, x]))


def rfc_model():
    S = ("default", V("step"), C(1))
    pos_start = ("default", V("start"), C(0))
    pos_end = ("default", V("end"), LEN)
    neg_start = ("default", V("start"), mk("add", [LEN, C(-1)]))
    neg_end = ("default", V("end"), mk("add", [neg(LEN), C(-1)]))
    return {
        "step": S,
        "pos": {"guard": ("lt", C(0), S),
                "init": mk("min", [mk("max", [rfc_norm(pos_start), C(0)]), LEN]),
                "bound": mk("min", [mk("max", [rfc_norm(pos_end), C(0)]), LEN]),
                "cond": "idx < bound"},
        "neg": {"guard": ("lt", S, C(0)),
                "init": mk("min", [mk("max", [rfc_norm(neg_start), C(-1)]), mk("add", [LEN, C(-1)])]),
                "bound": mk("min", [mk("max", [rfc_norm(neg_end), C(-1)]), mk("add", [LEN, C(-1)])]),
                "cond": "bound < idx"},
    }


def diff(a, b, path=""):
    """first differing sub-term of two same-shaped trees"""
    if a == b:
        return None
    if (isinstance(a, tuple) and isinstance(b, tuple) and linear(a) and linear(b)) or \
            not isinstance(a, tuple) or not isinstance(b, tuple) or a[0] != b[0] or len(a) != len(b):
        return "%s: code has `%s`, RFC 9535 has `%s`" % (path or "term", show(a), show(b))
    if a[0] in ("min", "max", "add"):
        ra = [x for x in a[1] if x not in b[1]]
        rb = [x for x in b[1] if x not in a[1]]
        if len(ra) == 1 and len(rb) == 1:
            return diff(ra[0], rb[0], path + "/" + a[0])
        return "%s: code has `%s`, RFC 9535 has `%s`" % (path or "term", show(a), show(b))
    if linear(a) and linear(b):
        return "%s: code has `%s`, RFC 9535 has `%s`" % (path or "term", show(a), show(b))
    for i in range(1, len(a)):
        d = diff(a[i], b[i], path + "/" + a[0])
        if d:
            return d
    return None


def show(x):
    if not isinstance(x, tuple):
        return str(x)
    h = x[0]
    if h == "const":
        return str(x[1])
    if h == "var":
        return x[1]
    if h == "len":
        return "len"
    if h in ("min", "max", "add"):
        return "%s(%s)" % (h, ", ".join(show(y) for y in x[1])) if h != "add" else "(" + " + ".join(show(y) for y in x[1]) + ")"
    if h == "neg":
        return "-" + show(x[1])
    if h == "default":
        return "%s.unwrap_or(%s)" % (show(x[1]), show(x[2]))
    if h == "ite":
        return "(if %s {%s} else {%s})" % (show(x[1]), show(x[2]), show(x[3]))
    if h == "abs":
        return "|%s|" % show(x[1])
    if h == "optmap":
        return "%s.map(|%s| %s)" % (show(x[1]), x[2], show(x[3]))
    if h == "val":
        return x[1]
    if h == "lt":
        return "%s < %s" % (show(x[1]), show(x[2]))
    if h == "nlt":
        return "%s >= %s" % (show(x[1]), show(x[2]))
    return str(x)


def _guard_of(prog, pc, names, arr):
    guard = None
    for c in pc:
        if c[0] == "arm" and c[3] is not None:
            guard = norm(prog, c[3], names, arr)
    if guard is None:
        # an if / else-if chain instead of a guarded match: the taken test that is a sign test of the step
        mdl = rfc_model()
        for c in pc:
            if c[0] == "if" and c[2] is True:
                n = norm(prog, c[1], names, arr)
                if n in (mdl["pos"]["guard"], mdl["neg"]["guard"]):
                    guard = n
    return guard


def _extra_conds(pc, names, skip=None):
    """conditions on the path to a walk, other than the sign guard and the loop condition, that read the slice parameters or a
    length: under them the code selects nothing, which the walk comparison does not see"""
    out = []
    for c in pc:
        if c[0] != "if" or c[1] is skip:
            continue
        ment = {names[y] for y in subterms(c[1]) if y in names}
        lens = any(y.k == "call" and y.a[0].rsplit("::", 1)[-1] in ("len", "is_empty") for y in subterms(c[1]))
        if ment == {"step"} and not lens:
            continue        # a sign test of the step belongs to the dispatch (if / else-if chains leave the failed test on the path)
        if ment or lens:
            out.append(c[1])
    return out


def loop_walks(prog, ev, sites, names, arr, gets, abstain):
    """counter loops  `idx = init; while idx < bound { ..get(idx).. ; idx += step }`"""
    out = []
    loops = [s for s in sites if s["kind"] == "loop"]
    ups = [s for s in sites if s["kind"] == "assignop"]
    if len(loops) != len(ups):
        abstain.append("%d loops with %d counter updates" % (len(loops), len(ups)))
        return out
    for u in ups:
        term, pc = u["term"], u["pc"]      # bin(Add, phi(init | loopvar), step)
        if term.a[0] not in ("Add", "Sub"):
            abstain.append("update is not += / -="); continue
        idx = term.a[1]
        inits = [x for x in idx.a if x.k != "loopvar"] if idx.k == "phi" else [idx]
        if len(inits) != 1:
            abstain.append("loop counter has %d initial values" % len(inits)); continue
        init = norm(prog, inits[0], names, arr)
        stepn = norm(prog, term.a[2], names, arr)
        if term.a[0] == "Sub":
            stepn = neg(stepn)
        cond = None
        for c in pc:
            if c[0] == "if" and c[2] is True and c[1].k == "bin":
                cond = c[1]
        guard = _guard_of(prog, pc, names, arr)
        if guard is None or cond is None:
            abstain.append("dispatch guard / loop condition not found on the path to the update"); continue
        ex = _extra_conds(pc, names, skip=cond)
        if ex:
            abstain.append("the walk is only reached under a further condition on the bounds (`%s`): an early exit that the walk comparison cannot see" % str(ex[0])[:120]); continue
        cn = norm(prog, cond, names, arr)
        idxn = norm(prog, idx, names, arr)

        def resolve(direction, cn=cn, idxn=idxn, init=init, stepn=stepn):
            bound = None
            if cn[0] == "lt":
                if direction == "pos" and cn[1] == idxn:
                    bound = cn[2]
                elif direction == "neg" and cn[2] == idxn:
                    bound = cn[1]
            if bound is None:
                if cn[0] in ("lt", "nlt"):
                    return init, None, stepn, "loop condition is `%s` with counter `%s`" % (show(cn)[:200], show(idxn)[:80])
                raise pwl.Undecided("loop condition `%s` has a different shape" % show(cn)[:120])
            return init, bound, stepn, None
        fetch = any(any(y == idx for y in subterms(g["term"].a[2])) for g in gets)
        out.append({"kind": "loop", "guard": guard, "resolve": resolve, "fetch": fetch, "where": T.loc(u["node"])})
    return out


def range_walks(prog, ev, sites, names, arr, abstain):
    """stepped ranges  `(a..b)[.rev()][.step_by(n)].filter_map(|i| A.get(i)..)/map(|i| ..A[i]..)...collect()`"""
    from vflib import pipeline as PL
    from vflib.intervals import Intervals, TYPE_RANGE
    iv = Intervals()
    out = []
    seen = set()
    for s in sites:
        if s["kind"] != "call" or not s["term"].a[0].endswith("Iterator::collect"):
            continue
        src, stages = PL.unwind(s["term"])
        if not (src.k == "adt" and src.a[0].startswith("core::ops::range::Range") and src.a[1] == "Range"):
            continue
        if id(s["node"]) in seen:
            continue
        seen.add(id(s["node"]))
        pc = s["pc"]
        ex = _extra_conds(pc, names)
        if ex:
            abstain.append("the walk is only reached under a further condition on the bounds (`%s`): an early exit that the walk comparison cannot see" % str(ex[0])[:120]); continue
        fd = dict(src.a[2])
        a, b = fd.get("start"), fd.get("end")
        names_ = [st[0] for st in stages]
        k = 0
        rev = False
        n_term = None
        if k < len(names_) and names_[k] == "rev":
            rev = True; k += 1
        if k < len(names_) and names_[k] == "step_by":
            n_term = stages[k][1][0]; k += 1
            if k < len(names_) and names_[k] == "rev":
                out.append({"kind": "misanchored", "guard": _guard_of(prog, pc, names, arr), "where": T.loc(s["node"]), "fetch": True,
                            "resolve": None})
                continue
        rest = names_[k:]
        if not rest or rest[-1] != "collect" or rest[0] not in ("filter_map", "map") or any(x not in ("map", "filter_map", "collect") for x in rest):
            abstain.append("range pipeline %s is not [rev] [step_by] filter_map|map .. collect" % names_); continue
        # casts on the way must preserve the value (a negative i64 `as usize` wraps)
        wraps = []
        for t0 in (a, b) + ((n_term,) if n_term is not None else ()):
            for x in subterms(t0):
                if x.k == "cast":
                    tr = TYPE_RANGE.get(x.a[0].strip())
                    r = iv.iv(x.a[1], pc)
                    if tr is not None and not (r[0] >= tr[0] and r[1] <= tr[1]):
                        wraps.append(str(x)[:80])
        marker = Tm("param", (95, "position"))
        fetch = False
        val = marker
        for st in stages[k:-1]:
            body = ev.apply(st[1][0], [val])
            for x in subterms(body):
                if x.k == "call" and (x.a[0] == "core::slice::<impl [T]>::get" or x.a[0].endswith("Index<I>>::index")) and len(x.a) == 3:
                    ix = x.a[2]
                    while ix.k == "cast":
                        ix = ix.a[1]
                    if ix == marker:
                        fetch = True
            val = ev.mkproj(body, "Option::Some.0") if st[0] == "filter_map" else body
            while val.k == "cast":
                val = val.a[1]         # `idx as usize` of a position that is in range anyway
        an, bn = norm(prog, a, names, arr), norm(prog, b, names, arr)
        nn = norm(prog, n_term, names, arr) if n_term is not None else C(1)

        def resolve(direction, an=an, bn=bn, nn=nn, rev=rev, wraps=wraps):
            if wraps:
                raise pwl.Undecided("a cast in the range bounds may wrap: %s" % wraps[0])
            if nn[0] == "abs":
                nn2 = nn[1] if direction == "pos" else neg(nn[1])
            else:
                nn2 = nn
            if not rev:
                return an, bn, nn2, (None if direction == "pos" else "an ascending range is walked in the branch for negative steps")
            # (a..b).rev().step_by(n): b-1, b-1-n, ... > a-1
            return mk("add", [bn, C(-1)]), mk("add", [an, C(-1)]), neg(nn2), (None if direction == "neg" else "a reversed range is walked in the branch for positive steps")
        out.append({"kind": "range", "guard": _guard_of(prog, pc, names, arr), "resolve": resolve, "fetch": fetch, "where": T.loc(s["node"])})
    return out


_SELFCHECK = {}


def region_selfcheck(rep):
    """the region analysis must call known-equivalent rewrites equal and known-different ones different, on every run"""
    m = rfc_model()
    S, E = V("start"), V("end")
    nrm = lambda hole: ("ite", ("nlt", hole, C(0)), hole, mk("add", [LEN, hole]))
    # equivalent: pos walk without the redundant clamps (init not clamped to len, bound not clamped to 0), Option::map style
    eq_pos = (mk("max", [("default", ("optmap", S, "#", nrm(("var", "#"))), C(0)), C(0)]),
              mk("min", [("default", ("optmap", E, "#", nrm(("var", "#"))), LEN), LEN]))
    # equivalent: neg walk with the absent end defaulting directly to -1 and the bound not clamped from above
    eq_neg = (m["neg"]["init"], mk("max", [("default", ("optmap", E, "#", nrm(("var", "#"))), C(-1)), C(-1)]))
    # different: explicit negative bounds clamped to 0 before use (loses index 0 going down)
    nrm0 = lambda hole: ("ite", ("nlt", hole, C(0)), hole, mk("max", [mk("add", [LEN, hole]), C(0)]))
    df_neg = (m["neg"]["init"], mk("min", [mk("max", [("default", ("optmap", E, "#", nrm0(("var", "#"))), C(-1)), C(-1)]), mk("add", [LEN, C(-1)])]))
    # different: pos init clamped to len - 1
    df_pos = (mk("min", [mk("max", [rfc_norm(("default", S, C(0))), C(0)]), mk("add", [LEN, C(-1)])]), m["pos"]["bound"])
    from vflib.intervals import IJSON
    res = _SELFCHECK.get("res") or []
    for name, d, g, expect in ((("eq_pos", "pos", eq_pos, "equal"),) if not res else ()) + tuple(x for x in (("eq_neg", "neg", eq_neg, "equal"), ("df_neg", "neg", df_neg, "different"), ("df_pos", "pos", df_pos, "different")) if not res):
        try:
            r = region_compare(d, g, (m[d]["init"], m[d]["bound"]), IJSON)[0]
        except pwl.Undecided as u:
            r = "undecided: %s" % u
        res.append((name, r == expect, r))
    _SELFCHECK["res"] = res
    rep.control(RID[0], all(ok for _, ok, _ in res), "region analysis self-check: 2 equivalent rewrites proved equal, 2 deviating ones separated with a witness (%s)" % ", ".join("%s=%s" % (n, r) for n, _, r in res))
    return
    for name, d, g, expect in (("eq_pos", "pos", eq_pos, "equal"), ("eq_neg", "neg", eq_neg, "equal"), ("df_neg", "neg", df_neg, "different"), ("df_pos", "pos", df_pos, "different")):
        try:
            r = region_compare(d, g, (m[d]["init"], m[d]["bound"]), IJSON)[0]
        except pwl.Undecided as u:
            r = "undecided: %s" % u
        res.append((name, r == expect, r))
    rep.control(RID[0], all(ok for _, ok, _ in res), "region analysis self-check: 2 equivalent rewrites proved equal, 2 deviating ones separated with a witness (%s)" % ", ".join("%s=%s" % (n, r) for n, _, r in res))


def shared_work_rule(prog, ev, rep, rid):
    from vflib.report import Report, Shared
    tmp = Report("tmp")
    h = find_handlers(prog, ev, tmp)
    if h is None:
        rep.unrecognised(rid, "handlers", "-", "slice/index handlers not found in the Selector dispatch")
        return
    r7(prog, ev, Shared(rep, {"C11-R7": rid}, lender="C11"), h[0], h[2])


def shared_walk_rule(prog, ev, rep, rid, title):
    """The slice/index agreement analysis reported under another property's rule id (C01: exactly the RFC's nodes; C02: index
    order, descending for negative steps)."""
    sp = prog.impl_method(Q, M + "Selector", "process")
    from vflib.report import Report
    tmp = Report("tmp")
    h = find_handlers(prog, ev, tmp)
    if h is None:
        rep.rule(rid, title)
        rep.unrecognised(rid, "handlers", prog.loc_of(sp), "slice/index handlers not found in the Selector dispatch")
        return
    slice_fn, index_fn, slice_args, index_args = h
    r6(prog, ev, rep, slice_fn, slice_args, index_fn, index_args, rid=rid, title=title)


def r6(prog, ev, rep, slice_fn, slice_args, index_fn, index_args, rid="C11-R6", title=None):
    RID[0] = rid
    try:
        _r6(prog, ev, rep, slice_fn, slice_args, index_fn, index_args, title)
    finally:
        RID[0] = "C11-R6"


def _r6(prog, ev, rep, slice_fn, slice_args, index_fn, index_args, title):
    rep.rule(RID[0], title or (
             "agreement with RFC 9535 2.3.4.2.2 / 2.3.3.2: sign guards, loop condition, increment, element fetch; first index "
             "and stop bound of both walks and the index selector's guards by region analysis of the piecewise-linear formulas "
             "(equivalent rewrites are proved equivalent; deviations come with an integer witness)"), floor=14)
    EV[0] = ev
    okv, _sites = shared.all_int_slots_validated(prog, ev)
    from vflib.intervals import IJSON
    int_bounds = IJSON if okv else (-2 ** 63, 2 ** 63 - 1)
    region_selfcheck(rep)
    names = {}
    for slot, nm in ((0, "start"), (1, "end"), (2, "step")):
        i = slice_args[slot]
        names[Tm("param", (i, c08._pname(prog, slice_fn, i)))] = nm
    sites = ev.sited(slice_fn)
    gets = [s for s in sites if s["kind"] == "call" and (s["term"].a[0] in ("core::slice::<impl [T]>::get",) or s["term"].a[0].endswith("Index<I>>::index"))]
    abstain = []
    model = rfc_model()
    arr = None
    for g in gets:
        arr = g["term"].a[1]
    walks = loop_walks(prog, ev, sites, names, arr, gets, abstain) + range_walks(prog, ev, sites, names, arr, abstain)
    if len(walks) != 2 and not abstain:
        abstain.append("the handler is not two index walks (found %d: counter loops / stepped ranges)" % len(walks))
    decided = 0
    if not abstain:
        for w in walks:
            guard, where = w["guard"], w["where"]
            direction = None
            if guard == model["pos"]["guard"]:
                direction = "pos"
            elif guard == model["neg"]["guard"]:
                direction = "neg"
            else:
                # same shape as a sign test of the step? then it is wrong; else abstain
                if guard is not None and shape(guard) == shape(model["pos"]["guard"]):
                    rep.bad(RID[0], "%s|guard" % slice_fn, where,
                            "direction guard is `%s`; RFC 9535 distinguishes step > 0 and step < 0 with step = step.unwrap_or(1)" % show(guard))
                    decided += 1
                else:
                    abstain.append("dispatch guard `%s` has a different shape" % (show(guard) if guard else None))
                continue
            mdl = model[direction]
            key = "%s|%s" % (slice_fn, direction)
            if w["kind"] == "misanchored":
                rep.bad(RID[0], key + "/walk", where,
                        "`(a..b).step_by(n).rev()` strides upward from a and is then reversed: it selects a, a+n, ... in reverse, whereas "
                        "RFC 9535 2.3.4.2.2 strides from the other end; the two differ whenever the range length minus one is not a multiple of n "
                        "(e.g. `[::-2]` on four elements selects indices 2,0 instead of 3,1)")
                decided += 1
                continue
            try:
                init, bound, stepn, cond_problem = w["resolve"](direction)
            except pwl.Undecided as u:
                abstain.append("%s walk: %s" % (direction, u)); continue
            if cond_problem:
                rep.bad(RID[0], key + "/condition", where, cond_problem + "; RFC 9535 requires `%s`" % mdl["cond"])
                decided += 1
                continue
            decided += 1
            rep.ok(RID[0], key + "/condition", where, mdl["cond"] + (" (inherent in the range)" if w["kind"] == "range" else ""))
            if init == mdl["init"] and bound == mdl["bound"]:
                rep.ok(RID[0], "%s/init" % key, where, show(mdl["init"])[:150])
                rep.ok(RID[0], "%s/bound" % key, where, show(mdl["bound"])[:150])
                decided += 2
            else:
                # not the RFC's text: decide by region analysis whether the two walks select the same indices for every
                # (len, start, end, step of this sign)
                try:
                    res = region_compare(direction, (init, bound), (mdl["init"], mdl["bound"]), int_bounds)
                    if res[0] == "equal":
                        rep.ok(RID[0], "%s/init" % key, where, "differs textually from RFC 9535 but selects the same indices in all %d regions (%d emptiness queries)" % (res[1]["regions"], res[1]["queries"]))
                        rep.ok(RID[0], "%s/bound" % key, where, "same")
                    else:
                        rep.bad(RID[0], "%s/walk" % key, where,
                                "the %s-step walk does not select the elements RFC 9535 2.3.4.2.2 selects: %s" % ("positive" if direction == "pos" else "negative", res[1]))
                    rep.extra.setdefault("c11_r6_region_analysis", []).append({"direction": direction, "verdict": res[0], "stats": res[-1]})
                    decided += 2
                except pwl.Undecided as u:
                    abstain.append("%s walk: init `%s`, bound `%s` are not the RFC's text and region analysis is undecided (%s)" % (direction, show(init)[:100], show(bound)[:100], u))
            want = model["step"]
            if stepn == want:
                rep.ok(RID[0], "%s/step" % key, where, show(want)[:150]); decided += 1
            elif shape(stepn) == shape(want) or stepn[0] == "const":
                rep.bad(RID[0], "%s/step" % key, where, "increment of the %s-step walk deviates from RFC 9535 2.3.4.2.2 at %s" % (
                    "positive" if direction == "pos" else "negative", diff(stepn, want) or "?"))
                decided += 1
            else:
                abstain.append("%s/step `%s` has a different shape than the RFC's `%s`" % (direction, show(stepn)[:120], show(want)[:120]))
            # the element emitted is the one at the counter
            if w["fetch"]:
                rep.ok(RID[0], key + "/element", where, "element fetched at the counter"); decided += 1
            else:
                abstain.append("element fetch is not at the walk's counter")
    for a in abstain:
        rep.note("C11-R6 abstains: " + a)
    if abstain:
        rep.unrecognised(RID[0], "%s|walks" % slice_fn, prog.loc_of(slice_fn), "the slice handler could not be read as two index walks: " + "; ".join(abstain)[:400])
    rep.extra["c11_r6_decided"] = decided
    rep.extra["c11_r6_abstained"] = abstain
    rep.extra["c11_r6_walks"] = [w["kind"] for w in walks]
    # index selector: RFC 9535 2.3.3.2: i >= 0 selects a[i] iff i < len ; i < 0 selects a[len + i] iff len + i >= 0
    try:
        index_region_check(prog, ev, rep, index_fn, index_args, int_bounds)
    except pwl.Undecided as u:
        rep.note("C11-R6 abstains on the index selector: %s" % u)
        rep.extra.setdefault("c11_r6_abstained", []).append("index selector: %s" % u)


def cmp_cases(g):
    """g = ('lt'|'nlt', x, y) over integer trees -> list of constraint lists"""
    if g[0] not in ("lt", "nlt"):
        raise pwl.Undecided("guard `%s` is not an integer comparison" % show(g)[:80])
    out = []
    for (cx, rx), (cy, ry) in pwl.product(pwl.cases(g[1]), pwl.cases(g[2])):
        out.append(cx + cy + [pwl.gt(ry, rx) if g[0] == "lt" else pwl.ge(rx, ry)])
    return out


def flip(g):
    return ("nlt" if g[0] == "lt" else "lt", g[1], g[2]) if g[0] in ("lt", "nlt") else g


def index_region_check(prog, ev, rep, index_fn, index_args, int_bounds):
    p = Tm("param", (index_args[0], c08._pname(prog, index_fn, index_args[0])))
    inames = {p: "i"}
    I = ("val", "i")
    sites = []
    for s in ev.sited(index_fn):
        if s["kind"] != "call":
            continue
        nm = s["term"].a[0]
        if nm.endswith("Index<I>>::index"):
            sites.append((s, False))
        elif nm == "core::slice::<impl [T]>::get":
            sites.append((s, True))
    if not sites:
        raise pwl.Undecided("no element fetch (indexing or get) found in the handler")
    if any(s_.get("pc_incomplete") for s_, _ in sites):
        raise pwl.Undecided("an early exit inside a nested block precedes the element fetch: the guards it establishes could not be carried along")
    lo, hi = int_bounds
    domain = [{"len": 1}, {"len": -1, 1: 2 ** 47}, {"i": 1, 1: -lo}, {"i": -1, 1: hi}]
    order = ["i", "len"]
    R = {"non-negative": ([{"i": 1}, {"len": 1, "i": -1, 1: -1}], {"i": 1}),
         "negative": ([{"i": -1, 1: -1}, {"len": 1, "i": 1}], {"len": 1, "i": 1})}
    OUT = {"i >= len": [{"i": 1, "len": -1}], "i < -len": [{"i": -1, "len": -1, 1: -1}]}
    stats = {"sites": len(sites), "queries": 0}
    site_guards = []
    problems = []
    # an index computed as an Option by a conditional (`a[pick(i, len)?]`): one virtual site per `Some(x)` leaf
    vsites = []
    for s, filtered in sites:
        raw = s["term"].a[2]
        while raw.k == "cast":
            raw = raw.a[1]
        if raw.k == "try":
            raw = Tm("proj", (raw.a[0], "Option::Some.0"))
        optional = raw.k == "proj" and raw.a[1] == "Option::Some.0" and raw.a[0].k in ("if", "match", "assume")
        if optional or raw.k in ("if", "assume"):
            def walk(t, extra, out, optional=optional):
                while t.k == "cast":
                    t = t.a[1]
                if t.k == "if":
                    walk(t.a[1], extra + (("if", t.a[0], True),), out)
                    walk(t.a[2], extra + (("if", t.a[0], False),), out)
                elif t.k == "assume":
                    walk(t.a[0], extra + tuple(t.a[1]), out)
                elif optional and t.k == "adt" and t.a[1] == "Some":
                    out.append((extra, t.a[2][0][1]))
                elif optional and t.k == "adt" and t.a[1] == "None":
                    pass
                elif not optional:
                    out.append((extra, t))
                else:
                    raise pwl.Undecided("index computed by `%s`" % str(t)[:80])
            out = []
            walk(raw.a[0] if optional else raw, (), out)
            for extra, v in out:
                vsites.append((s, filtered, tuple(s["pc"]) + extra, v))
        else:
            vsites.append((s, filtered, tuple(s["pc"]), s["term"].a[2]))
    stats["sites"] = len(vsites)
    for s, filtered, pcs, ixterm in vsites:
        arr = s["term"].a[1]
        ix = substitute(norm(prog, ixterm, inames, arr), "i", I)
        guards = []
        for c in pcs:
            if c[0] == "if":
                if c[1].k != "bin":
                    raise pwl.Undecided("guard `%s`" % str(c[1])[:80])
                n = substitute(norm(prog, c[1], inames, arr), "i", I)
                guards.append(n if c[2] else flip(n))
        if filtered:
            guards += [("nlt", ix, C(0)), ("lt", ix, LEN)]
        site_guards.append(guards)
        where = T.loc(s["node"])
        conj = [[]]
        for g in guards:
            conj = [a + b for a in conj for b in cmp_cases(g)]
        found = None
        for c in conj:
            for cx, form in pwl.cases(ix):
                base = domain + c + cx
                for rname, (rc, want) in R.items():
                    if form != want:
                        for d in (pwl.gt(form, want), pwl.gt(want, form)):
                            stats["queries"] += 1
                            v, pt = pwl.decide(base + rc + [d], order)
                            if v == "point" and not found:
                                found = "for index %d on an array of %d elements the code selects element %d, RFC 9535 selects element %d" % (
                                    pt["i"], pt["len"], pwl.leval(form, pt), pwl.leval(want, pt))
                for oname, oc in OUT.items():
                    stats["queries"] += 1
                    v, pt = pwl.decide(base + oc, order)
                    if v == "point" and not found:
                        found = "for index %d on an array of %d elements (%s) the code selects element %d, RFC 9535 selects nothing" % (
                            pt["i"], pt["len"], oname, pwl.leval(form, pt))
        key = "%s|site:%s" % (index_fn, show(ix))
        if found:
            rep.bad(RID[0], key, where, "index selector deviates from RFC 9535 2.3.3.2: " + found)
            problems.append(found)
        else:
            rep.ok(RID[0], key, where, "under its guards %s the fetch `a[%s]` is exactly the RFC's element" % ([show(g) for g in guards], show(ix)))
    # completeness: wherever the RFC selects an element, some site's guards hold
    for rname, (rc, want) in R.items():
        found = None
        choices = [[]]
        for guards in site_guards:
            choices = [ch + [flip(g)] for ch in choices for g in guards] if guards else []
        for ch in choices:
            conj = [[]]
            for g in ch:
                conj = [a + b for a in conj for b in cmp_cases(g)]
            for c in conj:
                stats["queries"] += 1
                v, pt = pwl.decide(domain + rc + c, order)
                if v == "point" and not found:
                    found = "index %d on an array of %d elements selects nothing, RFC 9535 selects element %d" % (pt["i"], pt["len"], pwl.leval(want, pt))
        key = "%s|%s" % (index_fn, rname)
        if found:
            rep.bad(RID[0], key, prog.loc_of(index_fn), "index selector deviates from RFC 9535 2.3.3.2: " + found)
        else:
            rep.ok(RID[0], key, prog.loc_of(index_fn), "every %s in-range index reaches an element fetch" % rname)
    rep.extra["c11_r6_index_region_analysis"] = stats


# ------------------------------------------------------------------------------------------- R7
WORK_EXCESS = 2 ** 32


def r7(prog, ev, rep, slice_fn, slice_args):
    rep.rule("C11-R7", "termination in time proportional to the array: the number of positions a slice walk visits is bounded by the "
             "array length, not by how far start/end overshoot it -- in no region of (len, start, end) does the walk's extent "
             "|bound - init| exceed len by more than 2^32 (with bounds near 2^53 such a walk does not terminate in practice)", floor=2)
    EV[0] = ev
    okv, _sites = shared.all_int_slots_validated(prog, ev)
    from vflib.intervals import IJSON
    lo, hi = IJSON if okv else (-2 ** 63, 2 ** 63 - 1)
    names = {}
    for slot, nm in ((0, "start"), (1, "end"), (2, "step")):
        i = slice_args[slot]
        names[Tm("param", (i, c08._pname(prog, slice_fn, i)))] = nm
    sites = ev.sited(slice_fn)
    gets = [s for s in sites if s["kind"] == "call" and (s["term"].a[0] in ("core::slice::<impl [T]>::get",) or s["term"].a[0].endswith("Index<I>>::index"))]
    arr = None
    for g in gets:
        arr = g["term"].a[1]
    abstain = []
    model = rfc_model()
    walks = loop_walks(prog, ev, sites, names, arr, gets, abstain) + range_walks(prog, ev, sites, names, arr, abstain)
    for w in walks:
        direction = "pos" if w["guard"] == model["pos"]["guard"] else "neg" if w["guard"] == model["neg"]["guard"] else None
        if direction is None or w["resolve"] is None:
            rep.note("C11-R7 abstains: walk with an unrecognised guard or stride"); continue
        key = "%s|%s/work" % (slice_fn, direction)
        try:
            init, bound, stepn, cond_problem = w["resolve"](direction)
            if bound is None:
                raise pwl.Undecided("no stop bound")
            found = None
            nq = 0
            for ps, pe in ((True, True), (True, False), (False, True), (False, False)):
                present = {"start": ps, "end": pe, "step": True}
                i_t, b_t = resolve(init, present), resolve(bound, present)
                order = ["start", "end", "len"]
                domain = [{"len": 1}, {"len": -1, 1: 2 ** 47}]
                for v in ("start", "end"):
                    domain += [{v: 1, 1: -lo}, {v: -1, 1: hi}]
                for (ci, ri), (cb, rb) in pwl.product(pwl.cases(i_t), pwl.cases(b_t)):
                    extent = pwl.ladd(rb, ri, -1) if direction == "pos" else pwl.ladd(ri, rb, -1)
                    q = pwl.ladd(pwl.ladd(extent, {"len": 1}, -1), {1: -WORK_EXCESS})
                    nq += 1
                    verdict, pt = pwl.decide(domain + ci + cb + [q], order)
                    if verdict == "point" and found is None:
                        found = "for `[%s:%s:%s]` on an array of %d elements the walk runs from %d to %d: %d positions" % (
                            pt["start"] if ps else "", pt["end"] if pe else "", "1" if direction == "pos" else "-1", pt["len"],
                            pwl.leval(ri, pt), pwl.leval(rb, pt), abs(pwl.leval(rb, pt) - pwl.leval(ri, pt)))
            rep.check(found is None, "C11-R7", key, w["where"], "|bound - init| <= len + 2^32 in all regions (%d queries)" % nq,
                      "the %s-step walk is not bounded by the array length: %s; with bounds near 2^53 the evaluation does not terminate in practice" % (
                          "positive" if direction == "pos" else "negative", found))
        except pwl.Undecided as u:
            rep.note("C11-R7 abstains on the %s walk: %s" % (direction, u))
