"""C09 -- reference / reference_mut resolve a path to exactly its node."""
import re
from vflib import thir as T, tables
from vflib.terms import Evaluator, Tm, subterms, rebuild
from rules import shared

META = {
    "level": "other",
    "explanation": (
        "R1 sibling agreement: <Value as Queryable>::reference and ::reference_mut are the same term up to "
        "pointer <-> pointer_mut over one converter, and `self` is used exactly once (as the receiver of the lookup), so the "
        "mutable handle is the only access. R2 step table of the converter: Name -> name step, Index -> index step, every "
        "other segment/selector -> Err. R3 JSON-Pointer escaping: a member name must pass through `~`->`~0` then `/`->`~1` "
        "before it is written after `/`. R4 name decoding: the name written must be the decoded member name (one layer of "
        "quotes removed, escapes decoded). R5 the kind of a step (name vs index) must survive to the lookup. Not decided: "
        "that serde_json::Value::pointer_mut touches only the addressed node (dependency, trusted)."),
    "trusted_base": ["rustc nightly THIR", "vf driver + rules", "serde_json::Value::pointer / pointer_mut (RFC 6901 lookup)"],
    "assumptions": ["&mut uniqueness (borrow checker) makes a write through the handle local to the addressed node"],
    "not_decided": ["frame condition inside serde_json::Value::pointer_mut"],
}
META["explanation"] += " R1 also: an untranslatable path yields None (the lookup's argument is the converter's Ok payload, never a default). R6 every RFC 9535 Normalized Path (indices within I-JSON) is accepted by the parser: language inclusion on the automata of the grammar analysis."
META["explanation"] += ' R3 also rejects escaping steps in the wrong order, through helper functions. R7 the path printer (Pointer::key) and the converter agree on whether member names are escaped.'

QT = "crate::query::queryable::Queryable"
VAL = "serde_json::value::Value"
M = "crate::parser::model::"


def run(ctx, rep):
    prog = ctx.prog
    ev = Evaluator(prog)
    conv = r1(prog, ev, rep)
    if conv:
        r2_to_r5(prog, ev, rep, conv)
    r6(ctx, rep)
    # reference(path) parses the path with the library's parser: a call limit refuses the (long) path of a deep node
    from vflib.report import Shared
    from rules import c06
    c06.r4(ctx, Shared(rep, {"C06-R4": "C09-R8"}, lender="C06"))


def r6(ctx, rep):
    """reference(path) parses `path` with the library's own parser first: every Normalized Path must get through it"""
    import os
    from vflib import grammarmodel as GM, facts
    from rules import grammar_common as G
    rep.rule("C09-R6", "every Normalized Path of RFC 9535 2.7 (indices within the I-JSON range) is accepted by the library's parser "
             "(grammar + post-checks), so that a path returned by a query can be handed to reference(): language inclusion "
             "decided on the automata of the grammar analysis", floor=1)
    try:
        res = G.load(ctx)
    except G.GrammarUnsupported as ex:
        rep.unrecognised("C09-R6", "grammar", "-", str(ex)); return
    where = os.path.relpath(ctx.grammar.path, facts.REPO)
    cmp_ = [c for c in res["engine"]["compare"] if c["id"] == "np:normalized-path"]
    if not cmp_:
        rep.unrecognised("C09-R6", "comparison", where, "normalized-path comparison missing from the grammar analysis"); return
    divs = GM.np_divergences(res)
    for tags, cls, wit in sorted(set(divs)):
        rep.bad("C09-R6", "np|%s|%s" % (tags, cls), where,
                "the Normalized Path `%s` is rejected by the parser (at %s, symbol class %s): reference()/reference_mut() return None for "
                "a node whose path a query has just returned" % (wit, tags, cls))
    rep.ok("C09-R6", "compared:normalized-path", where, "%d x %d states, %d product states, %d rejected class(es)" % (
        cmp_[0]["impl_states"], cmp_[0]["rfc_states"], cmp_[0]["product_states"], len(set(divs))))


def r1(prog, ev, rep):
    rep.rule("C09-R1", "sibling agreement: reference and reference_mut are one term up to pointer/pointer_mut over one converter; "
             "self is used once; an untranslatable path yields None", floor=5)
    rp = prog.impl_method(QT, VAL, "reference")
    mp = prog.impl_method(QT, VAL, "reference_mut")
    terms = {}
    conv = None
    for name, p in (("reference", rp), ("reference_mut", mp)):
        t, trace, conds = ev.traced(p)
        lookups = [c for c in trace if c.k == "call" and c.a[0] in (VAL + "::pointer", VAL + "::pointer_mut")]
        want = VAL + ("::pointer_mut" if name == "reference_mut" else "::pointer")
        good = len(lookups) == 1 and lookups[0].a[0] == want and lookups[0].a[1].k == "param" and lookups[0].a[1].a[0] == 0
        rep.check(good, "C09-R1", "%s/lookup" % name, prog.loc_of(p), want.rsplit("::", 1)[1] + "(self, ..)",
                  "%s does not resolve through exactly one self.%s(..): %s" % (name, want.rsplit("::", 1)[1], [str(x) for x in lookups]))
        # a path that cannot be translated must yield None: the lookup's argument is the converter's Ok payload, never a
        # value fabricated on the error side (unwrap_or*, a default, a literal)
        if good:
            arg = lookups[0].a[2]
            chain = []
            x = arg
            okp = None
            for _ in range(12):
                if x.k == "call" and x.a[0] in prog.bodies and prog.items[x.a[0]]["kind"] == "Fn":
                    okp = bool(chain) and any(c in ("try", "proj:Result::Ok.0", "proj:Option::Some.0") for c in chain)
                    break
                if x.k == "proj":
                    chain.append("proj:" + x.a[1]); x = x.a[0]; continue
                if x.k == "try":
                    chain.append("try"); x = x.a[0]; continue
                if x.k == "call" and len(x.a) == 2 and (x.a[0] in ("core::result::Result::<T, E>::ok", "alloc::string::String::as_str", "<alloc::string::String as core::ops::Deref>::deref",
                                                                   "<alloc::string::String as core::convert::AsRef<str>>::as_ref", "<alloc::string::String as core::borrow::Borrow<str>>::borrow")):
                    chain.append(x.a[0].rsplit("::", 1)[1]); x = x.a[1]; continue
                chain.append("!" + (x.a[0] if x.k == "call" else x.k))
                okp = False
                break
            rep.check(bool(okp), "C09-R1", "%s/error-is-none" % name, prog.loc_of(p), "lookup argument is the converter's Ok payload (%s)" % chain,
                      "%s looks up a path even when the JSONPath could not be translated: the argument reaches the lookup through %s "
                      "(a wildcard/slice/filter path or a malformed one then addresses some node - with an empty default the root - instead of None)" % (name, chain))
        # self used once
        def self_uses(root):
            n = 0
            stack = [root]
            while stack:
                x = stack.pop()
                if x.get("k") in ("Var", "Upvar") and x["var"]["name"] == "self":
                    n += 1
                if x.get("k") == "Closure":
                    continue            # captures are not uses; the closure body is counted separately
                stack.extend(T.children(x))
            return n
        uses = self_uses(prog.bodies[p]["thir"]["root"])
        for cl in prog.closures_in(p):
            uses += self_uses(prog.bodies[cl]["thir"]["root"])
        rep.check(uses == 1, "C09-R1", "%s/self-once" % name, prog.loc_of(p), "self used once", "`self` is used %d times" % uses)
        convs = [c for c in trace if c.k == "call" and c.a[0] in prog.bodies and prog.items[c.a[0]]["kind"] == "Fn"]
        if len(convs) == 1:
            conv = convs[0].a[0] if conv in (None, convs[0].a[0]) else "different"
        if lookups:
            def norm(x):
                if x.k == "call" and x.a[0] == VAL + "::pointer_mut":
                    return Tm("call", (VAL + "::pointer",) + x.a[1:], x.n)
                if x.k == "call":
                    # closures passed to combinators: compare what they compute, not their identity
                    new = []
                    for a in x.a[1:]:
                        if isinstance(a, Tm) and a.k == "closure":
                            new.append(rebuild(ev.apply(a, [Tm("param", (40, "p"))]), norm))
                        else:
                            new.append(a)
                    return Tm("call", (x.a[0],) + tuple(new), x.n)
                return x
            terms[name] = str(rebuild(t, norm))
    if conv in (None, "different"):
        rep.bad("C09-R1", "one-converter", prog.loc_of(rp), "reference and reference_mut do not share one path converter")
        return None
    rep.check(len(terms) == 2 and terms["reference"] == terms["reference_mut"], "C09-R1", "same-term", prog.loc_of(mp),
              "identical up to pointer/pointer_mut", "the two siblings resolve differently: %s" % terms)
    return conv


def _pred_chars(body, c):
    """characters for which a closure body `c == 'x' || c == 'y'` is true; None if it has another form"""
    if body.k == "bin" and body.a[0] == "Eq" and body.a[1] == c and body.a[2].k == "lit":
        return [body.a[2].a[1]]
    if body.k == "logic" and body.a[0] == "Or":
        a, b = _pred_chars(body.a[1], c), _pred_chars(body.a[2], c)
        return (a + b) if a is not None and b is not None else None
    return None


def r2_to_r5(prog, ev, rep, conv):
    rep.rule("C09-R2", "step table: Selector::Name -> name step, Selector::Index -> index step, wildcard/slice/filter/descendant/"
             "union -> Err", floor=7)
    rep.rule("C09-R3", "JSON-Pointer escaping: the member name is written after `/` only after `~` -> `~0` and `/` -> `~1`", floor=1)
    rep.rule("C09-R4", "name decoding: the name written is the decoded member name (exactly one layer of quotes removed, escapes decoded)", floor=1)
    rep.rule("C09-R5", "step kind survives: name steps and index steps must be told apart by the lookup", floor=1)
    where = prog.loc_of(conv)
    t, trace, conds = ev.traced(conv)
    root = prog.bodies[conv]["thir"]["root"]
    # the match over segments
    seg_match = None
    step_fn = conv

    def find_match(r):
        for x in T.walk(r):
            if x.get("k") == "Match" and re.fullmatch(r"&?(?:'\w+ )?crate::parser::model::Segment", T.strip(x["scrut"]).get("ty") or ""):
                return x
        return None
    seg_match = find_match(root)
    if seg_match is None:
        # the per-segment work may live in a helper that is called or mapped over the segments
        reach, _ = prog.reach([conv], stop=lambda p_: p_.startswith("crate::parser::"))
        for p_ in sorted(reach):
            if p_ != conv and not p_.startswith("crate::parser::") and p_ in prog.bodies:
                m_ = find_match(prog.bodies[p_]["thir"]["root"])
                if m_ is not None:
                    seg_match, step_fn = m_, prog.owner_fn(p_)
                    break
    if seg_match is None:
        rep.unrecognised("C09-R2", "%s|dispatch" % conv, where, "no match over a Segment found"); return
    if step_fn != conv:
        t2, trace2, _c2 = ev.traced(step_fn)
        trace = list(trace) + list(trace2) + [x for x in subterms(t2) if x.k == "call" and x.a[0] == "<format>"]
    arms = seg_match["arms"]
    sel_variants = dict(tables.variants_of(prog, M + "Selector"))
    accepted = {}
    for vn, nf in sel_variants.items():
        shape = ("v", "Selector", [("v", vn, [tables.ANY] * nf)])
        sel = tables.select(arms, shape)
        key = "Segment::Selector(%s)" % vn
        if len(sel) != 1 or sel[0][1] != "definite":
            rep.unrecognised("C09-R2", key, where, "no unique arm"); continue
        body = arms[sel[0][0]]["body"]
        has_err = any(y.get("k") == "Adt" and y.get("variant") == "Err" for y in T.walk(body))
        has_ok = any(y.get("k") == "Adt" and y.get("variant") == "Ok" for y in T.walk(body))
        is_err = has_err and (any(y.get("k") == "Return" for y in T.walk(body)) or not has_ok)
        if vn in ("Name", "Index"):
            rep.check(not is_err, "C09-R2", key, where, "converted", "%s steps are rejected" % vn)
            accepted[vn] = arms[sel[0][0]]
        else:
            rep.check(is_err, "C09-R2", key, where, "Err", "a %s selector is accepted in a path given to reference(): it does not denote one location" % vn)
    for vn, shape in (("Descendant", ("v", "Descendant", [tables.ANY])), ("Selectors", ("v", "Selectors", [tables.ANY]))):
        sel = tables.select(arms, shape)
        key = "Segment::%s" % vn
        ok = len(sel) == 1 and any(y.get("k") == "Adt" and y.get("variant") == "Err" for y in T.walk(arms[sel[0][0]]["body"]))
        rep.check(ok, "C09-R2", key, where, "Err", "a %s segment is accepted in a path given to reference()" % vn)
    # formats written per accepted arm (from the trace: push_str(format(..)))
    fmts = {}
    for c in trace:
        f = None
        if c.k == "call" and c.a[0].endswith("String::push_str") and len(c.a) == 3 and c.a[2].k == "call" and c.a[2].a[0] == "<format>":
            f = c.a[2]
        elif c.k == "call" and c.a[0] == "<format>" and step_fn != conv:
            f = c           # the step function returns the formatted token instead of appending it
        if f is not None:
            arg = f.a[2].a[1] if len(f.a) > 2 and f.a[2].k == "call" and f.a[2].a[0].startswith("<fmtarg") else None
            kind = None
            for y in subterms(arg) if arg is not None else []:
                if y.k == "proj" and y.a[1].startswith("Selector::Name"):
                    kind = "Name"
                if y.k == "proj" and y.a[1].startswith("Selector::Index"):
                    kind = "Index"
            if kind:
                fmts[kind] = (f.a[1].a[1], arg, c)
    if "Name" not in fmts or "Index" not in fmts:
        rep.unrecognised("C09-R3", "%s|formats" % conv, where, "could not find the `/{}` formatters of the two accepted arms: %s" % list(fmts)); return
    tpl, arg, c = fmts["Name"]
    rep.check(tpl == (("lit", "/"), ("arg", 0, False)), "C09-R2", "name-step/shape", c.loc(), "`/` + name", "name step template is %s" % (tpl,))
    tpl_i, arg_i, ci = fmts["Index"]
    rep.check(tpl_i == (("lit", "/"), ("arg", 0, False)) and arg_i.k == "proj" and arg_i.a[1] == "Selector::Index.0", "C09-R2", "index-step/shape", ci.loc(),
              "`/` + index", "index step is %s of `%s`" % (tpl_i, arg_i))
    # R3: escaping chain on the name
    chain = []
    x = arg
    for _ in range(40):
        if x.k == "call" and x.a[0] in prog.bodies and prog.items[x.a[0]]["kind"] in ("Fn", "AssocFn"):
            x = ev.apply(Tm("fnitem", (x.a[0],)), list(x.a[1:]))      # a local escaping helper: look at what it computes
            continue
        if x.k == "call" and len(x.a) >= 2:
            chain.append(x)
            x = x.a[1]
            continue
        break
    reps = [(y.a[2].a[1] if y.a[2].k == "lit" else None, y.a[3].a[1] if y.a[3].k == "lit" else None)
            for y in reversed(chain) if y.a[0].endswith("<impl str>::replace") and len(y.a) == 4]
    escaped = reps[:2] == [("~", "~0"), ("/", "~1")]
    from rules import c01
    for (p1, r1), (p2, r2) in zip(reps, reps[1:]):
        if r1 is not None and p2 is not None and p1 != r1 and c01._overlap(str(r1), str(p2)):
            rep.bad("C09-R3", "%s|escape-order" % shared.rk(prog, ev, conv), c.loc(),
                    "the escaping steps run in the wrong order: `.replace(%r, %r)` produces text that the following `.replace(%r, ..)` "
                    "rewrites again (`/` becomes `~01`): RFC 6901 escapes `~` first, then `/`" % (p1, r1, p2))
    rep.check(escaped, "C09-R3", "%s|name-unescaped" % shared.rk(prog, ev, conv), c.loc(), "name escaped as a JSON-Pointer token",
              "the member name is written after `/` without escaping `~` and `/` (chain: %s): member `a/b` is looked up as `a` then `b`" % [y.a[0].rsplit("::", 1)[1] for y in chain])
    # R4: decoding
    trims = [y.a[0].rsplit("::", 1)[1] for y in chain if re.search(r"<impl str>::trim", y.a[0])]
    reach, foreign = prog.reach([conv], stop=lambda p: p.startswith("crate::parser::") and p != conv)
    decodes = any(re.search(r"from_str_radix|::to_digit$|from_u32", n) for n in foreign)
    prob = []
    if trims:
        prob.append("quotes are removed with %s (strips every leading/trailing quote, not one layer)" % trims)
    if not decodes:
        prob.append("no escape decoding (\\', \\\\, \\uXXXX) between the Normalized Path step and the lookup")
    stripped = []
    for y in chain:
        if re.search(r"<impl str>::trim(_start|_end)?_matches$", y.a[0]) and len(y.a) == 3:
            f = y.a[2]
            cs = None
            if f.k == "lit":
                cs = [f.a[1]]
            elif f.k in ("closure", "fnitem"):
                body = ev.apply(f, [Tm("param", (34, "c"))])
                cs = _pred_chars(body, Tm("param", (34, "c")))
            stripped.append("".join(sorted(cs)) if cs is not None else "?")
        elif re.search(r"<impl str>::trim", y.a[0]):
            stripped.append("ws")
    suffix = ("{%s}" % ",".join(stripped)) if stripped else ""
    rep.check(not prob, "C09-R4", "%s|name-decoding%s" % (shared.rk(prog, ev, conv), suffix), c.loc(), "decoded name", "; ".join(prob))
    # R7: whatever the path printer does to a member name, the converter must undo
    from rules import c03
    rep.rule("C09-R7", "writer/reader agreement on member names: the converter decodes escapes if and only if the path printer "
             "(Pointer::key) writes them - a printer that escapes names while the converter copies them verbatim (or the reverse) "
             "breaks reference() for exactly the paths queries return", floor=1)
    verb = c03.name_step_is_verbatim(prog, ev)
    if verb is None:
        rep.unrecognised("C09-R7", "printer", "-", "the name-step formatter of Pointer::key was not recognised")
    else:
        agree = (verb and not decodes) or ((not verb) and decodes)
        rep.check(agree, "C09-R7", "printer-vs-converter", c.loc(),
                  "printer writes names %s, converter %s" % ("verbatim" if verb else "through an escaping function", "decodes escapes" if decodes else "copies them verbatim"),
                  "the path printer writes member names %s but the converter %s: a path returned by a query no longer leads reference() "
                  "to its node when the name contains a character the printer escapes" % (
                      "verbatim" if verb else "through an escaping function", "decodes escapes" if decodes else "copies them verbatim"))
    # R5: kind-blind lookup
    lookup_blind = True   # serde_json::Value::pointer resolves a token against whatever container is there (RFC 6901)
    same_render = tpl == tpl_i
    rep.check(not (same_render and lookup_blind), "C09-R5", "%s|kind-conflated" % shared.rk(prog, ev, conv), where, "kinds distinguishable",
              "name steps and index steps are rendered alike (`/x`) and resolved by a kind-blind JSON-Pointer lookup: `$['0']` resolves "
              "element 0 of an array and `$[0]` member \"0\" of an object, i.e. a location that does not exist yields Some")
