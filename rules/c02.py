"""C02 -- results are in RFC 9535 document order, duplicates preserved."""
import re
from vflib import census, thir as T, tables
from vflib.terms import Evaluator, Tm, subterms
from vflib import pipeline as PL
from rules import shared

META = {
    "level": "other",
    "explanation": (
        "Order is decided structurally: R1 Data::reduce keeps the left operand's nodes before the right's and never drops or "
        "de-duplicates (table over the variant pairs); R2 Data::flat_map maps a node list through an order- and "
        "cardinality-faithful pipeline and keeps every node a callee returns; R3 the descendant expansion is pre-order "
        "(node, then children in container order, each expanded by the same function); R4 census: no order-changing "
        "operation (rev/sort/dedup/reverse/Hash*/BTree*) and no cardinality-changing adaptor outside the filter selector "
        "anywhere in the evaluator; R5 multi-selector segments must be input-major (for each input node, selectors in "
        "written order). Not decided: index order inside a negative-step slice (arithmetic, C11)."),
    "trusted_base": ["rustc nightly THIR", "vf driver + rules", "documented order semantics of std iterator adaptors"],
    "assumptions": ["serde_json::Map iterates in its own (deterministic) member order"],
    "not_decided": ["numeric order of slice indices (C11 arithmetic)"],
}
META["explanation"] += " R3 also: the descendant arm expands every input node. R4 also covers the AST builders (selectors as written). R6 slice walks emit the RFC's index sequence in order (region analysis of C11-R6, shared)."

Q = "crate::query::Query"
M = "crate::parser::model::"
DATA = "crate::query::state::Data"
QT = "crate::query::queryable::Queryable"


def run(ctx, rep):
    prog = ctx.prog
    ev = Evaluator(prog)
    r1(prog, ev, rep)
    r2(prog, ev, rep)
    r3(prog, ev, rep)
    r4(ctx, prog, ev, rep)
    r5(prog, ev, rep)
    # the three entry points hand the evaluator's list on by order- and cardinality-preserving maps only
    from vflib.report import Shared
    from rules import c12
    c12.prepare(prog, ev)
    c12.r1(prog, ev, Shared(rep, {"C12-R1": "C02-R7"}, lender="C12", only_keys=["js_path_vals", "js_path_path", "QueryRef::"]))
    from rules import c11
    c11.shared_walk_rule(prog, ev, rep, "C02-R6",
                         "array elements selected by a slice appear in the RFC's index order (ascending for positive, descending for negative "
                         "steps): both walks emit exactly the RFC 9535 2.3.4.2.2 index sequence -- the region analysis of C11-R6, shared")


def seq_of(ev, t, selfs, others):
    """Flatten a nodelist-building term into a sequence of sources: 'S' (all of self's nodes), 'O' (all of other's)."""
    if t in selfs:
        return ["S"]
    if t in others:
        return ["O"]
    if t.k == "call" and t.a[0] == "<vec>":
        out = []
        for x in t.a[1:]:
            s = seq_of(ev, x, selfs, others)
            if s is None:
                return None
            out += s
        return out
    if t.k == "call" and t.a[0].endswith("iter::sources::once::once") and len(t.a) == 2:
        return seq_of(ev, t.a[1], selfs, others)        # an iterator of exactly that one element
    if t.k == "call" and PL.is_iter_call(t.a[0]):
        m = PL.method_name(t.a[0])
        if m in ("collect", "into_iter", "iter") and len(t.a) == 2:
            return seq_of(ev, t.a[1], selfs, others)
        if m == "chain" and len(t.a) == 3:
            a, b = seq_of(ev, t.a[1], selfs, others), seq_of(ev, t.a[2], selfs, others)
            if a is None or b is None:
                return None
            return a + b
        return None
    if t.k == "mutated":
        # a vector extended in place: v.push(x) = v ++ [x] ; v.insert(0, x) = [x] ++ v ; v.extend(w) / v.append(w) = v ++ w
        base = seq_of(ev, t.a[0], selfs, others)
        eff = t.a[1]
        if base is None or not (isinstance(eff, Tm) and eff.k == "call"):
            return None
        m = eff.a[0].rsplit("::", 1)[-1]
        if m == "push" and len(eff.a) == 3:
            x = seq_of(ev, eff.a[2], selfs, others)
            return None if x is None else base + x
        if m == "insert" and len(eff.a) == 4 and eff.a[2].k == "lit" and eff.a[2].a[1] == "0":
            x = seq_of(ev, eff.a[3], selfs, others)
            return None if x is None else x + base
        if m in ("extend", "append", "extend_from_slice") and len(eff.a) == 3:
            x = seq_of(ev, eff.a[2], selfs, others)
            return None if x is None else base + x
        return None
    return None


def r1(prog, ev, rep):
    rep.rule("C02-R1", "Data::reduce: for (Ref|Refs) x (Ref|Refs) the result lists self's nodes then other's, nothing dropped, "
             "no order-changing step; a side that is Nothing yields the other side unchanged", floor=8)
    p = prog.inherent_method(DATA, "reduce")
    t = ev.summary(p)
    where = prog.loc_of(p)
    if t.k != "match" or t.a[0].k != "tuple":
        rep.unrecognised("C02-R1", "reduce", where, "not a match on (self, other)"); return
    me, other = t.a[0].a
    arms = t.a[1]
    for lv in ("Ref", "Refs"):
        for rv in ("Ref", "Refs"):
            sel = tables.select(arms, ("t", [("v", lv, [tables.ANY]), ("v", rv, [tables.ANY])]))
            key = "reduce/(%s,%s)" % (lv, rv)
            if len(sel) != 1 or sel[0][1] != "definite":
                rep.unrecognised("C02-R1", key, where, "no unique arm"); continue
            body = arms[sel[0][0]][2]
            if not (body.k == "adt" and body.a[1] == "Refs"):
                rep.bad("C02-R1", key, where, "result is `%s`, not a node list" % body); continue
            seq = seq_of(ev, body.a[2][0][1], [Tm("proj", (me, "Data::%s.0" % lv))], [Tm("proj", (other, "Data::%s.0" % rv))])
            rep.check(seq == ["S", "O"], "C02-R1", key, where, "self's nodes, then other's",
                      "concatenation yields %s (S = left operand's nodes, O = right operand's): order or multiplicity is not preserved: %s" % (seq, body))
    for lv, rv, want in (("Ref", "Nothing", "S"), ("Refs", "Nothing", "S"), ("Nothing", "Ref", "O"), ("Nothing", "Refs", "O")):
        nf = {"Ref": 1, "Refs": 1, "Nothing": 0}
        sel = tables.select(arms, ("t", [("v", lv, [tables.ANY] * nf[lv]), ("v", rv, [tables.ANY] * nf[rv])]))
        key = "reduce/(%s,%s)" % (lv, rv)
        if len(sel) != 1:
            rep.unrecognised("C02-R1", key, where, "no unique arm"); continue
        body = arms[sel[0][0]][2]
        rep.check(body == (me if want == "S" else other), "C02-R1", key, where, "the non-empty side",
                  "concatenation with an empty list yields `%s`" % body)
    sp = prog.inherent_method("crate::query::state::State", "reduce")
    st = ev.summary(sp)
    f = dict(st.a[2]) if st.k == "adt" else {}
    d = f.get("data")
    good = d is not None and d.k == "call" and d.a[0] == p and d.a[1] == Tm("field", (Tm("param", (0, "self")), "data")) and d.a[2] == Tm("field", (Tm("param", (1, "other")), "data"))
    rep.check(good, "C02-R1", "State::reduce", prog.loc_of(sp), "self.data.reduce(other.data)", "State::reduce is `%s`" % st)


def loop_form_flat_map(prog, ev, rep, t, body, where):
    """`let mut out = vec![]; for p in nodes { match f(p) { Ref(x) => out.push(x), Refs(xs) => out.extend(xs), _ => {} } } Refs(out)`:
    the accumulator only ever grows at its end, by f(p)'s single node or by f(p)'s list unchanged, for the input nodes in order."""
    acc = body.a[2][0][1]
    if acc.k != "phi":
        return False
    item = Tm("call", ("<item>", Tm("proj", (t.a[0], "Data::Refs.0"))))
    call = Tm("call", ("<apply>", Tm("param", (1, "f")), item))
    effects = []
    for alt in acc.a:
        if alt.k == "call" and alt.a == ("<vec>",):
            continue
        if alt.k == "loopvar":
            continue
        if alt.k != "mutated":
            return False
        prev, eff = alt.a
        okprev = prev.k == "phi" and all((x.k == "call" and x.a == ("<vec>",)) or x.k == "loopvar" for x in prev.a)
        if not okprev or not (isinstance(eff, Tm) and eff.k == "call"):
            return False
        effects.append(eff)
    kinds = set()
    for eff in effects:
        m = eff.a[0].rsplit("::", 1)[-1]
        x = eff.a[2] if len(eff.a) == 3 else None
        while x is not None and x.k == "call" and len(x.a) == 2 and x.a[0].rsplit("::", 1)[-1] in ("into_iter", "iter"):
            x = x.a[1]
        if m == "push" and x == Tm("proj", (call, "Data::Ref.0")):
            kinds.add("Ref")
        elif m in ("extend", "append") and x == Tm("proj", (call, "Data::Refs.0")):
            kinds.add("Refs")
        else:
            return False
    if kinds != {"Ref", "Refs"}:
        return False
    rep.ok("C02-R2", "flat_map/Refs/pipeline", where, "loop over the input nodes in order, appending at the end of the accumulator")
    rep.ok("C02-R2", "flat_map/Refs/wrapper", where, "Ref(p) -> push(p); Refs(v) -> extend(v)")
    return True


def r2(prog, ev, rep):
    rep.rule("C02-R2", "Data::flat_map over a node list: into_iter -> flat_map(wrapper) -> collect, wrapper returns the callee's "
             "single node as one element and its node list unchanged", floor=3)
    p = prog.inherent_method(DATA, "flat_map")
    t = ev.summary(p)
    where = prog.loc_of(p)
    if t.k != "match":
        rep.unrecognised("C02-R2", "flat_map", where, "not a match"); return
    sel = tables.select(t.a[1], ("v", "Refs", [tables.ANY]))
    if len(sel) != 1:
        rep.unrecognised("C02-R2", "flat_map/Refs", where, "no unique arm"); return
    body = t.a[1][sel[0][0]][2]
    if not (body.k == "adt" and body.a[1] == "Refs"):
        rep.bad("C02-R2", "flat_map/Refs", where, "result is `%s`" % body); return
    src, stages = PL.unwind(body.a[2][0][1])
    names = [s[0] for s in stages]
    good = src == Tm("proj", (t.a[0], "Data::Refs.0")) and names == ["into_iter", "flat_map", "collect"]
    if not good and loop_form_flat_map(prog, ev, rep, t, body, where):
        pass
    else:
        rep.check(good, "C02-R2", "flat_map/Refs/pipeline", where, "into_iter -> flat_map -> collect", "pipeline %s over `%s`" % (names, src))
    if not good:
        sp = prog.inherent_method("crate::query::state::State", "flat_map")
        st = ev.summary(sp)
        f = dict(st.a[2]) if st.k == "adt" else {}
        d = f.get("data")
        okd = d is not None and d.k == "call" and d.a[0] == p and d.a[1] == Tm("field", (Tm("param", (0, "self")), "data")) and d.a[2].k == "param"
        rep.check(okd, "C02-R2", "State::flat_map", prog.loc_of(sp), "self.data.flat_map(f)", "State::flat_map is `%s`" % st)
        return
    item = Tm("param", (95, "node"))
    wb = ev.apply(stages[1][1][0], [item])
    fpar = Tm("param", (1, "f"))
    call = Tm("call", ("<apply>", fpar, item))
    ok = False
    why = "wrapper is `%s`" % wb
    if wb.k == "match" and wb.a[0] == call:
        s1 = tables.select(wb.a[1], ("v", "Ref", [tables.ANY]))
        s2 = tables.select(wb.a[1], ("v", "Refs", [tables.ANY]))
        if len(s1) == 1 and len(s2) == 1:
            b1, b2 = wb.a[1][s1[0][0]][2], wb.a[1][s2[0][0]][2]
            ok = b1 == Tm("call", ("<vec>", Tm("proj", (call, "Data::Ref.0")))) and b2 == Tm("proj", (call, "Data::Refs.0"))
            why = "Ref -> `%s`, Refs -> `%s`" % (b1, b2)
    rep.check(ok, "C02-R2", "flat_map/Refs/wrapper", where, "Ref(p) -> [p]; Refs(v) -> v", why)
    sp = prog.inherent_method("crate::query::state::State", "flat_map")
    st = ev.summary(sp)
    f = dict(st.a[2]) if st.k == "adt" else {}
    d = f.get("data")
    good = d is not None and d.k == "call" and d.a[0] == p and d.a[1] == Tm("field", (Tm("param", (0, "self")), "data")) and d.a[2].k == "param"
    rep.check(good, "C02-R2", "State::flat_map", prog.loc_of(sp), "self.data.flat_map(f)", "State::flat_map is `%s`" % st)


def r3(prog, ev, rep):
    rep.rule("C02-R3", "descendant expansion is pre-order: reduce(Ref(node), children.flat_map(same function)) with children "
             "enumerated directly from as_array().iter() / as_object().into_iter() by order-preserving adaptors; every input node is expanded", floor=3)
    gp = prog.impl_method(Q, M + "Segment", "process")
    gt = ev.summary(gp)
    sel = tables.select(gt.a[1], ("v", "Descendant", [tables.ANY])) if gt.k == "match" else []
    if len(sel) != 1:
        rep.unrecognised("C02-R3", "Segment::Descendant", prog.loc_of(gp), "no unique arm"); return
    body = gt.a[1][sel[0][0]][2]
    exp = [x.a[0] for x in subterms(body) if x.k == "fnitem" and x.a[0] in prog.bodies]
    if len(exp) != 1:
        rep.unrecognised("C02-R3", "expansion", prog.loc_of(gp), "expansion function not found"); return
    fn = exp[0]
    ok_apply = body.k == "call" and body.a[0] == gp and body.a[2].k == "call" and body.a[2].a[0].endswith("State::<'a, T>::flat_map") \
        and body.a[2].a[1].k == "param" and body.a[2].a[1].a[0] == 1 and body.a[2].a[2] == Tm("fnitem", (fn,))
    rep.check(ok_apply, "C02-R3", "Segment::Descendant/every-input", prog.loc_of(gp), "segment.process(step.flat_map(expand)) on the whole incoming list",
              "the descendant segment does not expand *every* input node (incoming list is `%s`): nodes reached from nested or repeated inputs "
              "lose their multiplicity" % (body.a[2].a[1] if body.k == "call" and len(body.a) > 2 and body.a[2].k == "call" else body))
    from vflib.terms import deep_distribute
    t = deep_distribute(ev.summary(fn))
    where = prog.loc_of(fn)
    node = Tm("param", (0, prog.params(fn)[0]["pat"].get("name", "data")))
    red = prog.inherent_method(DATA, "reduce")
    fm = prog.inherent_method(DATA, "flat_map")
    found = 0
    for x in subterms(t):
        if x.k == "match" and x.a[0].k == "call" and x.a[0].a[0] in (QT + "::as_array", QT + "::as_object"):
            kind = x.a[0].a[0].rsplit("::", 1)[1]
            sel = tables.select(x.a[1], ("v", "Some", [tables.ANY]))
            if len(sel) != 1:
                continue
            b = x.a[1][sel[0][0]][2]
            found += 1
            key = "%s|%s" % (fn, kind)
            ok = b.k == "call" and b.a[0] == red and len(b.a) == 3
            why = "branch is `%s`" % b
            if ok:
                first, second = b.a[1], b.a[2]
                okfirst = first.k == "adt" and first.a[1] == "Ref" and first.a[2][0][1] == node
                oksecond = second.k == "call" and second.a[0] == fm and second.a[2] == Tm("fnitem", (fn,))
                if not okfirst:
                    ok = False; why = "the node itself is not first: reduce(%s, ..)" % first
                elif not oksecond:
                    ok = False; why = "children are not expanded by the same function after the node: `%s`" % second
                else:
                    ch = second.a[1]
                    inner = ch.a[1] if ch.k == "call" and ch.a[0].endswith("new_refs") else (ch.a[2][0][1] if ch.k == "adt" and ch.a[1] == "Refs" else None)
                    if inner is None:
                        ok = False; why = "children list is `%s`" % ch
                    else:
                        src, stages = PL.unwind(inner)
                        names = [s[0] for s in stages]
                        bad = [n for n in names if PL.classify(n) not in ("preserving", "sink")]
                        want_src = Tm("proj", (x.a[0], "Option::Some.0"))
                        if bad or src != want_src or names[-1:] != ["collect"]:
                            ok = False; why = "children pipeline %s over `%s` (must be order/cardinality preserving over the container)" % (names, src)
            rep.check(ok, "C02-R3", key, where, "node first, then its children's expansions in container order", why)
    if found < 2:
        rep.bad("C02-R3", "%s|branches" % fn, where, "found %d container branches, expected arrays and objects" % found)


def _partial_lookup(prog, call):
    """filter_map(|i| <container>.get(i)[.map(..)]): the closure is a partial lookup by position/key"""
    args = call.get("args") or []
    if len(args) != 2:
        return False
    c = T.peel(args[1])
    if c.get("k") != "Closure" or c.get("def") not in prog.bodies:
        return False
    body = T.peel(prog.bodies[c["def"]]["thir"]["root"])
    while body.get("k") == "Block" and not body.get("stmts") and body.get("expr"):
        body = T.peel(body["expr"])
    GET = ("core::slice::<impl [T]>::get", "alloc::vec::Vec::<T, A>::get")
    def is_get(e):
        e = T.peel(e)
        return e.get("k") == "Call" and (e.get("fn") in GET)
    if is_get(body):
        return True
    if body.get("k") == "Call" and body.get("fn") == "core::option::Option::<T>::map" and body.get("args") and is_get(body["args"][0]):
        return True
    return False


def carries_nodes(call):
    """does the iterator / collection this call works on mention document nodes or AST items in its type?"""
    tys = list(call.get("gargs") or [])
    if call.get("args"):
        tys.append(T.strip(call["args"][0]).get("ty") or "")
    return any(re.search(r"(^|[^\w:])T($|[^\w:])|Pointer<|Data<|State<|parser::model::", g) for g in tys)


def r4(ctx, prog, ev, rep):
    rep.rule("C02-R4", "census: no order-changing call (rev, sort*, dedup*, reverse, rotate, swap, Hash*/BTree* collections, "
             "retain/drain/remove/pop/insert) in the evaluator; cardinality-changing iterator adaptors only in the filter "
             "selector and the nodelist algebra")
    evalr, _ = prog.evaluator()
    bodies = sorted(evalr)
    try:
        reduce_fn = prog.inherent_method(DATA, "reduce")
    except Exception:
        reduce_fn = None
    hits, n = census.scan_calls(prog, bodies, census.ORDER_CHANGING)
    for lab, p, node, name in hits:
        if lab == "retain-drain" and ("String::" in name or "str" in name.split("::")[-2:][0]):
            continue
        if lab == "rev" and not carries_nodes(node):
            continue    # reversing a range of integers / characters: the index walk itself is decided by C02-R6 / C11-R6
        if lab == "retain-drain" and name.endswith("::insert") and prog.owner_fn(p) == reduce_fn:
            continue    # in-place concatenation inside Data::reduce: its sequence semantics is decided exactly by C02-R1
        rep.bad("C02-R4", "%s|%s|%s" % (prog.owner_fn(p), lab, name.rsplit("::", 1)[1]), T.loc(node),
                "`%s` (%s) in `%s` can change the order or multiplicity of the result list" % (name, lab, p))
    th, _ = census.scan_types(prog, bodies, r"std::collections::hash|alloc::collections::(btree|binary_heap)")
    for p, ty in th:
        rep.bad("C02-R4", "%s|type:%s" % (prog.owner_fn(p), ty[:50]), prog.loc_of(p), "unordered/sorted collection `%s` in the evaluator" % ty)
    rep.ok("C02-R4", "order-census", "-", "%d call sites in %d evaluator bodies" % (n, len(bodies)))
    # the AST must list selectors / segments / operands as written: the same census over the AST builders
    region, _ = prog.parser_region()
    pbodies = sorted(p for p in region if not prog.is_expansion(p))
    phits, pn = census.scan_calls(prog, pbodies, census.ORDER_CHANGING)
    for lab, p, node, name in phits:
        if lab == "retain-drain" and ("String::" in name or "str" in name.split("::")[-2:][0]):
            continue
        rep.bad("C02-R4", "%s|%s|%s" % (prog.owner_fn(p), lab, name.rsplit("::", 1)[1]), T.loc(node),
                "`%s` (%s) in the AST builder `%s` can reorder, drop or merge the selectors / segments of the query as written "
                "(`$[0,0]` must select the node twice)" % (name, lab, p))
    rep.ok("C02-R4", "order-census-parser", "-", "%d call sites in %d AST-builder bodies" % (pn, len(pbodies)))
    # cardinality-changing adaptors
    allowed_owner = {prog.impl_method(Q, M + "Filter", "process"), prog.inherent_method(DATA, "flat_map"),
                     prog.find_fn("crate::query::test_function::custom") if "crate::query::test_function::custom" in prog.bodies else None}
    nc = 0
    for p in bodies:
        for x in T.walk(prog.bodies[p]["thir"]["root"]):
            if x.get("k") == "Call" and PL.is_iter_call(x.get("fn") or ""):
                if not any(re.search(r"(^|[^\w:])T($|[^\w:])|Pointer<|Data<|State<|parser::model::", g) for g in (x.get("gargs") or [])):
                    continue        # iterators over characters / strings do not carry nodes
                m = PL.method_name(x["fn"])
                if PL.classify(m) == "card-changing":
                    nc += 1
                    if m == "filter_map" and _partial_lookup(prog, x):
                        continue    # drops exactly the positions that hold no element; cannot duplicate or reorder
                    if prog.owner_fn(p) not in allowed_owner:
                        rep.bad("C02-R4", "%s|adaptor:%s" % (prog.owner_fn(p), m), T.loc(x),
                                "cardinality-changing adaptor `%s` outside the filter selector / nodelist algebra can drop or duplicate nodes" % m)
                elif PL.classify(m) == "unknown":
                    rep.unrecognised("C02-R4", "%s|adaptor:%s" % (prog.owner_fn(p), m), T.loc(x), "iterator adaptor `%s` is in no order class" % m)
    rep.ok("C02-R4", "adaptor-census", "-", "%d cardinality-changing adaptor uses, all in the filter selector / flat_map / custom()" % nc)
    fx = ctx.fixture
    fh, _ = census.scan_calls(fx, list(fx.bodies.keys()), census.ORDER_CHANGING)
    labs = {h[0] for h in fh}
    for lab in ("rev", "sort", "dedup", "reverse", "unordered-collections"):
        rep.control("C02-R4", lab in labs, "fixture order class `%s`" % lab)


def r5(prog, ev, rep):
    rep.rule("C02-R5", "multi-selector segments are input-major: the selectors are applied, in written order, inside the "
             "iteration over the input nodes (not each selector over the whole input list)", floor=1)
    gp = prog.impl_method(Q, M + "Segment", "process")
    gt = ev.summary(gp)
    sel = tables.select(gt.a[1], ("v", "Selectors", [tables.ANY])) if gt.k == "match" else []
    if len(sel) != 1:
        rep.unrecognised("C02-R5", "Segment::Selectors", prog.loc_of(gp), "no unique arm"); return
    body = gt.a[1][sel[0][0]][2]
    if not (body.k == "call" and body.a[0] in prog.bodies):
        rep.unrecognised("C02-R5", "Segment::Selectors", prog.loc_of(gp), "arm is `%s`" % body); return
    fn = body.a[0]
    t, trace, conds = ev.traced(fn)
    where = prog.loc_of(fn)
    selp = prog.impl_method(Q, M + "Selector", "process")
    apps = [c for c in trace if c.k == "call" and c.a[0] == selp]
    if not apps:
        rep.unrecognised("C02-R5", "%s|selector-application" % fn, where, "no application of a single selector found"); return
    whole_state = Tm("param", (0, prog.params(fn)[0]["pat"].get("name", "step")))
    for c in apps:
        arg = c.a[2]
        # input-major: the state a selector is applied to must be built from ONE input node (an item of the input list),
        # not be the whole incoming state
        if arg == whole_state:
            rep.bad("C02-R5", "%s|selector-major" % shared.rk(prog, ev, fn), c.loc(),
                    "each selector is applied to the whole input nodelist and the per-selector results are concatenated: for "
                    "`$[*]['a','b']` all `a` results precede all `b` results instead of being grouped per input node")
        else:
            per_node = any(x.k in ("cparam",) or (x.k == "call" and x.a[0] == "<item>") for x in subterms(arg))
            rep.check(per_node, "C02-R5", "%s|input-major" % fn, c.loc(), "selectors applied per input node", "selector applied to `%s`" % arg)
    # selectors in written order, concatenated left to right
    src_ok = any(c.k == "call" and PL.method_name(c.a[0]) in ("iter", "into_iter") and len(c.a) == 2 and c.a[1].k == "param" and c.a[1].a[0] == 1 for c in trace)
    if not src_ok:
        # `match selectors.split_first() { Some((first, rest)) => rest.iter().fold(first.process(..), |acc, s| acc.reduce(s.process(..))) }`:
        # the head first, then the tail in order, each result appended after the accumulated ones
        sel_p = Tm("param", (1, prog.params(fn)[1]["pat"].get("name", "selectors"))) if len(prog.params(fn)) > 1 else None
        sf = [c for c in trace if c.k == "call" and PL.method_name(c.a[0]) == "split_first" and len(c.a) == 2 and c.a[1] == sel_p]
        if sf:
            def is_part(x, idx):
                return x.k in ("proj", "field") and (str(x.a[1]) == idx or str(x.a[1]).endswith("." + idx)) and any(y == sf[0] for y in subterms(x))
            folds = [c for c in trace if c.k == "call" and PL.method_name(c.a[0]) == "fold" and len(c.a) == 4]
            for c in folds:
                it, init = c.a[1], c.a[2]
                it_ok = it.k == "call" and PL.method_name(it.a[0]) in ("iter", "into_iter") and len(it.a) == 2 and is_part(it.a[1], "1")
                init_ok = init.k == "call" and init.a[0] == selp and is_part(init.a[1], "0")
                comb = [r for r in trace if r.k == "call" and r.a[0].endswith("State::<'a, T>::reduce") and len(r.a) == 3
                        and r.a[1].k == "loopvar" and r.a[2].k == "call" and r.a[2].a[0] == selp
                        and r.a[2].a[1].k == "call" and r.a[2].a[1].a[0] == "<item>" and is_part(r.a[2].a[1].a[1], "1")]
                if it_ok and init_ok and len(comb) == 1:
                    src_ok = True
    rep.check(src_ok, "C02-R5", "%s|written-order" % fn, where, "selectors iterated in written order", "selectors are not iterated directly")
