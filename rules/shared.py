"""Analyses shared by several properties: integer-slot validation (C07-R2 / C08 / C11), validator roles."""
import re
from vflib import thir as T, tables
from vflib.terms import Evaluator, Tm, subterms
from vflib.intervals import IJSON

M = "crate::parser::model::"
INT_SLOTS = [
    (M + "Selector", "Index", ["0"]),
    (M + "Selector", "Slice", ["0", "1", "2"]),
    (M + "SingularQuerySegment", "Index", ["0"]),
]


def const_value(prog, t):
    if t.k == "const":
        c = prog.consts.get(t.a[0])
        if c and "value" in c:
            return int(c["value"])
    if t.k == "lit" and t.a[0] == "int":
        return int(t.a[1])
    if t.k == "un" and t.a[0] == "Neg":
        v = const_value(prog, t.a[1])
        return -v if v is not None else None
    return None


def _accept_interval(prog, cond, positive, is_var=None):
    """Interval of `v` (parameter 0) for which cond is true (positive) / false (not positive); None if it is not an
    interval or the condition has an unknown form.  +-inf as None bounds."""
    INF = float("inf")
    if cond.k == "un" and cond.a[0] == "Not":
        return _accept_interval(prog, cond.a[1], not positive, is_var)
    if cond.k == "logic":
        a = _accept_interval(prog, cond.a[1], positive, is_var)
        b = _accept_interval(prog, cond.a[2], positive, is_var)
        conj = (cond.a[0] == "And") == positive      # And/true and Or/false are conjunctions of the parts
        if not conj or a is None or b is None:
            return None
        return (max(a[0], b[0]), min(a[1], b[1]))
    if cond.k == "bin" and cond.a[0] in ("Lt", "Le", "Gt", "Ge"):
        op, a, b = cond.a
        if is_var is not None:
            while a.k == "cast":
                a = a.a[1]
            while b.k == "cast":
                b = b.a[1]
        isv = is_var or (lambda x: x.k == "param" and x.a[0] == 0)
        av, bv = const_value(prog, a), const_value(prog, b)
        if (isv(b) if is_var is not None else b.k == "param") and av is not None and not (isv(a) if is_var is not None else a.k == "param"):
            op = {"Lt": "Gt", "Le": "Ge", "Gt": "Lt", "Ge": "Le"}[op]
            a, b, av, bv = b, a, bv, av
        if not (isv(a) and bv is not None):
            return None
        if not positive:
            op = {"Lt": "Ge", "Le": "Gt", "Gt": "Le", "Ge": "Lt"}[op]
        return {"Lt": (-INF, bv - 1), "Le": (-INF, bv), "Gt": (bv + 1, INF), "Ge": (bv, INF)}[op]
    if cond.k == "call" and cond.a[0].endswith("::contains") and "ops::range::Range" in cond.a[0] and len(cond.a) == 3 and positive:
        r, v = cond.a[1], cond.a[2]
        if not ((is_var(v) if is_var is not None else (v.k == "param" and v.a[0] == 0))):
            return None
        lo = hi = None
        if r.k == "adt" and r.a[1] == "Range":
            fd = dict(r.a[2])
            lo, hi = const_value(prog, fd.get("start")) if fd.get("start") is not None else None, const_value(prog, fd.get("end")) if fd.get("end") is not None else None
            if hi is not None:
                hi -= 1
        elif r.k == "call" and r.a[0].endswith("RangeInclusive::<Idx>::new") and len(r.a) == 3:
            lo, hi = const_value(prog, r.a[1]), const_value(prog, r.a[2])
        if lo is None or hi is None:
            return None
        return (lo, hi)
    return None


def range_validators(prog, ev):
    """Local fns (i64) -> Result<i64, _> that return Ok(v) exactly when lo <= v <= hi for constants lo, hi.
    -> {path: (lo, hi)}"""
    out = {}
    for p, it in prog.items.items():
        if it["kind"] != "Fn" or p not in prog.bodies:
            continue
        if it.get("inputs_s") != ["i64"] or not it.get("output_s", "").startswith("core::result::Result<i64,"):
            continue
        t = ev.summary(p)
        if t.k != "if":
            continue
        cond, th, el = t.a
        isok = lambda x: x.k == "adt" and x.a[1] == "Ok" and x.a[2][0][1].k == "param"
        iserr = lambda x: x.k == "adt" and x.a[1] == "Err"
        if isok(el) and iserr(th):
            iv = _accept_interval(prog, cond, False)
        elif isok(th) and iserr(el):
            iv = _accept_interval(prog, cond, True)
        else:
            continue
        if iv is not None and iv[0] != -float("inf") and iv[1] != float("inf"):
            out[p] = (int(iv[0]), int(iv[1]))
            prog.looked_up.add(p)
    return out


def _ok_payload(t):
    """All Ok payloads of a Result-valued summary term."""
    outs = []
    stack = [t]
    while stack:
        x = stack.pop()
        if x.k == "phi":
            stack.extend(x.a)
        elif x.k == "if":
            stack.extend([x.a[1], x.a[2]])
        elif x.k == "match":
            stack.extend(b for _, _, b in x.a[1])
        elif x.k == "adt" and x.a[1] == "Ok":
            outs.append(x.a[2][0][1])
    return outs


def alternatives(prog, ev, t, depth=0):
    """Expand a slot term into its alternative concrete sources, following local function results
    (`f(..)?.N`), phi joins, Option wrappers and pattern projections of Some."""
    if depth > 12:
        return [t]
    if t.k == "phi":
        out = []
        for x in t.a:
            out.extend(alternatives(prog, ev, x, depth + 1))
        return out
    if t.k in ("if",):
        return alternatives(prog, ev, t.a[1], depth + 1) + alternatives(prog, ev, t.a[2], depth + 1)
    if t.k == "match":
        out = []
        for _, _, b in t.a[1]:
            out.extend(alternatives(prog, ev, b, depth + 1))
        return out
    if t.k == "mutated":
        return alternatives(prog, ev, t.a[0], depth + 1)
    if t.k == "field" and t.a[0].k == "try" and t.a[0].a[0].k == "call" and t.a[0].a[0].a[0] in prog.bodies:
        callee = t.a[0].a[0].a[0]
        outs = []
        for pay in _ok_payload(ev.summary(callee)):
            if pay.k == "tuple" and t.a[1].isdigit() and int(t.a[1]) < len(pay.a):
                outs.extend(alternatives(prog, ev, pay.a[int(t.a[1])], depth + 1))
            else:
                outs.append(Tm("opaque", ("result-of:" + callee,)))
        return outs or [t]
    return [t]


def classify_int_source(prog, ev, t, validators):
    """-> ('none'|'validated'|'loop'|'unvalidated', detail)"""
    if t.k == "adt" and t.a[1] == "None":
        return "none", ""
    if t.k == "loopvar":
        return "loop", ""
    if t.k == "adt" and t.a[1] == "Some":
        return classify_int_source(prog, ev, t.a[2][0][1], validators)
    # `opt.map(|x| -> Result<i64, _> { validate(..) }).transpose()?` : None, or Some of what the closure's Ok carries
    if t.k == "try" and t.a[0].k == "call" and t.a[0].a[0].endswith("::transpose") and len(t.a[0].a) == 2:
        m = t.a[0].a[1]
        if m.k == "call" and m.a[0] == "core::option::Option::<T>::map" and len(m.a) == 3 and m.a[2].k in ("closure", "fnitem"):
            body = ev.apply(m.a[2], [Tm("proj", (m.a[1], "Option::Some.0"))])
            if body is not None:
                if body.k == "adt" and body.a[1] == "Ok":
                    body = body.a[2][0][1]
                elif body.k == "call" and body.a[0] in validators:
                    body = Tm("try", (body,))
                return classify_int_source(prog, ev, body, validators)
    if t.k == "try" and t.a[0].k == "call" and t.a[0].a[0] in validators:
        lo, hi = validators[t.a[0].a[0]]
        if lo >= IJSON[0] and hi <= IJSON[1]:
            return "validated", "%s [%d, %d]" % (t.a[0].a[0].rsplit("::", 1)[1], lo, hi)
        return "unvalidated", "validator `%s` admits [%d, %d], wider than the I-JSON range" % (t.a[0].a[0], lo, hi)
    return "unvalidated", "`%s`" % t


def _through_param(prog, ev, fn, t, validators, tops, depth=0):
    """t is param_i(.field)* of fn: classify the corresponding component of the argument at every call of fn in the parser.
    -> [classification...] or None when t is not rooted in a parameter / fn is never called"""
    path = []
    x = t
    while x.k in ("field", "proj") and len(path) < 4:
        path.append(str(x.a[1]))
        x = x.a[0]
    if x.k != "param" or depth > 2:
        return None
    idx = x.a[0]
    out = []
    for q in tops:
        if q == fn:
            continue
        try:
            _, trace, _ = ev.traced(q)
        except Exception:
            continue
        for c in trace:
            if c.k == "call" and c.a[0] == fn and len(c.a) > idx + 1:
                a = c.a[idx + 1]
                ok = True
                # the argument is the Ok payload of a local builder: look at what it returns
                for _ in range(2):
                    a0 = a.a[0] if a.k == "try" else a
                    if a0.k == "call" and a0.a[0] in prog.bodies and prog.items.get(a0.a[0], {}).get("kind") in ("Fn", "AssocFn"):
                        sm = ev.summary(a0.a[0])
                        oks = [y for y in subterms(sm) if y.k == "adt" and y.a[0] == "core::result::Result" and y.a[1] == "Ok"]
                        if a.k == "try" and len(oks) == 1:
                            a = oks[0].a[2][0][1]
                            q_inner = a0.a[0]
                            continue
                    break
                for seg in reversed(path):
                    if a.k == "tuple" and seg.isdigit() and int(seg) < len(a.a):
                        a = a.a[int(seg)]
                    elif a.k == "adt" and seg in dict(a.a[2]):
                        a = dict(a.a[2])[seg]
                    else:
                        ok = False
                        break
                if not ok:
                    out.append(("unvalidated", "`%s` (argument of %s)" % (c.a[idx + 1], fn.rsplit("::", 1)[-1])))
                    continue
                for alt in alternatives(prog, ev, a):
                    cl = classify_int_source(prog, ev, alt, validators)
                    if cl[0] == "unvalidated":
                        sub = _through_param(prog, ev, q, alt, validators, tops, depth + 1)
                        if sub is not None:
                            out.extend(sub)
                            continue
                    out.append(cl)
    return out or None


def int_slot_sites(prog, ev):
    """Every construction of an integer-carrying AST variant in the parser's reach.
    -> [(slot label, body path, THIR node, [(classification, detail)...])]"""
    validators = range_validators(prog, ev)
    region, _ = prog.parser_region()
    tops = sorted(p for p in region if "::{closure#" not in p and not prog.is_expansion(p))
    out = []
    for p in tops:
        sites = ev.sited(p) if False else None
        t, trace, conds = ev.traced(p)
        # Adt constructions are not calls: walk the summary and the trace arguments
        seen = set()
        cands = []
        for x in subterms(t):
            if x.k == "adt":
                cands.append(x)
        for cp in prog.closures_in(p):
            try:
                cands.extend(x for x in subterms(ev.summary(cp)) if x.k == "adt")
            except Exception:
                pass
        for c in trace:
            for a in c.a[1:]:
                if isinstance(a, Tm):
                    for x in subterms(a):
                        if x.k == "adt":
                            cands.append(x)
        for x in cands:
            for adt, variant, fields in INT_SLOTS:
                if x.a[0] == adt and x.a[1] == variant and id(x.n) not in seen:
                    seen.add(id(x.n))
                    fd = dict(x.a[2])
                    for f in fields:
                        ft = fd.get(f)
                        if ft is None:
                            continue
                        alts = alternatives(prog, ev, ft)
                        cls = []
                        for a in alts:
                            c = classify_int_source(prog, ev, a, validators)
                            if c[0] == "unvalidated":
                                # a pass-through constructor (From impl, `new`): the value is a (component of a) parameter, so
                                # what matters is what its callers hand in
                                via = _through_param(prog, ev, p, a, validators, tops)
                                if via is not None:
                                    cls.extend(via)
                                    continue
                            cls.append(c)
                        out.append(("%s::%s.%s" % (adt.rsplit("::", 1)[1], variant, f), p, x.n, cls))
    return out, validators


def all_int_slots_validated(prog, ev):
    sites, validators = int_slot_sites(prog, ev)
    if not sites or not validators:
        return False, sites
    ok = all(c in ("none", "validated", "loop") for _, _, _, cls in sites for c, _ in cls)
    labels = {s[0] for s in sites}
    need = {"Selector::Index.0", "Selector::Slice.0", "Selector::Slice.1", "Selector::Slice.2", "SingularQuerySegment::Index.0"}
    return ok and need <= labels, sites


# ------------------------------------------------------------------------------------------------ selector tables
SELECTOR_OF_RULE = {"name_selector": "Name", "wildcard_selector": "Wildcard", "index_selector": "Index", "slice_selector": "Slice",
                    "filter_selector": "Filter"}


def selector_tables(prog, ev, rep, rid):
    """Parser: in `selector()` the arm of each grammar rule builds exactly its own Selector variant, unconditionally.
    Evaluator: every arm of `impl Query for Selector` that can take a variant hands it to that variant's handler (one
    handler per variant, found in the unconditional arm); no arm re-routes some values of a variant elsewhere."""
    rep.rule(rid, "selector kinds are not rewritten into each other: the AST builder maps each grammar rule to its own Selector "
             "variant (a slice is never lowered to an index or a wildcard, ...), and the evaluator hands every value of a variant "
             "to that variant's one handler (no fast path that treats `[:]` as `*`)")
    sp = "crate::parser::selector"
    if sp not in prog.bodies:
        rep.unrecognised(rid, "parser/selector", "-", "fn selector not found")
    else:
        t = ev.summary(sp)
        where = prog.loc_of(sp)
        if t.k != "match":
            rep.unrecognised(rid, "parser/selector", where, "not a match on the child rule")
        else:
            for rule, want in SELECTOR_OF_RULE.items():
                sel = tables.select(t.a[1], ("v", rule, []))
                key = "parser/%s" % rule
                if len(sel) != 1 or sel[0][1] != "definite":
                    rep.unrecognised(rid, key, where, "no unique arm for Rule::%s" % rule); continue
                body = t.a[1][sel[0][0]][2]
                built = sorted({x.a[1] for x in subterms(body) if x.k == "adt" and x.a[0] == M + "Selector"})
                if not built:
                    rep.unrecognised(rid, key, where, "no Selector construction visible in the arm for Rule::%s (built through a conversion?): %s" % (rule, str(body)[:120]))
                    continue
                rep.check(built == [want], rid, key, where, "Rule::%s -> Selector::%s" % (rule, want),
                          "the arm for Rule::%s builds %s: a `%s` of the query is (for some spellings) evaluated as another selector kind" % (
                              rule, ["Selector::" + b for b in built] or "no selector", rule.replace("_", " ")))
    try:
        pp = prog.impl_method("crate::query::Query", M + "Selector", "process")
    except Exception:
        rep.unrecognised(rid, "evaluator/dispatch", "-", "impl Query for Selector not found"); return
    t = ev.summary(pp)
    where = prog.loc_of(pp)
    if t.k != "match":
        rep.unrecognised(rid, "evaluator/dispatch", where, "not a match on the selector"); return

    def handler(body):
        cs = [x.a[0] for x in subterms(body) if x.k == "call" and x.a[0] in prog.bodies and prog.items[x.a[0]]["kind"] in ("Fn", "AssocFn")
              and not x.a[0].endswith("flat_map")]
        fs = [x.a[0] for x in subterms(body) if x.k == "fnitem" and x.a[0] in prog.bodies]
        for x in subterms(body):
            if x.k == "closure":
                b = ev.apply(x, [Tm("param", (21, "d"))])
                cs += [y.a[0] for y in subterms(b) if y.k == "call" and y.a[0] in prog.bodies and prog.items[y.a[0]]["kind"] in ("Fn", "AssocFn")]
        return sorted(set(cs + fs))
    for vn, nf in tables.variants_of(prog, M + "Selector") or []:
        arms = []
        for i, (p, g, b) in enumerate(t.a[1]):
            r = tables.pat_match(p, ("v", vn, [tables.ANY] * nf))
            if r != tables.NO:
                arms.append((i, p, g, b))
        key = "evaluator/%s" % vn
        hs = [handler(b) for _, _, _, b in arms]
        same = bool(hs) and all(h == hs[0] and h for h in hs)
        rep.check(same, rid, key, where, "every %s goes to %s" % (vn, hs[0] if hs else "?"),
                  "values of Selector::%s are handled by different code depending on their fields (%s): a special case re-routes some of them" % (
                      vn, [h for h in hs]))


# ------------------------------------------------------------------------------------------------ literals
def literal_exact(prog, ev, rep, rid):
    """A literal of the query denotes exactly the value written: Literal::process hands the payload of each variant to
    the data type unchanged (Int -> From<i64>, Float -> From<f64>, String -> From<&str>, Bool -> From<bool>, Null ->
    null()), unconditionally: no cast, arithmetic or guard in between (a whole-valued float that is turned into an integer
    saturates at 2^63 and changes representation-sensitive equality)."""
    rep.rule(rid, "literals denote exactly the value written: impl Query for Literal hands each variant's payload to the data type "
             "unchanged and unconditionally (no cast, arithmetic, rounding or guard between the AST and T::from)")
    try:
        lp = prog.impl_method("crate::query::Query", M + "Literal", "process")
    except Exception:
        rep.unrecognised(rid, "Literal::process", "-", "impl Query for Literal not found"); return
    t = ev.summary(lp)
    where = prog.loc_of(lp)
    ms = [x for x in subterms(t) if x.k == "match" and x.a[0].k == "param" and x.a[0].a[0] == 0]
    if not ms:
        rep.unrecognised(rid, "Literal::process", where, "no match on the literal: %s" % str(t)[:160]); return
    m = ms[0]
    seen = {}
    for pat, guard, body in m.a[1]:
        p = pat
        while p.get("k") in ("Deref", "DerefPattern"):
            p = p["sub"]
        vn = p.get("variant") if p.get("k") == "Variant" else None
        if vn is None:
            rep.unrecognised(rid, "Literal/<catch-all>", where, "literal handled by a catch-all arm"); continue
        ok = guard is None
        why = "arm has a guard `%s`" % guard if guard is not None else ""
        if ok and vn == "Null":
            ok = body.k == "call" and body.a[0].endswith("::null")
            why = "null literal is `%s`" % body
        elif ok:
            ok = body.k == "call" and body.a[0].endswith("core::convert::Into<U>>::into") and len(body.a) == 2
            if ok:
                a = body.a[1]
                while a.k == "call" and len(a.a) == 2 and a.a[0].rsplit("::", 1)[-1] in ("as_str", "deref", "as_ref", "borrow", "clone"):
                    a = a.a[1]
                ok = a.k == "proj" and a.a[1].endswith("Literal::%s.0" % vn) and a.a[0] == m.a[0]
            why = "the %s literal is converted as `%s`" % (vn, body)
        key = "Literal::%s" % vn
        if key in seen:
            ok = False
            why = "two arms for %s literals (the earlier one is conditional)" % vn
        seen[key] = True
        rep.check(ok, rid, key, where, "payload handed over unchanged",
                  "a %s literal does not denote the value written: %s" % (vn, why))
    for vn, _ in tables.variants_of(prog, M + "Literal") or []:
        if "Literal::%s" % vn not in seen:
            rep.bad(rid, "Literal::%s" % vn, where, "no arm for %s literals" % vn)


# ------------------------------------------------------------------------------------------------ roles
_ROLE_CACHE = {}


def roles(prog, ev):
    """Private helpers identified by what they are used for, so that finding keys survive renaming:
    {function path: role label}."""
    if id(prog) in _ROLE_CACHE:
        return _ROLE_CACHE[id(prog)]
    from vflib import tables
    Q = "crate::query::Query"
    out = {}

    def arm_callee(impl_ty, variant, nf):
        try:
            p = prog.impl_method(Q, impl_ty, "process")
        except Exception:
            return None
        t = ev.summary(p)
        if t.k != "match":
            return None
        sel = tables.select(t.a[1], ("v", variant, [tables.ANY] * nf))
        if len(sel) != 1:
            return None
        body = t.a[1][sel[0][0]][2]
        cands = []
        for x in subterms(body):
            if x.k == "call" and x.a[0] in prog.bodies and prog.items[x.a[0]]["kind"] == "Fn":
                cands.append(x.a[0])
            if x.k == "fnitem" and x.a[0] in prog.bodies:
                cands.append(x.a[0])
            if x.k == "closure":
                b = ev.apply(x, [Tm("param", (20, "d"))])
                for y in subterms(b):
                    if y.k == "call" and y.a[0] in prog.bodies and prog.items[y.a[0]]["kind"] == "Fn":
                        cands.append(y.a[0])
        return cands[0] if cands else None
    for impl_ty, variant, nf, role in ((M + "Segment", "Selectors", 1, "role:multi-selector-handler"), (M + "Segment", "Descendant", 1, "role:descendant-expansion"),
                                       (M + "Selector", "Name", 1, "role:name-handler"), (M + "Selector", "Index", 1, "role:index-handler"),
                                       (M + "Selector", "Slice", 3, "role:slice-handler"), (M + "Selector", "Wildcard", 0, "role:wildcard-handler")):
        c = arm_callee(impl_ty, variant, nf)
        if c:
            out[c] = role
    # comparison helpers
    try:
        from rules import c04
        from vflib.report import Report
        r = c04.find_roles(prog, ev, Report("tmp"))
        if r:
            lt_fn, eq_fn, proc = r
            out[lt_fn] = "role:lt"
            out[eq_fn] = "role:eq"
            tab, t = c04.state_pair_table(prog, ev, eq_fn)
            if tab:
                for b, how in tab.get(("Value", "Value"), []):
                    if b.k == "call" and b.a[0] in prog.bodies:
                        out[b.a[0]] = "role:value-eq"
    except Exception:
        pass
    # function implementations from TestFunction::apply
    try:
        ap = prog.inherent_method(M + "TestFunction", "apply")
        at = ev.summary(ap)
        if at.k == "match":
            for vn, nf in tables.variants_of(prog, M + "TestFunction") or []:
                sel = tables.select(at.a[1], ("v", vn, [tables.ANY] * nf))
                if len(sel) == 1:
                    b = at.a[1][sel[0][0]][2]
                    if b.k == "call" and b.a[0] in prog.bodies:
                        out.setdefault(b.a[0], "role:fn-" + ("regex" if vn in ("Match", "Search") else vn.lower()))
    except Exception:
        pass
    # the path converter behind reference / reference_mut
    try:
        rp = prog.impl_method("crate::query::queryable::Queryable", "serde_json::value::Value", "reference")
        for n, node in prog.callees(rp):
            if n in prog.bodies and prog.items[n]["kind"] == "Fn":
                out[n] = "role:path-converter"
    except Exception:
        pass
    # the two step formatters of Pointer (by signature: (&T, String, &str) / (&T, String, usize))
    for p, it in prog.items.items():
        if it["kind"] == "AssocFn" and (it.get("impl_self") or "").startswith("crate::query::state::Pointer<") and not it.get("impl_trait"):
            ins = it.get("inputs_s", [])
            if len(ins) == 3 and ins[2] == "&str":
                out[p] = "role:name-step-formatter"
            if len(ins) == 3 and ins[2] == "usize":
                out[p] = "role:index-step-formatter"
    _ROLE_CACHE[id(prog)] = out
    return out


def rk(prog, ev, path):
    """role label of a function if it has one, else the path itself"""
    return roles(prog, ev).get(path, path)


# ------------------------------------------------------------------------------------------------ AST text slots
def slot_verbatim(ctx, rep, rid, labels, consequence):
    """The text stored in the given AST slots is a cut of the query text, characters unchanged (only trimming, the
    control-character validator and cutting off the quotes are applied): a helper or std method that rewrites the text
    between the query and the AST (un-escaping, case folding, replacing) changes what every later stage sees."""
    from rules import grammar_common as G
    rep.rule(rid, "the text of %s in the AST is the query's own text, characters unchanged (trim / validator / cut only): no rewriting "
             "helper between the grammar span and the AST slot" % ", ".join(labels))
    try:
        res = G.load(ctx)
    except G.GrammarUnsupported as ex:
        rep.unrecognised(rid, "slots", "-", "parser model unavailable: %s" % ex); return
    for lab in labels:
        info = res["slots"].get(lab)
        if info is None:
            rep.unrecognised(rid, "slot|%s" % lab, "src/parser.rs", "no construction of %s found in the AST builder" % lab); continue
        tr = info.get("transforms") or []
        if tr:
            rep.unrecognised(rid, "slot|%s|%s" % (lab, ",".join(t[10:] for t in tr)), "src/parser.rs",
                             "the text of %s is rewritten by `%s` between the query and the AST: %s" % (lab, ", ".join(t[10:] for t in tr), consequence))
        else:
            rep.ok(rid, "slot|%s" % lab, "src/parser.rs", "%d construction site(s), steps %s" % (info["sites"], info["steps"]))
