"""C12 -- entry points agree and evaluation is a pure function."""
import re
from vflib import census, thir as T, tables
from vflib.terms import Evaluator, Tm, subterms, alts
from vflib import pipeline as PL

META = {
    "level": "proof",
    "explanation": (
        "Decided from the resolved program (THIR/MIR/types dumped by a rustc driver from /repo's working tree): "
        "R1 the three convenience methods are projections of one evaluation (delegation chain and projection "
        "closures matched as terms; parse-once = parse-each-time by construction); R2 no global, thread-local or "
        "interior-mutable state and no I/O, clock, randomness, threads or address observation anywhere in the crate "
        "(callee and type census with positive controls); R3 every AST type is Send+Sync (trait solver) and contains "
        "no interior mutability at any depth (field census); R4 the document is only ever borrowed immutably. "
        "Together: evaluation is a pure function of (query, document) in safe Rust, for every input, history and "
        "thread interleaving. Relative to rustc's type system and the purity of pest/regex/serde_json."),
    "trusted_base": ["rustc nightly type checker / trait solver / THIR construction", "vf driver + rules (this repo)",
                     "pest, regex, serde_json are free of observable global state (pest call-limit knob banned by R2)"],
    "assumptions": ["analysed configuration: lib target, default features, dev profile",
                    "dependencies are pure: Regex::new/is_match/find, serde_json::Value accessors, pest generated parser"],
    "not_decided": [],
}

QREF = "crate::query::QueryRef"


def is_call(t, name):
    return isinstance(t, Tm) and t.k == "call" and t.a[0] == name


def is_param(t, idx=None):
    return isinstance(t, Tm) and t.k == "param" and (idx is None or t.a[0] == idx)


EVAL = [None]


def _loop_map_form(t):
    """t is the vector built by `let mut v = Vec::new()/with_capacity(..); for x in SRC { v.push(F(x)) }`:
    -> (SRC, pushed term, item term) or None"""
    if t.k != "phi":
        return None
    inits = [x for x in t.a if x.k == "call" and (x.a == ("<vec>",) or x.a[0].endswith("Vec::<T>::new") or x.a[0].endswith("::with_capacity"))]
    muts = [x for x in t.a if x.k == "mutated"]
    rest = [x for x in t.a if x not in inits and x not in muts and x.k != "loopvar"]
    if len(inits) != 1 or len(muts) != 1 or rest:
        return None
    prev, eff = muts[0].a
    if not (isinstance(eff, Tm) and eff.k == "call" and eff.a[0].endswith("::push") and len(eff.a) == 3):
        return None
    if not (prev.k == "phi" and all((x in inits) or x.k == "loopvar" for x in prev.a)):
        return None
    items = {y for y in subterms(eff.a[2]) if y.k == "call" and y.a[0] == "<item>" and len(y.a) == 2}
    if len(items) != 1:
        return None
    item = next(iter(items))
    src = item.a[1]
    while src.k == "call" and len(src.a) == 2 and src.a[0].rsplit("::", 1)[-1] in ("into_iter", "iter"):
        src = src.a[1]
    return src, eff.a[2], item


def ok_payload(t):
    """payload of the Ok value a function returns: Result::Ok{0: x} -> x ; `r.map(f)` as the returned value is
    `Ok(f(r?))`, so its payload is f applied to `r?`"""
    if t.k == "adt" and t.a[0] == "core::result::Result" and t.a[1] == "Ok":
        return t.a[2][0][1]
    if t.k == "call" and t.a[0] == "core::result::Result::<T, E>::map" and len(t.a) == 3 and t.a[2].k in ("closure", "fnitem") and EVAL[0] is not None:
        return EVAL[0].apply(t.a[2], [Tm("try", (t.a[1],))])
    return None


def prepare(prog, ev):
    """module state r1 relies on (also for the properties that borrow r1)"""
    global QREF
    if "crate::query::QueryRef" not in prog.adts:
        cands = [p_ for p_ in prog.adts if p_.startswith("crate::") and p_.endswith("::QueryRef")]
        if len(cands) == 1:
            QREF = cands[0]
    else:
        QREF = "crate::query::QueryRef"
    EVAL[0] = ev


def run(ctx, rep):
    global QREF
    prog = ctx.prog
    if "crate::query::QueryRef" not in prog.adts:
        cands = [p_ for p_ in prog.adts if p_.startswith("crate::") and p_.endswith("::QueryRef")]
        if len(cands) == 1:
            QREF = cands[0]         # the type moved to another module (re-exported under its old path)
    else:
        QREF = "crate::query::QueryRef"
    ev = Evaluator(prog)
    EVAL[0] = ev
    r1(prog, ev, rep)
    r2(ctx, prog, rep)
    r3(prog, rep)
    r4(prog, rep)
    if ctx.tier == "thorough":
        from vflib import witness
        witness.report(rep, "C12-W", ['W2', 'W3'], "compile_fail witnesses: parsed query / error / results are Send+Sync; evaluation needs only a shared borrow, reference_mut an exclusive one")


# ------------------------------------------------------------------------------------------- R1
def r1(prog, ev, rep):
    rep.rule("C12-R1", "one evaluation, three projections: JsonPath::{query_with_path,query_only_path,query} -> "
             "js_path / js_path_path / js_path_vals -> js_path_process(parse_json_path(path)?, value); projections are "
             "order- and cardinality-preserving maps of QueryRef::{path,val}", floor=14)
    # (a) trait methods delegate with (path, self)
    for m, target in (("query_with_path", "crate::query::js_path"), ("query_only_path", "crate::query::js_path_path"),
                      ("query", "crate::query::js_path_vals")):
        p = prog.find_fn("crate::JsonPath::" + m)
        t = ev.summary(p)
        good = is_call(t, target) and len(t.a) == 3 and is_param(t.a[1], 1) and is_param(t.a[2], 0)
        rep.check(good, "C12-R1", "JsonPath::%s" % m, prog.loc_of(p),
                  "delegates to %s(path, self)" % target, "expected `%s(path, self)`, found `%s`" % (target, t))
        # and no impl overrides the default method
        over = [x for x in prog.items if x.endswith("::" + m) and prog.items[x].get("impl_trait") == "crate::JsonPath"]
        rep.check(not over, "C12-R1", "JsonPath::%s/no-override" % m, prog.loc_of(p),
                  "no impl overrides the provided method", "overridden in %s" % over)
    # (b) projections
    for fn, proj, field in (("crate::query::js_path_vals", "val", "0"), ("crate::query::js_path_path", "path", "1")):
        p = prog.find_fn(fn)
        t = ev.summary(p)
        inner = ok_payload(t)
        msg = None
        if inner is None:
            msg = "result is not `Ok(..)` of a pipeline: %s" % t
        else:
            src, stages = PL.unwind(inner)
            names = [s[0] for s in stages]
            lm = _loop_map_form(inner) if not names else None
            if lm is not None:
                # `let mut out = Vec::with_capacity(..); for item in js_path(..)? { out.push(item.<field>) }`: the same map as a loop
                src_l, pushed, item = lm
                okproj = pushed.k in ("field", "proj") and pushed.a[0] == item and str(pushed.a[1]).split(".")[-1] == field
                oksrc = src_l.k == "try" and is_call(src_l.a[0], "crate::query::js_path") and is_param(src_l.a[0].a[1], 0) and is_param(src_l.a[0].a[2], 1)
                if not oksrc:
                    msg = "loop source is `%s`, expected `js_path(path, value)?`" % src_l
                elif not okproj:
                    msg = "the loop pushes `%s`, expected field %s of each result in order" % (pushed, field)
            elif names != ["into_iter", "map", "collect"]:
                msg = "pipeline is %s, expected into_iter -> map -> collect (no other adaptor)" % names
            elif not (src.k == "try" and is_call(src.a[0], "crate::query::js_path") and is_param(src.a[0].a[1], 0)
                      and is_param(src.a[0].a[2], 1)):
                msg = "pipeline source is `%s`, expected `js_path(path, value)?`" % src
            else:
                f = stages[1][1][0]
                body = ev.apply(f, [Tm("param", (90, "item"))])
                want = "crate::query::QueryRef::<'a, T>::" + proj
                direct = body == Tm("field", (Tm("param", (90, "item")), field))     # map(QueryRef::val) inlines the accessor
                if not ((is_call(body, want) and body.a[1] == Tm("param", (90, "item"))) or direct):
                    msg = "projection closure computes `%s`, expected `%s(item)`" % (body, want)
        rep.check(msg is None, "C12-R1", fn.split("::")[-1], prog.loc_of(p),
                  "Ok(js_path(path, value)?.into_iter().map(QueryRef::%s).collect())" % proj, msg)
        # QueryRef::val / path return the tuple fields 0 / 1 of self
        pp = prog.inherent_method(QREF, proj)
        tt = ev.summary(pp)
        good = tt.k == "field" and is_param(tt.a[0], 0) and tt.a[1] == field
        rep.check(good, "C12-R1", "QueryRef::" + proj, prog.loc_of(pp), "returns self.%s" % field,
                  "expected `self.%s`, found `%s`" % (field, tt))
    # (c) js_path parses then evaluates: parse-once == parse-every-time
    p = prog.find_fn("crate::query::js_path")
    t = ev.summary(p)
    good = (is_call(t, "crate::query::js_path_process") and len(t.a) == 3 and t.a[1].k == "try"
            and is_call(t.a[1].a[0], "crate::parser::parse_json_path") and is_param(t.a[1].a[0].a[1], 0)
            and is_param(t.a[2], 1))
    rep.check(good, "C12-R1", "js_path", prog.loc_of(p), "js_path_process(&parse_json_path(path)?, value)",
              "expected `js_path_process(&parse_json_path(path)?, value)`, found `%s`" % t)
    # (d) js_path_process: state -> result vector, in order
    p = prog.find_fn("crate::query::js_path_process")
    t = ev.summary(p)
    if t.k != "match":
        rep.unrecognised("C12-R1", "js_path_process", prog.loc_of(p), "not a match over the evaluation state: %s" % t)
    else:
        scrut = t.a[0]
        proc = "crate::query::jp_query::<impl crate::query::Query for crate::parser::model::JpQuery>::process"
        okscrut = (scrut.k == "field" and scrut.a[1] == "data" and is_call(scrut.a[0], proc)
                   and is_param(scrut.a[0].a[1], 0) and is_call(scrut.a[0].a[2], "crate::query::state::State::<'a, T>::root")
                   and is_param(scrut.a[0].a[2].a[1], 1))
        rep.check(okscrut, "C12-R1", "js_path_process/scrutinee", prog.loc_of(p),
                  "path.process(State::root(value)).data", "scrutinee is `%s`" % scrut)
        arms = t.a[1]
        for shape_name, nf in tables.variants_of(prog, "crate::query::state::Data"):
            sel = tables.select(arms, ("v", shape_name, [tables.ANY] * nf))
            key = "js_path_process/Data::%s" % shape_name
            if len(sel) != 1 or sel[0][1] != "definite":
                rep.unrecognised("C12-R1", key, prog.loc_of(p), "arm selection for this shape is not unique: %s" % sel)
                continue
            body = arms[sel[0][0]][2]
            pay = ok_payload(body)
            comp = Tm("proj", (scrut, "Data::%s.0" % shape_name))
            if shape_name == "Ref":
                good = pay is not None and is_call(pay, "<vec>") and len(pay.a) == 2 and _is_into(pay.a[1], comp)
                if not good and any(x.k in ("phi", "mutated", "loopvar") for x in subterms(body)):
                    rep.unrecognised("C12-R1", key, prog.loc_of(p), "the conversion of a single result is written as a loop the rule cannot read: %s" % str(body)[:200])
                else:
                    rep.check(good, "C12-R1", key, prog.loc_of(p), "Ok(vec![p.into()])", "found `%s`" % body)
            elif shape_name == "Refs":
                good = False
                why = "found `%s`" % body
                if pay is not None:
                    src, stages = PL.unwind(pay)
                    names = [s[0] for s in stages]
                    if src == comp and names == ["into_iter", "map", "collect"] and _is_into_fn(stages[1][1][0]):
                        good = True
                    elif src == comp and names == ["into_iter", "collect"]:
                        good = True
                    elif names:
                        why = "pipeline %s over `%s`" % (names, src)
                if not good and any(x.k in ("phi", "mutated", "loopvar") for x in subterms(body)):
                    rep.unrecognised("C12-R1", key, prog.loc_of(p), "the conversion of the result list is written as a loop the rule cannot read: %s" % why[:200])
                else:
                    rep.check(good, "C12-R1", key, prog.loc_of(p), "Ok(refs.into_iter().map(Into::into).collect())", why)
            elif shape_name == "Nothing":
                good = pay is not None and is_call(pay, "<vec>") and len(pay.a) == 1
                if not good and any(x.k in ("phi", "mutated", "loopvar") for x in subterms(body)):
                    rep.unrecognised("C12-R1", key, prog.loc_of(p), "the conversion of an empty result is written as a loop the rule cannot read: %s" % str(body)[:200])
                else:
                    rep.check(good, "C12-R1", key, prog.loc_of(p), "Ok(vec![])", "found `%s`" % body)
            elif shape_name == "Value":
                good = body.k == "adt" and body.a[1] == "Err"
                rep.check(good, "C12-R1", key, prog.loc_of(p), "a fabricated value is never a result (Err)", "found `%s`" % body)
    # (e) Pointer -> QueryRef keeps (inner, path) as (0, 1)
    hits = [x for x, it in prog.items.items() if it.get("impl_trait") == "core::convert::From"
            and (it.get("impl_self") or "").startswith(QREF) and "Pointer" in (it.get("impl_trait_s") or "")]
    if len(hits) != 1:
        rep.unrecognised("C12-R1", "From<Pointer> for QueryRef", "-", "%d impls found" % len(hits))
    else:
        t = ev.summary(hits[0])
        good = (t.k == "adt" and t.a[0] == QREF and dict(t.a[2]).get("0") == Tm("field", (Tm("param", (0, "pointer")), "inner"))
                and dict(t.a[2]).get("1") == Tm("field", (Tm("param", (0, "pointer")), "path")))
        if not good and t.k == "adt" and t.a[0] == QREF:
            f = dict(t.a[2])
            good = (f.get("0") is not None and f["0"].k == "field" and f["0"].a[1] == "inner" and is_param(f["0"].a[0], 0)
                    and f.get("1") is not None and f["1"].k == "field" and f["1"].a[1] == "path" and is_param(f["1"].a[0], 0))
        rep.check(good, "C12-R1", "From<Pointer> for QueryRef", prog.loc_of(hits[0]), "QueryRef(pointer.inner, pointer.path)",
                  "found `%s`" % t)


def _is_into(t, arg):
    return isinstance(t, Tm) and t.k == "call" and t.a[0].endswith("core::convert::Into<U>>::into") and t.a[1] == arg \
        or (isinstance(t, Tm) and t.k == "call" and "core::convert::From" in t.a[0] and t.a[1] == arg)


def _is_into_fn(f):
    return isinstance(f, Tm) and f.k == "fnitem" and ("core::convert::Into" in f.a[0] or "core::convert::From" in f.a[0])


# ------------------------------------------------------------------------------------------- R2
def r2(ctx, prog, rep):
    rep.rule("C12-R2", "no state, no effects: no static mut / non-Freeze static / thread_local; no interior-mutable, "
             "sync-primitive, Rc or raw-pointer type in the crate's ADTs or in any body; no call into "
             "std::{env,fs,io,net,process,thread,time,sync}, RandomState/HashMap, address observation or pest's "
             "process-global knobs -- over every body reachable from the exported API (incl. macro-generated ones)")
    reach, _foreign = prog.reach(prog.public_entry_points())
    allb = sorted(reach)
    rep.extra["c12_entry_points"] = len(prog.public_entry_points())
    hits, nsites = census.scan_calls(prog, allb, census.STATE_AND_EFFECTS)
    rep.extra["c12_call_sites_scanned"] = nsites
    rep.extra["c12_bodies_scanned"] = len(allb)
    for lab, p, node, name in hits:
        rep.bad("C12-R2", "%s|call:%s|%s" % (prog.owner_fn(p), lab, name), T.loc(node),
                "call of `%s` (%s) in `%s`: evaluation/parsing must not touch state or the environment" % (name, lab, p))
    rep.ok("C12-R2", "callee-census", "-", "%d call sites in %d bodies scanned against %d ban classes"
           % (nsites, len(allb), len(census.STATE_AND_EFFECTS)))
    thits, nloc = census.scan_types(prog, allb, census.BANNED_TYPES_STATE)
    for p, ty in thits:
        # pest's Pair holds an Rc that lives and dies inside one parse call: foreign internals are not followed,
        # only types *named* by this crate count; a local of type Rc<..> etc. is named.
        rep.bad("C12-R2", "%s|type:%s" % (prog.owner_fn(p), _tykey(ty)), prog.loc_of(p),
                "a value of stateful/shared-mutable type `%s` is used in `%s`" % (ty, p))
    rep.ok("C12-R2", "type-census", "-", "%d MIR locals (+ THIR expression types) scanned" % nloc)
    for s in prog.statics:
        bad = s["mut"] or not s["freeze"] or s["thread_local"]
        rep.check(not bad, "C12-R2", "static:%s" % s["path"], "%s:%s" % (s["span"]["file"], s["span"]["line"]),
                  "immutable Freeze static", "static `%s` (mut=%s, freeze=%s, thread_local=%s) is global mutable state"
                  % (s["path"], s["mut"], s["freeze"], s["thread_local"]))
    # thread_local! shows up as ThreadLocalRef / LocalKey
    for p in allb:
        b = prog.bodies[p]
        for x in T.walk(b["thir"]["root"]):
            if x.get("k") == "ThreadLocalRef" or "std::thread::local::LocalKey" in (x.get("ty") or ""):
                rep.bad("C12-R2", "%s|thread_local" % prog.owner_fn(p), T.loc(x), "thread-local state used in `%s`" % p)
                break
    rep.ok("C12-R2", "statics-census", "-", "%d statics" % len(prog.statics))
    # ADT fields of all crate ADTs
    nf = 0
    rx = re.compile(census.BANNED_TYPES_STATE + r"|\*(const|mut) ")
    for a in prog.adts.values():
        for v in a["variants"]:
            for f in v["fields"]:
                nf += 1
                if rx.search(f["ty_s"]):
                    rep.bad("C12-R2", "adt-field:%s::%s.%s" % (a["path"], v["name"], f["name"]),
                            "%s:%s" % (a["span"]["file"], a["span"]["line"]),
                            "field of type `%s` makes `%s` stateful / not plain data" % (f["ty_s"], a["path"]))
    rep.ok("C12-R2", "adt-field-census", "-", "%d fields of %d ADTs" % (nf, len(prog.adts)))
    # positive controls
    fx = ctx.fixture
    fh, _ = census.scan_calls(fx, list(fx.bodies.keys()), census.STATE_AND_EFFECTS)
    labs = {h[0] for h in fh}
    for lab, _rx in census.STATE_AND_EFFECTS:
        if lab == "pest-global-knobs":
            continue
        rep.control("C12-R2", lab in labs, "fixture call class `%s`" % lab)
    ft, _ = census.scan_types(fx, list(fx.bodies.keys()), census.BANNED_TYPES_STATE)
    rep.control("C12-R2", any("RefCell" in t for _, t in ft) and any("Rc<" in t for _, t in ft), "fixture local types RefCell/Rc")
    rep.control("C12-R2", any(s["mut"] for s in fx.statics) and any(not s["freeze"] for s in fx.statics)
                and any(s["thread_local"] for s in fx.statics) or _tl(fx), "fixture statics: static mut, non-Freeze, thread_local")
    fr = [f["ty_s"] for a in fx.adts.values() for v in a["variants"] for f in v["fields"] if rx.search(f["ty_s"])]
    rep.control("C12-R2", len(fr) >= 2, "fixture ADT fields RefCell / Rc")


def _tl(fx):
    for p, b in fx.bodies.items():
        for x in T.walk(b["thir"]["root"]):
            if x.get("k") == "ThreadLocalRef" or "std::thread::local::LocalKey" in (x.get("ty") or ""):
                return True
    return False


def _tykey(ty):
    m = re.search(census.BANNED_TYPES_STATE, ty)
    return m.group(0) if m else ty[:60]


# ------------------------------------------------------------------------------------------- R3
AST_MOD = "crate::parser::model::"


def r3(prog, rep):
    rep.rule("C12-R3", "immutable, shareable AST: every ADT of parser::model, JsonPathError and QueryRef<Value> is "
             "Send+Sync (trait solver); AST fields contain only plain data through Box/Vec/Option (deep census); "
             "Query::process takes &self", floor=16)
    ast = [a for a in prog.adts.values() if a["path"].startswith(AST_MOD)]
    for a in ast + [prog.adts.get("crate::parser::errors::JsonPathError")]:
        if a is None:
            rep.unrecognised("C12-R3", "JsonPathError", "-", "ADT not found")
            continue
        rep.check(a.get("send") and a.get("sync"), "C12-R3", "send-sync:%s" % a["path"],
                  "%s:%s" % (a["span"]["file"], a["span"]["line"]), "Send + Sync",
                  "`%s` is not Send+Sync (send=%s sync=%s): a parsed query could not be shared between threads"
                  % (a["path"], a.get("send"), a.get("sync")))
    q = prog.adts.get(QREF)
    if q is None or not q.get("inst"):
        rep.unrecognised("C12-R3", "send-sync:QueryRef<Value>", "-", "no concrete instantiation available")
    else:
        for inst in q["inst"]:
            rep.check(inst["send"] and inst["sync"], "C12-R3", "send-sync:QueryRef<%s>" % inst["with"],
                      "%s:%s" % (q["span"]["file"], q["span"]["line"]), "Send + Sync", "QueryRef<%s> not Send+Sync" % inst["with"])
    # deep plain-data census of the AST: allowed leaf types
    allowed = re.compile(r"^(alloc::string::String|i64|f64|bool|u8|u16|u32|u64|usize|i8|i16|i32|isize|char|"
                         r"alloc::boxed::Box<.*>|alloc::vec::Vec<.*>|core::option::Option<.*>|\(.*\)|crate::parser::model::\w+)$")

    def plain(ty):
        ty = ty.strip()
        if not allowed.match(ty):
            return False
        m = re.match(r"^(alloc::boxed::Box|alloc::vec::Vec|core::option::Option)<(.*)>$", ty)
        if m:
            return all(plain(x) for x in _split_args(m.group(2)))
        if ty.startswith("("):
            return all(plain(x) for x in _split_args(ty[1:-1]))
        return True

    for a in ast:
        for v in a["variants"]:
            for f in v["fields"]:
                rep.check(plain(f["ty_s"]), "C12-R3", "plain:%s::%s.%s" % (a["path"], v["name"], f["name"]),
                          "%s:%s" % (a["span"]["file"], a["span"]["line"]), f["ty_s"],
                          "AST field type `%s` is not plain owned data (String/i64/f64/bool through Box/Vec/Option and AST types)" % f["ty_s"])
    tr = prog.traits.get("crate::query::Query")
    if not tr:
        rep.unrecognised("C12-R3", "Query::process", "-", "trait crate::query::Query not found")
    else:
        for m in tr["items"]:
            if m["name"] == "process":
                rep.check(re.search(r"fn\(&(?:'\w+ )?Self\b", m["sig_s"]) is not None,
                          "C12-R3", "Query::process/&self", "%s:%s" % (tr["span"]["file"], tr["span"]["line"]),
                          m["sig_s"], "Query::process does not take &self: `%s`" % m["sig_s"])


def _split_args(s):
    out, depth, cur = [], 0, ""
    for ch in s:
        if ch in "<(":
            depth += 1
        elif ch in ">)":
            depth -= 1
        if ch == "," and depth == 0:
            out.append(cur.strip()); cur = ""
        else:
            cur += ch
    if cur.strip():
        out.append(cur.strip())
    return [x for x in out if not x.startswith("'")]


# ------------------------------------------------------------------------------------------- R4
def r4(prog, rep):
    rep.rule("C12-R4", "the document is only read: every exported function except Queryable::reference_mut takes the "
             "data type by shared reference; every Queryable accessor the evaluator calls takes &self; no unsafe",
             floor=8)
    q = prog.traits.get("crate::query::queryable::Queryable")
    if not q:
        rep.unrecognised("C12-R4", "Queryable", "-", "trait not found")
        return
    for m in q["items"]:
        if "sig_s" not in m:
            continue
        mutself = "&mut Self" in m["sig_s"]
        if m["name"] == "reference_mut":
            continue
        rep.check(not mutself, "C12-R4", "Queryable::%s" % m["name"], "%s:%s" % (q["span"]["file"], q["span"]["line"]),
                  m["sig_s"], "trait method `%s` can mutate the document: `%s`" % (m["name"], m["sig_s"]))
    for p in prog.public_entry_points():
        it = prog.items[p]
        if p.endswith("::reference_mut"):
            continue
        bad = [s for s in it.get("inputs_s", []) if re.search(r"&(?:'\w+ )?mut (T|Self|serde_json::value::Value)\b", s)]
        if bad:
            rep.bad("C12-R4", "entry:%s" % p, prog.loc_of(p), "exported function takes the document mutably: %s" % bad)
    rep.ok("C12-R4", "entry-points", "-", "%d exported functions take no `&mut` document" % len(prog.public_entry_points()))
    us = census.unsafe_sites(prog)
    for kind, p, where in us:
        rep.bad("C12-R4", "%s:%s" % (kind, p), where, "`unsafe` in the crate voids the immutability argument")
    rep.ok("C12-R4", "no-unsafe", "-", "0 explicit unsafe blocks / fns / impls in %d bodies" % len(prog.bodies))
