"""C07 -- every string that is not a valid RFC 9535 query is rejected."""
import os
import re
from vflib import grammarmodel as GM, facts, tables, thir as T
from vflib.terms import Evaluator, Tm, subterms
from rules import grammar_common as G, shared
from spec import tables as SPEC

META = {
    "level": "other",
    "explanation": (
        "Language inclusion L(pest grammar with explicit implicit-whitespace, filtered by the post-checks found in the code) <= "
        "L(RFC 9535 ABNF + I-JSON integer range) on the regular bodies between the recursion knots, by automata (R1): every "
        "impl-only divergence is reported with rule, symbol class and shortest witness; a post-check that is deleted or weakened "
        "drops out of the model and the strings it used to exclude reappear. R2 every integer stored into Selector::Index, "
        "Selector::Slice.{0,1,2}, SingularQuerySegment::Index passes the +-(2^53-1) validator. R3 every string stored into the "
        "AST from a `string` span passes the control-character validator. R4 function typing: the acceptance table of "
        "TestFunction::try_new over argument shapes (evaluated abstractly) must not be wider than RFC 9535 2.4.1-2.4.3, and "
        "value-typed functions must not be accepted as tests. R5 only the six RFC comparison operators are accepted. "
        "Unknown function names go to the extension hook and are outside the property."),
    "trusted_base": ["pest_meta 2.9.1", "A7 model of pest_generator 2.9.1", "spec/rfc9535.abnf", "spec/tables.py", "pestfacts automata engine", "vf driver + rules"],
    "assumptions": ["PEG language <= its regular (unordered) reading: sound for this direction"],
    "not_decided": [],
}

M = "crate::parser::model::"


def run(ctx, rep):
    res = G.load(ctx)
    where = os.path.relpath(ctx.grammar.path, facts.REPO)
    rep.rule("C07-R1", "inclusion impl <= RFC at main/Q/L/F (modulo absorbed blank): no impl-only divergence", floor=4)
    G.check_side_conditions(rep, "C07-R1", res, where)
    divs = GM.divergences(res)
    for cmp_ in [c for c in res["engine"]["compare"] if not c["id"].startswith("np:")]:
        n = sum(1 for d in cmp_["divergences"] if d["dir"] == "impl-only")
        rep.ok("C07-R1", "compared:%s" % cmp_["id"], where, "%d x %d states, %d product states explored exhaustively, %d impl-only divergence class(es)"
               % (cmp_["impl_states"], cmp_["rfc_states"], cmp_["product_states"], n))
    for k, d in sorted(divs.items()):
        if k[0] != "impl-only":
            continue
        rep.bad("C07-R1", "div|%s|%s|%s" % k, where,
                "invalid query accepted: `%s` (at `%s`, rule %s, symbol class %s)%s" % (
                    d["witness"], d["where"], k[1], k[2], (": " + G.hint(k)) if G.hint(k) else ""))
    rep.extra["filters_modelled"] = res["applied_filters"]
    rep.extra["parser_notes"] = res["parser_notes"]
    rep.samples.extend({"rule": "C07-R1", "comparison": c["id"], "impl_states": c["impl_states"], "rfc_states": c["rfc_states"]} for c in res["engine"]["compare"] if not c["id"].startswith("np:"))
    r2(ctx, rep)
    r3(ctx, rep, res)
    typing(ctx, rep, only="C07-R4")
    r5(ctx, rep, res)


def r2(ctx, rep):
    rep.rule("C07-R2", "integer range coverage: every parser construction of Selector::Index, Selector::Slice.{0,1,2} and "
             "SingularQuerySegment::Index passes the value through a validator that rejects v > 2^53-1 or v < -(2^53-1)", floor=5)
    prog = ctx.prog
    ev = Evaluator(prog)
    sites, validators = shared.int_slot_sites(prog, ev)
    for v, (lo, hi) in validators.items():
        rep.check(lo == -(2 ** 53 - 1) and hi == 2 ** 53 - 1, "C07-R2", "validator:%s" % v, prog.loc_of(v), "[-(2^53-1), 2^53-1]",
                  "range validator `%s` admits [%d, %d], RFC 9535 2.1 requires the I-JSON range" % (v, lo, hi))
    if not validators:
        rep.bad("C07-R2", "validator", "src/parser.rs", "no I-JSON range validator found in the parser")
    seen = set()
    for lab, p, node, cls in sites:
        seen.add(lab)
        bad = [d for c, d in cls if c == "unvalidated"]
        rep.check(not bad, "C07-R2", "%s@%s" % (lab, p), T.loc(node) if node else prog.loc_of(p), "range-checked",
                  "%s is stored without passing the I-JSON range validator: %s" % (lab, "; ".join(bad)[:300]))
    need = {"Selector::Index.0", "Selector::Slice.0", "Selector::Slice.1", "Selector::Slice.2", "SingularQuerySegment::Index.0"}
    for lab in sorted(need - seen):
        rep.unrecognised("C07-R2", "slot:%s" % lab, "src/parser.rs", "no parser construction of %s found" % lab)


def r3(ctx, rep, res):
    rep.rule("C07-R3", "string validator coverage: every String stored into the AST from a quoted-string span passed the "
             "control-character validator (chars <= U+001F rejected)", floor=3)
    slots = res["slots"]
    fx = {f["id"]: f for f in res["engine"]["facts"]}
    grammar_admits_ctrl = any(fx.get("ctrl-in:" + r, {}).get("min_len", 0) >= 0 for r in ("string", "member_name_shorthand"))
    for lab in ("Selector::Name", "Literal::String", "SingularQuerySegment::Name"):
        info = slots.get(lab)
        if not info:
            rep.unrecognised("C07-R3", lab, "src/parser.rs", "no parser construction of %s found" % lab)
            continue
        ctrl = [s for s in info["steps"] if s.startswith("ctrl<=")]
        good = bool(ctrl) and int(ctrl[0][6:]) >= 0x1F
        for st in info["steps"]:
            if st.startswith("reject:"):
                rs = [[int(a), int(b)] for a, b in (x.split("-") for x in st[7:].split(","))]
                good = good or any(a == 0 and b >= 0x1F for a, b in rs)
        if not grammar_admits_ctrl:
            rep.ok("C07-R3", lab, "src/parser.rs", "the grammar itself admits no control character in string / shorthand spans (atomic token rules); validator steps: %s" % ",".join(info["steps"]))
            continue
        rep.check(good, "C07-R3", lab, "src/parser.rs", "validated (%s)" % ",".join(info["steps"]),
                  "%s is built from a string span without the control-character validation (steps: %s)" % (lab, info["steps"]))


# ------------------------------------------------------------------------------------------- typing
class ShapeEval:
    """Abstract evaluation of Result/bool terms when the *variants* of some terms are known."""

    def __init__(self, prog, ev):
        self.prog, self.ev = prog, ev

    def shape_of(self, t, shp):
        for k, v in shp:
            if k == t:
                return v
        if t.k == "proj":
            # payload of a variant whose shape is known in depth: ("v", Variant, [field shapes])
            s = self.shape_of(t.a[0], shp)
            m = re.match(r".*::(\w+)\.(\d+)$", t.a[1])
            if s is not None and m and s[0] == "v" and s[1] == m.group(1) and int(m.group(2)) < len(s[2]):
                sub = s[2][int(m.group(2))]
                return sub if isinstance(sub, tuple) else None
        return None

    def boolean(self, t, shp, depth=0):
        if depth > 12:
            return None
        if t.k == "lit" and t.a[0] == "bool":
            return t.a[1] == "true"
        if t.k == "un" and t.a[0] == "Not":
            b = self.boolean(t.a[1], shp, depth + 1)
            return None if b is None else (not b)
        if t.k == "logic":
            a, b = self.boolean(t.a[1], shp, depth + 1), self.boolean(t.a[2], shp, depth + 1)
            if t.a[0] == "And":
                if a is False or b is False:
                    return False
                return True if (a and b) else None
            if a is True or b is True:
                return True
            return False if (a is False and b is False) else None
        if t.k == "call" and t.a[0] in self.prog.bodies:
            return self.boolean(self.ev.summary(t.a[0]), self.rebind(t, shp), depth + 1)
        if t.k == "match":
            s = self.shape_of(t.a[0], shp)
            if s is None:
                return None
            sel = tables.select(t.a[1], s)
            if len(sel) == 1 and sel[0][1] == "definite":
                return self.boolean(t.a[1][sel[0][0]][2], shp, depth + 1)
        return None

    def rebind(self, call, shp):
        """shapes of the callee's parameters from the shapes of the actual arguments"""
        out = []
        params = self.prog.params(call.a[0])
        for i, a in enumerate(call.a[1:]):
            s = self.shape_of(a, shp)
            if s is not None and i < len(params):
                pat = params[i].get("pat") or {}
                while pat.get("k") in ("Deref", "DerefPattern"):
                    pat = pat["sub"]
                out.append((Tm("param", (i, pat.get("name", "arg%d" % i))), s))
        return out

    def result(self, t, shp, depth=0):
        """-> set of {'Ok','Err','?'}"""
        if depth > 12:
            return {"?"}
        if t.k == "adt" and t.a[0] == "core::result::Result":
            if t.a[1] == "Err":
                return {"Err"}
            outs = {"Ok"}
            for x in subterms(t.a[2][0][1]):
                if x.k == "try":
                    r = self.result(x.a[0], shp, depth + 1)
                    if r == {"Err"}:
                        return {"Err"}
                    if "Err" in r or "?" in r:
                        outs |= (r - {"Ok"})
            return outs
        if t.k == "if":
            b = self.boolean(t.a[0], shp, depth + 1)
            if b is True:
                return self.result(t.a[1], shp, depth + 1)
            if b is False:
                return self.result(t.a[2], shp, depth + 1)
            return self.result(t.a[1], shp, depth + 1) | self.result(t.a[2], shp, depth + 1)
        if t.k == "match":
            s = self.shape_of(t.a[0], shp)
            if s is not None:
                sel = tables.select(t.a[1], s)
                out = set()
                for i, how in sel:
                    g = t.a[1][i][1]
                    gb = self.boolean(g, shp, depth + 1) if g is not None else True
                    if gb is False:
                        continue
                    out |= self.result(t.a[1][i][2], shp, depth + 1)
                    if gb is True and (how == "definite" or tables.pat_match(t.a[1][i][0], s) == tables.YES):
                        break
                return out or {"?"}
            out = set()
            for p, g, b in t.a[1]:
                out |= self.result(b, shp, depth + 1)
            return out
        if t.k == "call" and t.a[0] in self.prog.bodies:
            return self.result(self.ev.summary(t.a[0]), self.rebind(t, shp), depth + 1)
        if t.k == "phi":
            out = set()
            for x in t.a:
                out |= self.result(x, shp, depth + 1)
            return out
        if t.k == "try":
            return self.result(t.a[0], shp, depth + 1)
        if t.k == "call" and len(t.a) >= 2 and t.a[0].startswith("core::result::Result") and \
                t.a[0].rsplit("::", 1)[-1] in ("cloned", "copied", "map"):
            # Ok stays Ok and Err stays Err under these (the mapped function is a constructor / clone)
            if t.a[0].rsplit("::", 1)[-1] != "map" or (len(t.a) == 3 and t.a[2].k == "fnitem"):
                return self.result(t.a[1], shp, depth + 1)
        return {"?"}


PARAM_OK = {  # (parameter type, FnArg shape) -> RFC verdict over the kinds that map to the shape
    ("Value", "Literal"): "ok",
    ("Value", "Test"): "mixed",      # singular query / value function ok; non-singular query / logical function ill-typed
    ("Value", "Filter"): "ill",
    ("Nodes", "Literal"): "ill",
    ("Nodes", "Test"): "mixed",      # queries ok; function results ill-typed
    ("Nodes", "Filter"): "ill",
    ("Logical", "Literal"): "ill",
    ("Logical", "Test"): "ok",
    ("Logical", "Filter"): "ok",
}


def typing(ctx, rep, only):
    prog = ctx.prog
    ev = Evaluator(prog)
    se = ShapeEval(prog, ev)
    if only == "C07-R4":
        rep.rule("C07-R4", "function typing is not wider than RFC 9535: per (function, parameter, argument shape) the table of "
                 "TestFunction::try_new accepts nothing the RFC declares ill-typed; value-typed functions are not accepted as "
                 "tests; logical-typed ones not as comparables", floor=15)
    else:
        rep.rule("C06-R3", "typing accepts every well-typed call: no (function, parameter, argument shape) that RFC 9535 allows for "
                 "some argument kind is rejected", floor=15)
    p = prog.inherent_method(M + "TestFunction", "try_new")
    t = ev.summary(p)
    where = prog.loc_of(p)
    if t.k != "match" or t.a[0].k != "tuple":
        rep.unrecognised(only, "try_new", where, "not a match on (name, args)")
        return
    name_t, args_t = t.a[0].a
    fnarg_variants = tables.variants_of(prog, M + "FnArg") or []
    shapes = {vn: ("v", vn, [tables.ANY] * nf) for vn, nf in fnarg_variants}
    if set(shapes) != {"Literal", "Test", "Filter"}:
        rep.unrecognised(only, "FnArg", where, "FnArg variants are %s: the typing table must be re-derived" % sorted(shapes))
        return
    for fname, (ptypes, rtype) in SPEC.FUNCTIONS.items():
        n = len(ptypes)
        for i, pty in enumerate(ptypes):
            for sh in ("Literal", "Test", "Filter"):
                # the other arguments are of shape Test (accepted everywhere today)
                sel = tables.select(t.a[1], ("t", [("s", fname), ("sl", n)]))
                if len(sel) != 1:
                    rep.unrecognised(only, "%s/%d" % (fname, i), where, "no unique arm"); continue
                body = t.a[1][sel[0][0]][2]
                shp = []
                for j in range(n):
                    arg = Tm("index", (args_t, Tm("lit", ("int", str(j)))))
                    shp.append((arg, shapes[sh if j == i else "Test"]))
                shp.append((name_t, ("s", fname)))
                r = se.result(body, shp)
                verdict = PARAM_OK[(pty, sh)]
                key = "typing|%s|%d|%s" % (fname, i, sh)
                if r == {"?"} or "?" in r:
                    rep.unrecognised(only, key, where, "cannot evaluate acceptance of %s(arg %d: %s): %s" % (fname, i, sh, r)); continue
                accepts = "Ok" in r
                if only == "C07-R4":
                    if accepts and verdict == "ill":
                        rep.bad("C07-R4", key, where, "`%s` accepts a %s as argument %d, which RFC 9535 declares ill-typed (parameter is %sType)" % (
                            fname, {"Literal": "literal", "Filter": "logical expression", "Test": "query/function"}[sh], i + 1, pty))
                    elif accepts and verdict == "mixed":
                        rep.bad("C07-R4", key, where,
                                "`%s` accepts every query or function call as argument %d; RFC 9535 allows only %s there, but the AST (FnArg::Test) "
                                "does not record which it is" % (fname, i + 1, "singular queries and value-typed functions" if pty == "Value" else "queries"))
                    else:
                        rep.ok("C07-R4", key, where, "rejected" if not accepts else "well-typed")
                else:
                    if not accepts and verdict in ("ok", "mixed"):
                        rep.bad("C06-R3", key, where, "`%s` rejects every %s as argument %d although RFC 9535 allows %s there" % (
                            fname, sh, i + 1, "it" if verdict == "ok" else "some of them"))
                    else:
                        rep.ok("C06-R3", key, where, "accepted" if accepts else "ill-typed and rejected")
                    if sh == "Test" and accepts:
                        # the kinds of test the RFC allows here must each be accepted: relative and absolute queries everywhere,
                        # function calls where a value or a logical is expected
                        tv = dict(tables.variants_of(prog, M + "Test") or [])
                        want = [v for v in ("RelQuery", "AbsQuery") if v in tv] + (["Function"] if pty in ("Value", "Logical") and "Function" in tv else [])
                        for sub in want:
                            shp2 = [(a_, (("v", "Test", [("v", sub, [tables.ANY] * tv[sub])]) if a_ is shp[i][0] else s_)) for a_, s_ in shp]
                            r2 = se.result(body, shp2)
                            k2 = "%s:%s" % (key, sub)
                            if "?" in r2:
                                rep.unrecognised("C06-R3", k2, where, "cannot evaluate acceptance of %s(arg %d: Test::%s): %s" % (fname, i, sub, r2))
                            elif "Ok" not in r2:
                                rep.bad("C06-R3", k2, where, "`%s` rejects %s as argument %d although RFC 9535 allows it there (e.g. `%s(%s)`)" % (
                                    fname, {"RelQuery": "a relative query", "AbsQuery": "an absolute query", "Function": "a function call"}[sub], i + 1,
                                    fname, {"RelQuery": "@.a", "AbsQuery": "$.a", "Function": "value(@.a)"}[sub]))
                            else:
                                rep.ok("C06-R3", k2, where, "accepted")
    if only != "C07-R4":
        return
    # result kinds in context: comparable gate and test-position gate
    cp = prog.find_fn("crate::parser::comparable")
    ct = ev.summary(cp)
    gate = any(x.k == "if" and x.a[0].k == "call" and x.a[0].a[0].endswith("TestFunction::is_comparable") and x.a[2].k == "adt" and x.a[2].a[1] == "Err"
               for x in subterms(ct)) or \
        any(x.k == "if" and x.a[0].k == "un" and x.a[0].a[0] == "Not" and x.a[0].a[1].k == "call" and x.a[0].a[1].a[0].endswith("TestFunction::is_comparable")
            and x.a[1].k == "adt" and x.a[1].a[1] == "Err" for x in subterms(ct))
    rep.check(gate, "C07-R4", "typing|comparable-gate", prog.loc_of(cp), "non-comparable functions rejected in comparisons",
              "`comparable` accepts a function without consulting is_comparable(): match()/search() results could be compared")
    fa = prog.find_fn("crate::parser::filter_atom")
    ft = ev.summary(fa)
    tgate = any(x.k == "call" and x.a[0].endswith("Test::is_res_bool") for x in subterms(ft)) or \
        any(x.k == "call" and x.a[0].endswith("TestFunction::is_comparable") for x in subterms(ft))
    rep.check(tgate, "C07-R4", "typing|test-position", prog.loc_of(fa), "value-typed functions rejected as tests",
              "`filter_atom` accepts any function call as a test: `$[?length(@.a)]`, `$[?count(@.a)]`, `$[?value(@.a)]` are accepted "
              "although their results are ValueType (RFC 9535 2.4.9: test-expr needs LogicalType or NodesType)")


def r5(ctx, rep, res):
    rep.rule("C07-R5", "operator whitelist: exactly the six RFC comparison operators are accepted", floor=1)
    ops = res["ops"]
    good = sorted(ops["accepted"]) == sorted(SPEC.COMPARISON) and not ops["other_accepted"]
    rep.check(good, "C07-R5", "comparison-operators", "src/parser/model.rs", " ".join(sorted(ops["accepted"])),
              "accepted comparison operators are %s%s; RFC 9535 defines %s" % (sorted(ops["accepted"]), " and any other token" if ops["other_accepted"] else "", sorted(SPEC.COMPARISON)))
