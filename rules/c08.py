"""C08 -- parsing and evaluation never panic, abort or hang."""
import re
from vflib import census, thir as T, tables
from vflib.terms import Evaluator, Tm, subterms
from vflib.intervals import Intervals, TYPE_RANGE, facts_of, INF, ty_of
from rules import shared

META = {
    "level": "other",
    "explanation": (
        "R1 no explicit panic (unwrap/expect/panic!/unreachable!/assert!/exit) in any body reachable from the exported API "
        "(census with positive controls). R2 every panic-capable operation -- integer arithmetic under overflow checks "
        "(cross-checked against the MIR Assert terminators of the real build), Vec/str indexing, abs, and a table of std "
        "functions that panic on a value condition -- is discharged by an interval abstract interpretation of its operands "
        "refined by the enclosing conditions, or by a relational bound proof for indexing (index < len from the dominating "
        "guards); a site that cannot be discharged is a violation. AST integers are in the I-JSON range only if every "
        "parser constructor validates them (C07-R2, re-checked here). R3 every loop is iterator-driven over a finite source "
        "or a counter loop whose step moves toward the exit with a sign known from the enclosing guard. R4 census of "
        "recursion cycles: each needs a visible depth bound; today none has one (known findings). R5 evaluation cannot "
        "fail: the only Err constructed under js_path_process is its own Data::Value arm. Not decided: wall-clock bounds "
        "of pest backtracking and of the regex engine."),
    "trusted_base": ["rustc nightly THIR/MIR (overflow checks on)", "vf driver + rules", "documented panic conditions of std functions"],
    "assumptions": ["collections hold at most 2^62 elements", "programmatic ASTs carry integers within the I-JSON range (the property's premise)",
                    "regex::Regex::new returns Err rather than panicking; regex matching is linear-time"],
    "not_decided": ["time bound of PEG backtracking", "time bound of the regex engine", "deadness of js_path_process's Err arm"],
}
META["explanation"] += ' R6 slice walks visit a number of positions bounded by the array length (shared with C11-R7). R2 also proves indexes that are the payload of an Option computed by a conditional, leaf by leaf.'

Q = "crate::query::Query"
M = "crate::parser::model::"
QT = "crate::query::queryable::Queryable"
ARITH = {"Add", "Sub", "Mul", "Div", "Rem", "Shl", "Shr"}
INT_TYPES = set(TYPE_RANGE)

PANICKING_CALLS = [
    (r"Index<I>>::index$|IndexMut<I>>::index_mut$|impl core::ops::index::Index<I> for str>::index$", "index"),
    (r"^core::num::<impl i\d+>::(abs|pow|neg|div_euclid|rem_euclid|isqrt|ilog\w*|next_power_of_two)$|^core::num::<impl (u|i)\w+>::(pow|ilog\w*|isqrt|div_ceil|next_multiple_of)$", "int-op"),
    (r"Iterator::step_by$", "step_by"),
    (r"^alloc::vec::Vec::<T, A>::(remove|insert|swap_remove|split_off|drain|truncate_front|splice|extend_from_within)$", "vec-op"),
    (r"^alloc::string::String::(insert|insert_str|remove|truncate|drain|split_off|replace_range)$", "string-op"),
    (r"^core::slice::<impl \[T\]>::(split_at|split_at_mut|copy_from_slice|clone_from_slice|chunks|chunks_exact|windows|rotate_left|rotate_right|swap|copy_within|first_chunk|select_nth_unstable)$", "slice-op"),
    (r"^core::str::<impl str>::(split_at|split_at_mut)$", "str-op"),
    (r"^core::char::methods::<impl char>::(from_digit|to_digit|is_digit)$", "radix"),
    (r"^core::cell::RefCell::<T>::(borrow|borrow_mut)$", "refcell"),
    (r"^core::time::|^std::time::", "time"),
    (r"^alloc::slice::<impl \[T\]>::repeat$|^alloc::str::<impl str>::repeat$", "repeat"),
]


def run(ctx, rep):
    prog = ctx.prog
    ev = Evaluator(prog)
    r1(ctx, prog, rep)
    r2(ctx, prog, ev, rep)
    r3(ctx, prog, ev, rep)
    r4(ctx, prog, rep)
    r5(prog, ev, rep)
    from rules import c11
    c11.shared_work_rule(prog, ev, rep, "C08-R6")


def reach_tops(prog):
    reach, _ = prog.reach(prog.public_entry_points())
    return reach, sorted(p for p in reach if "::{closure#" not in p)


# ------------------------------------------------------------------------------------------- R1
def r1(ctx, prog, rep):
    rep.rule("C08-R1", "no explicit panics: zero calls of unwrap/expect(/_err), panic machinery, unreachable/assert failure paths, "
             "process::exit/abort in bodies reachable from the exported API")
    reach, _ = reach_tops(prog)
    hits, n = census.scan_calls(prog, sorted(reach), census.EXPLICIT_PANICS)
    for lab, p, node, name in hits:
        rep.bad("C08-R1", "%s|%s|%s" % (prog.owner_fn(p), lab, name.rsplit("::", 1)[1]), T.loc(node),
                "`%s` (%s) reachable from the public API in `%s`: this input-dependent failure aborts the caller" % (name, lab, p))
    rep.ok("C08-R1", "panic-census", "-", "%d call sites in %d reachable bodies" % (n, len(reach)))
    rep.extra["reachable_bodies"] = len(reach)
    fx = ctx.fixture
    fh, _ = census.scan_calls(fx, list(fx.bodies.keys()), census.EXPLICIT_PANICS)
    labs = {h[0] for h in fh}
    for lab in ("unwrap", "panic", "exit"):
        rep.control("C08-R1", lab in labs, "fixture explicit panic class `%s`" % lab)


# ------------------------------------------------------------------------------------------- R2
def ast_int_predicate(prog, ev, validated_slots):
    """Terms that denote (an Option of) an integer stored in the AST: pattern projections of the integer slots, and
    parameters of evaluator helpers all of whose call sites pass such projections.  `validated_slots`: set of slot
    labels every parser constructor of which range-checks the value."""
    slot_re = re.compile(r"^(Selector::Index\.0|Selector::Slice\.[012]|SingularQuerySegment::Index\.0)$")
    params = {}
    evalr, _ = prog.evaluator()
    tops = sorted(p for p in evalr if "::{closure#" not in p and not prog.is_expansion(p))
    callargs = {}
    for p in tops:
        t, trace, conds = ev.traced(p)
        for c in trace:
            if c.k == "call" and c.a[0] in prog.bodies:
                callargs.setdefault(c.a[0], []).append(c.a[1:])
    for fn, calls in callargs.items():
        n = min(len(a) for a in calls)
        for i in range(n):
            if all(a[i].k == "proj" and slot_re.match(a[i].a[1]) for a in calls):
                params[(fn, i)] = {a[i].a[1] for a in calls}

    def pred(t, fn=None):
        if t.k == "proj" and slot_re.match(t.a[1]):
            return t.a[1] in validated_slots
        return False
    return pred, params


def r2(ctx, prog, ev, rep):
    rep.rule("C08-R2", "panic-capable operations are censused and each is discharged: integer arithmetic by interval analysis of its "
             "operands under the enclosing conditions; indexing by a bound proof (index < len) from the enclosing guards; "
             "abs by excluding i64::MIN; other panicking std calls are not accepted without a proof", floor=14)
    validated, slot_sites = shared.all_int_slots_validated(prog, ev)
    all_slots = {"Selector::Index.0", "Selector::Slice.0", "Selector::Slice.1", "Selector::Slice.2", "SingularQuerySegment::Index.0"}
    bad_slots = {lab for lab, p, node, cls in slot_sites if any(c == "unvalidated" for c, _ in cls)}
    seen_slots = {lab for lab, p, node, cls in slot_sites}
    good_slots = (all_slots & seen_slots) - bad_slots
    if bad_slots:
        rep.note("AST integers NOT range-checked by the parser: %s" % sorted(bad_slots))
    pred, ast_params = ast_int_predicate(prog, ev, good_slots)
    unval_pred, _ = ast_int_predicate(prog, ev, all_slots)
    reach, tops = reach_tops(prog)
    n_arith = n_index = n_other = 0
    mir_asserts = 0
    thir_arith_by_fn = {}
    grammar_min = None
    from vflib import terms as _terms
    unfolded = set(_terms.UNFOLD or ())
    for p in tops:
        if prog.is_expansion(p):
            continue
        if p in unfolded and not prog.items[p].get("exported"):
            continue        # a private helper that is unfolded at every call site: its operations are examined there, in context
        fam = [p] + prog.closures_in(p)
        # MIR cross-check: number of overflow/bounds asserts in the family
        ma = 0
        for q in fam:
            m = prog.mir(q)
            if m:
                for b in m["blocks"]:
                    t = b["term"]
                    if t["k"] == "Assert" and not t["msg"].startswith("ub_check") and not b.get("cleanup"):
                        ma += 1
        mir_asserts += ma
        sites = ev.sited(p)
        # parameter ranges for this function: AST-int parameters
        pr = {}
        for (fn, i), slots in ast_params.items():
            if fn == p:
                name = _pname(prog, p, i)
                pr[Tm("param", (i, name))] = slots

        def is_ast(t, pr=pr):
            if pred(t):
                return True
            if t in pr:
                return pr[t] <= good_slots
            if t.k == "proj" and t.a[1] == "Option::Some.0":
                return is_ast(t.a[0])           # the payload of an Option<AST integer>
            return False
        updates = {}
        for s0 in sites:
            if s0["kind"] == "assignop":
                tgt = T.peel(s0["node"]["l"])
                if tgt.get("k") in ("Var", "Upvar"):
                    updates.setdefault(tgt["var"]["id"], []).append((s0["term"], s0["pc"]))
        for vid, vals in (getattr(ev, "last_assigned", {}) or {}).items():
            if vid not in updates and vals:
                updates[vid] = [(v, ()) for v in vals]
        iv = Intervals(ast_ints=is_ast, updates=updates)
        iv_if_validated = Intervals(ast_ints=lambda t, pr=pr: unval_pred(t) or t in pr or (t.k == "proj" and t.a[1] == "Option::Some.0" and (unval_pred(t.a[0]) or t.a[0] in pr)), updates=updates)
        ta = 0
        for s in sites:
            node, term, pc = s["node"], s["term"], s["pc"]
            if s["kind"] in ("bin", "assignop", "un"):
                op = term.a[0]
                ty = (node.get("ty") or "") if s["kind"] != "assignop" else ty_of(term.a[1]) or _lhs_ty(node)
                if s["kind"] == "assignop":
                    ty = _lhs_ty(node)
                if s["kind"] == "un":
                    if op != "Neg" or ty not in INT_TYPES or ty.startswith("u"):
                        continue
                    if term.a[1].k == "lit":
                        continue        # negative literal, folded by the compiler
                elif op not in ARITH or ty not in INT_TYPES:
                    continue
                ta += 1
                n_arith += 1
                key = "%s|%s|%s" % (p, op, _abstract(term))
                tr = TYPE_RANGE[ty]
                if s["kind"] == "un":
                    a = iv.iv(term.a[1], pc)
                    res = (-a[1], -a[0])
                else:
                    res = iv._iv(term, pc, 0)
                    if op == "Sub" and res[0] < tr[0] and _le_fact(pc, term.a[2], term.a[1]):
                        res = (max(res[0], 0), res[1])      # b <= a dominates a - b
                    if op in ("Div", "Rem"):
                        d = iv.iv(term.a[2], pc)
                        if d[0] <= 0 <= d[1]:
                            rep.bad("C08-R2", key, T.loc(node), "division by a value that may be zero: `%s`" % term)
                            continue
                        res = tr
                if not (res[0] >= tr[0] and res[1] <= tr[1]) and s["kind"] != "un" and op in ("Add", "Sub"):
                    from vflib import relational
                    lo_ok, hi_ok = relational.prove_range(iv, pc, term, tr)
                    if (res[0] >= tr[0] or lo_ok) and (res[1] <= tr[1] or hi_ok):
                        res = (max(res[0], tr[0]), min(res[1], tr[1]))
                if not (res[0] >= tr[0] and res[1] <= tr[1]) and s["kind"] != "un":
                    # a disjunctive guard (`a || b`): the range is the join of the ranges under each disjunct
                    from vflib.intervals import split_cases
                    cases = split_cases(pc)
                    if len(cases) > 1:
                        rs = [iv._iv(term, pcase, 0) for pcase in cases]
                        res = (max(res[0], min(r_[0] for r_ in rs)), min(res[1], max(r_[1] for r_ in rs)))
                if res[0] >= tr[0] and res[1] <= tr[1]:
                    rep.ok("C08-R2", key, T.loc(node), "%s in [%s, %s] fits %s" % (op, _f(res[0]), _f(res[1]), ty))
                else:
                    res2 = iv_if_validated._iv(term, pc, 0) if s["kind"] != "un" else None
                    extra = ""
                    if res2 is not None and res2[0] >= tr[0] and res2[1] <= tr[1] and not validated:
                        extra = " (it would be safe if every integer in the AST were range-checked by the parser, but %s is not: C07-R2)" % \
                            [lab for lab, _, _, cls in slot_sites if any(c == "unvalidated" for c, _ in cls)]
                    if s.get("pc_incomplete"):
                        rep.unrecognised("C08-R2", key, T.loc(node), "`%s` is not shown to fit %s (range [%s, %s]) and the conditions of an early exit "
                                         "inside a nested block before it could not be carried along" % (_short(term), ty, _f(res[0]), _f(res[1])))
                    else:
                        rep.bad("C08-R2", key, T.loc(node),
                                "`%s` may overflow %s: result range [%s, %s]%s" % (_short(term), ty, _f(res[0]), _f(res[1]), extra))
            elif s["kind"] in ("call", "index"):
                name = term.a[0] if s["kind"] == "call" else "<index>"
                cls = None
                if s["kind"] == "index":
                    cls = "index"
                else:
                    for rx, c in PANICKING_CALLS:
                        if re.search(rx, name) or re.search(rx, node.get("fn") or ""):
                            cls = c; break
                if cls is None:
                    continue
                if (node.get("sp") or {}).get("exp") and set((node.get("sp") or {}).get("mac_crates") or ["?"]) <= {"core", "alloc", "std"} and cls != "index":
                    continue
                key = "%s|%s|%s" % (p, name.rsplit("::", 1)[1] if s["kind"] == "call" else "index", _abstract(term))
                if cls == "index":
                    n_index += 1
                    ok, why = prove_index(prog, ev, iv, p, term, pc, ctx)
                    if not ok:
                        from vflib.intervals import split_cases
                        cases = split_cases(pc)
                        if len(cases) > 1:
                            sub = [prove_index(prog, ev, iv, p, term, pcase, ctx) for pcase in cases]
                            if all(o for o, _ in sub):
                                ok, why = True, "in each case of the disjunctive guard: " + sub[0][1]
                    if not ok and s.get("pc_incomplete"):
                        rep.unrecognised("C08-R2", key, T.loc(node), "no bound proof for this index, and the conditions of an early exit inside a "
                                         "nested block before it could not be carried along (they may be what bounds it): %s" % why)
                    else:
                        rep.check(ok, "C08-R2", key, T.loc(node), why, "indexing may be out of bounds: %s" % why)
                elif cls == "int-op" and name.endswith("::abs"):
                    n_other += 1
                    a = iv.iv(term.a[1], pc)
                    tr = TYPE_RANGE.get(ty_of(term) or "i64", TYPE_RANGE["i64"])
                    if a[0] > tr[0]:
                        rep.ok("C08-R2", key, T.loc(node), "abs of a value in [%s, %s]" % (_f(a[0]), _f(a[1])))
                    else:
                        a2 = iv_if_validated.iv(term.a[1], pc)
                        extra = ""
                        if a2[0] > tr[0] and not validated:
                            extra = ": the operand comes from the AST, and the parser stores %s without range validation (C07-R2), so " \
                                    "i64::MIN reaches this call" % [lab for lab, _, _, cls2 in slot_sites if any(c == "unvalidated" for c, _ in cls2)]
                        rep.bad("C08-R2", key, T.loc(node), "`abs` overflows (panics) for i64::MIN and the operand `%s` is not bounded away from it%s" % (_short(term.a[1]), extra))
                elif cls == "vec-op" and name.endswith("::insert") and len(term.a) == 4 and term.a[2].k == "lit" and term.a[2].a[1] == "0":
                    n_other += 1
                    rep.ok("C08-R2", key, T.loc(node), "insert at index 0 is always in bounds")
                elif cls == "step_by" and len(term.a) == 3 and iv.iv(term.a[2], pc)[0] >= 1:
                    n_other += 1
                    rep.ok("C08-R2", key, T.loc(node), "step_by with a step >= 1 (from the enclosing guard)")
                else:
                    n_other += 1
                    rep.bad("C08-R2", key, T.loc(node), "`%s` panics on a value condition (%s) and no proof rule covers it" % (name, cls), status="unrecognised")
        thir_arith_by_fn[p] = (ta, ma)
        if ta < ma:
            rep.unrecognised("C08-R2", "%s|mir-crosscheck" % p, prog.loc_of(p),
                             "the compiled function contains %d overflow/bounds assertions but only %d arithmetic sites were analysed" % (ma, ta))
    rep.extra["arithmetic_sites"] = n_arith
    rep.extra["index_sites"] = n_index
    rep.extra["mir_asserts"] = mir_asserts
    rep.extra["ast_ints_validated"] = validated


def _le_fact(pc, b, a):
    """Do the enclosing conditions state b <= a ?"""
    for f in facts_of(pc):
        if f[0] != "cmp":
            continue
        op, x, y = f[1], f[2], f[3]
        if (x == b and y == a and op in ("Le", "Lt", "Eq")) or (x == a and y == b and op in ("Ge", "Gt", "Eq")):
            return True
    return False


def _lhs_ty(node):
    return (T.peel(node["l"]).get("ty") or "").lstrip("&").strip()


def _f(x):
    if x == INF:
        return "+inf"
    if x == -INF:
        return "-inf"
    return str(x)


def _pname(prog, fn, i):
    pat = prog.params(fn)[i].get("pat") or {}
    while pat.get("k") in ("Deref", "DerefPattern"):
        pat = pat["sub"]
    return pat.get("name", "arg%d" % i)


def _short(t):
    s = str(t)
    return s if len(s) < 160 else s[:157] + "..."


def _abstract(t, depth=0):
    """Short structural signature of an operand term (for keys): operators, literals and leaf kinds only."""
    if not isinstance(t, Tm) or depth > 6:
        return "_"
    if t.k == "lit":
        return str(t.a[1])
    if t.k == "param":
        return "p%d" % t.a[0]
    if t.k in ("bin",):
        return "%s(%s,%s)" % (t.a[0], _abstract(t.a[1], depth + 1), _abstract(t.a[2], depth + 1))
    if t.k == "un":
        return "%s(%s)" % (t.a[0], _abstract(t.a[1], depth + 1))
    if t.k == "cast":
        return _abstract(t.a[1], depth + 1)
    if t.k == "call":
        m = t.a[0].rsplit("::", 1)[-1]
        if m == "len":
            return "len"
        if m in ("min", "max", "abs", "unwrap_or"):
            return "%s(%s)" % (m, ",".join(_abstract(x, depth + 1) for x in t.a[1:]))
        if m == "index" or "Index" in t.a[0]:
            return "index(%s)" % ",".join(_abstract(x, depth + 1) for x in t.a[2:])
        return m
    if t.k == "phi":
        return "phi"
    if t.k == "proj":
        return "~" + t.a[1].rsplit(".", 1)[0].rsplit("::", 1)[-1]
    if t.k == "adt":
        return t.a[1]
    return t.k


def prove_index(prog, ev, iv, fn, term, pc, ctx):
    """term: call Index::index(A, I) / index(A, I).  Prove I in bounds of A."""
    if term.k == "call":
        A, I = term.a[1], term.a[2]
        is_str = "for str>" in term.a[0] or "alloc::string::String" in term.a[0]
    else:
        A, I = term.a[0], term.a[1]
        is_str = False
    fs = facts_of(pc)
    lenA = lambda x: x.k == "call" and x.a[0].rsplit("::", 1)[-1] == "len" and len(x.a) == 2 and x.a[1] == A

    def uncasted(x):
        while x.k == "cast":
            x = x.a[1]
        return x
    if is_str:
        return prove_str_slice(prog, ev, iv, fn, A, I, fs, ctx)
    # a range index on a Vec/slice is not handled
    if I.k == "adt" and "Range" in I.a[0]:
        return False, "range indexing `%s` is not covered by a proof rule" % I
    # (a) literal index with a length fact
    if I.k == "lit" and I.a[0] == "int":
        c = int(I.a[1])
        for f in fs:
            if f[0] == "cmp":
                op, x, y = f[1], f[2], f[3]
                if lenA(x) and y.k == "lit":
                    n = int(y.a[1])
                    if (op == "Eq" and n > c) or (op == "Gt" and n >= c) or (op == "Ge" and n > c):
                        return True, "len %s %d dominates index %d" % (op, n, c)
            if f[0] == "call" and f[1].endswith("::is_empty") and f[2] and f[2][0] == A and f[3] is False and c == 0:
                return True, "!is_empty() dominates index 0"
        return False, "no dominating fact bounds the length of `%s` above %d" % (_short(A), c)
    # (b0) the index is the payload of an Option computed by a conditional: every `Some(x)` leaf must be in bounds under the
    #      conditions that lead to it (the `None` leaves never reach the indexing)
    Xp = uncasted(I)
    optional = Xp.k == "proj" and Xp.a[1] == "Option::Some.0" and Xp.a[0].k in ("if", "match", "assume")
    if optional or Xp.k in ("if", "assume"):
        leaves = []

        def walk(t, extra):
            while t.k == "cast":
                t = t.a[1]
            if t.k == "if":
                walk(t.a[1], extra + (("if", t.a[0], True),))
                walk(t.a[2], extra + (("if", t.a[0], False),))
            elif t.k == "assume":
                walk(t.a[0], extra + tuple(t.a[1]))
            elif t.k == "match" and optional:
                for p_, g_, b_ in t.a[1]:
                    walk(b_, extra + ((("if", g_, True),) if g_ is not None else ()))
            elif optional and t.k == "adt" and t.a[1] == "Some":
                leaves.append((extra, t.a[2][0][1]))
            elif optional and t.k == "adt" and t.a[1] == "None":
                pass
            elif not optional:
                leaves.append((extra, t))
            else:
                leaves.append((extra, None))
        walk(Xp.a[0] if optional else Xp, ())
        if leaves and all(v is not None for _, v in leaves):
            whys = []
            for extra, v in leaves:
                sub = Tm("call", (term.a[0], A, v)) if term.k == "call" else Tm("index", (A, v))
                ok_, why_ = prove_index(prog, ev, iv, fn, sub, tuple(pc) + extra, ctx)
                if not ok_:
                    return False, "for the leaf `%s`: %s" % (_short(v), why_)
                whys.append(why_)
            return True, "every Some(..) leaf of the computed index: " + "; ".join(sorted(set(whys)))
    # (b) I = X as usize with 0 <= X and X < len(A)
    X = uncasted(I)
    lo_ok = iv.iv(X, pc)[0] >= 0
    hi_ok = False
    for f in fs:
        if f[0] != "cmp":
            continue
        op, x, y = f[1], f[2], f[3]
        if x == X and lenA(uncasted(y)) and op == "Lt":
            hi_ok = True
        if y == X and lenA(uncasted(x)) and op == "Gt":
            hi_ok = True
    if lo_ok and hi_ok:
        return True, "0 <= index < len from the enclosing guards"
    # (d) relational fallback: linear constraints from all enclosing comparisons
    from vflib import relational
    rlo, rhi = relational.prove_in_bounds(iv, pc, X, Tm("call", ("<len>", A)))
    if (lo_ok or rlo) and (hi_ok or rhi):
        return True, "0 <= index < len follows from the enclosing comparisons (linear-inequality proof)"
    # (c) I = len(A) - Y with 1 <= Y <= len(A)
    if X.k == "bin" and X.a[0] == "Sub" and lenA(X.a[1]):
        Y = X.a[2]
        ylo = iv.iv(uncasted(Y), pc)[0] >= 1 and iv.iv(Y, pc)[0] >= 1
        yhi = False
        for f in fs:
            if f[0] != "cmp":
                continue
            op, x, y = f[1], f[2], f[3]
            if x == Y and lenA(y) and op in ("Le", "Lt"):
                yhi = True
            if y == Y and lenA(x) and op in ("Ge", "Gt"):
                yhi = True
        if ylo and yhi:
            return True, "index = len - y with 1 <= y <= len from the enclosing guards"
        return False, "index `len - y`: need 1 <= y (%s) and y <= len (%s)" % (ylo, yhi)
    return False, "need 0 <= index (%s) and index < len (%s) for `%s`" % (lo_ok, hi_ok, _short(I))


def prove_str_slice(prog, ev, iv, fn, S, I, fs, ctx):
    """s[1 .. s.len()-1] is in bounds and on char boundaries when s starts and ends with a one-byte character and has
    at least two characters."""
    if not (I.k == "adt" and I.a[0].endswith("Range") and len(I.a[2]) == 2):
        return False, "string slicing `%s` is not covered by a proof rule" % _short(I)
    fd = dict(I.a[2])
    st, en = fd.get("start"), fd.get("end")
    lenS = lambda x: x.k == "call" and x.a[0].rsplit("::", 1)[-1] == "len" and x.a[1] == S
    if not (st is not None and st.k == "lit" and st.a[1] == "1" and en is not None and en.k == "bin" and en.a[0] == "Sub" and lenS(en.a[1])
            and en.a[2].k == "lit" and en.a[2].a[1] == "1"):
        return False, "string slice `%s` is not of the form s[1..s.len()-1]" % _short(I)
    starts = ends = None
    for f in fs:
        if f[0] == "call" and f[3] is True and f[2] and f[2][0] == S and len(f[2]) == 2 and f[2][1].k == "lit" and len(f[2][1].a[1].encode()) == 1:
            if f[1].endswith("::starts_with"):
                starts = f[2][1].a[1]
            if f[1].endswith("::ends_with"):
                ends = f[2][1].a[1]
    if not (starts and ends):
        return False, "s[1..len-1] needs dominating starts_with/ends_with of a one-byte character"
    # at least two characters: from the grammar, provided s is the text of a `string` span
    g = ctx.grammar
    rule = span_rule_of(prog, ev, fn, S)
    if rule is None:
        return False, "cannot tie the sliced text to a grammar rule's span (needed for `at least two characters`)"
    if g.min_len(rule) < 2:
        return False, "grammar rule `%s` admits sentences shorter than 2 characters" % rule
    fl = g.first_last_literals(rule)
    return True, "starts/ends with %r/%r and every `%s` sentence has >= %d characters (grammar)" % (starts, ends, rule, g.min_len(rule))


def span_rule_of(prog, ev, fn, S):
    """If S is (a trim/validation of) a parameter of fn and every caller passes Pair::as_str() under a match arm for one
    grammar rule, return that rule's name."""
    base = S
    while base.k in ("try", "call") and base.k != "param":
        if base.k == "try":
            base = base.a[0]
        elif len(base.a) >= 2 and (base.a[0] in prog.bodies or "<impl str>::trim" in base.a[0]):
            base = base.a[1]
        else:
            return None
    if base.k != "param":
        return None
    rules = set()
    for caller, node in prog.callers_of(fn):
        top = prog.owner_fn(caller)
        for s in ev.sited(top):
            if s["kind"] == "call" and s["node"] is node:
                arg = s["term"].a[1 + base.a[0]]
                if not (arg.k == "call" and arg.a[0].endswith("Pair::<'i, R>::as_str")):
                    return None
                pair = arg.a[1]
                found = None
                for c in s["pc"]:
                    if c[0] == "arm" and c[1].k == "call" and c[1].a[0].endswith("Pair::<'i, R>::as_rule") and c[1].a[1] == pair and c[2].get("k") == "Variant":
                        found = c[2]["variant"]
                if not found:
                    return None
                rules.add(found)
    return rules.pop() if len(rules) == 1 else None


# ------------------------------------------------------------------------------------------- R3
FINITE_ITER = re.compile(r"^(&mut )?(core::slice::iter::Iter(Mut)?<|alloc::vec::into_iter::IntoIter<|core::array::iter::IntoIter<|core::ops::range::Range(Inclusive)?<|core::option::(IntoIter|Iter)<|core::iter::adapters::(step_by::StepBy|filter_map::FilterMap|flatten::(FlatMap|Flatten)|take_while::TakeWhile|skip_while::SkipWhile|map_while::MapWhile|inspect::Inspect|fuse::Fuse)<|core::iter::sources::once::Once<|core::str::iter::(Chars|CharIndices|Bytes)<|"
                         r"core::iter::adapters::(peekable::Peekable|enumerate::Enumerate|map::Map|filter::Filter|zip::Zip|skip::Skip|take::Take|rev::Rev|chain::Chain|cloned::Cloned|copied::Copied)<|"
                         r"pest::iterators::pairs::Pairs<|pest::iterators::flat_pairs::FlatPairs<|alloc::collections::|std::collections::|serde_json::map::)")
INFINITE = re.compile(r"Repeat|Cycle|RepeatWith|FromFn|Successors|RangeFrom|iter::sources::(repeat|from_fn|successors|once_with)")


def r3(ctx, prog, ev, rep):
    rep.rule("C08-R3", "every loop terminates by form: (A) driven by Iterator::next on a finite source and left on None, or (B) a "
             "counter loop `while x cmp bound` with one unconditional `x += d` per iteration, d and bound loop-invariant, and the "
             "sign of d (from the enclosing guard) pointing toward the exit; every iterator pipeline drained by a consuming sink "
             "(collect, fold, any, all, count, ...) has a finite source in its adaptor-stack type", floor=45)
    reach, tops = reach_tops(prog)
    n = 0
    for p in tops:
        if prog.is_expansion(p):
            continue
        for s in ev.sited(p):
            if s["kind"] not in ("loop", "forloop"):
                continue
            node = s["node"]
            n += 1
            idx = sum(1 for k in rep.instances if k["rule"] == "C08-R3" and k["key"].startswith(p + "|loop"))
            key = "%s|loop#%d" % (p, idx)
            if s["kind"] == "forloop":
                ity = (T.strip(node["scrut"]).get("ty") or "")
                good = FINITE_ITER.search(ity) is not None and not INFINITE.search(ity)
                rep.check(good, "C08-R3", key, T.loc(node), "for over %s" % ity[:80],
                          "`for` over `%s`: not a recognised finite iterator" % ity)
                continue
            ok, why = classify_loop(prog, ev, p, s)
            rep.check(ok, "C08-R3", key, T.loc(node), why, "loop is not in a terminating form: %s" % why)
    rep.extra["loops"] = n
    # iterator pipelines drained by a consuming sink: the adaptor stack's type must bottom out in a finite source
    from vflib import pipeline as PL
    ns = 0
    for p in sorted(reach):
        if prog.is_expansion(p):
            continue
        for x in T.walk(prog.bodies[p]["thir"]["root"]):
            if x.get("k") == "Call" and PL.is_iter_call(x.get("fn") or "") and PL.classify(PL.method_name(x["fn"])) == "sink" \
                    and PL.method_name(x["fn"]) not in ("next", "nth", "peek", "next_back") and x.get("args"):
                ity = (T.strip(x["args"][0]).get("ty") or "?")
                ns += 1
                idx = sum(1 for k in rep.instances if k["rule"] == "C08-R3" and k["key"].startswith(p + "|sink"))
                opaque = re.search(r"(^|[<, (&])(impl |dyn )", ity) is not None or re.fullmatch(r"(&mut )?[A-Z]\w*", ity) is not None
                good = not INFINITE.search(ity) and not opaque and ity != "?"
                rep.check(good, "C08-R3", "%s|sink#%d:%s" % (p, idx, PL.method_name(x["fn"])), T.loc(x),
                          "%s over %s" % (PL.method_name(x["fn"]), re.sub(r"\{closure[^}]*\}", "{closure}", ity)[:90]),
                          "`%s` drains `%s`: %s" % (PL.method_name(x["fn"]), ity[:160], "an unbounded iterator source" if INFINITE.search(ity) else "the source of the iterator is not visible in its type"))
    rep.extra["iterator_sinks"] = ns
    # positive control: infinite loops in the fixture are rejected
    fx = ctx.fixture
    fev = Evaluator(fx)
    bad = 0
    for p in ("crate::c08_loop_forever", "crate::c08_infinite_iter"):
        if p in fx.bodies:
            for s in fev.sited(p):
                if s["kind"] == "loop":
                    ok, why = classify_loop(fx, fev, p, s)
                    bad += 0 if ok else 1
                if s["kind"] == "forloop":
                    ity = (T.strip(s["node"]["scrut"]).get("ty") or "")
                    bad += 0 if (FINITE_ITER.search(ity) and not INFINITE.search(ity)) else 1
    rep.control("C08-R3", bad >= 2, "fixture `loop {}` without progress and `for` over iter::repeat")


def classify_loop(prog, ev, fn, s):
    node = s["node"]
    body = T.strip(node["body"])
    # while cond { .. }  ==> loop { if cond { body } else { break } }  (possibly wrapped in a block)
    inner = body
    while inner.get("k") == "Block" and len(inner["b"]["stmts"]) <= 1:
        if inner["b"]["stmts"]:
            st0 = inner["b"]["stmts"][0]
            inner = T.strip(st0["e"]) if st0["k"] == "Expr" and "tail" not in inner["b"] else inner
            if st0["k"] != "Expr":
                break
            if inner is st0.get("e") or True:
                pass
            break
        inner = T.strip(inner["b"]["tail"])
    cand = inner
    if cand.get("k") == "Match":
        # while let / desugared for: match next(&mut it) { None => break, Some(x) => body }
        sc = T.strip(cand["scrut"])
        return form_a(prog, sc, cand["arms"], node)
    if cand.get("k") != "If":
        return False, "body is not `if cond { .. } else { break }`"
    cond = T.strip(cand["cond"])
    if cond.get("k") == "Let":
        sc = T.strip(cond["e"])
        els = cand.get("else")
        if not els or not any(x.get("k") == "Break" for x in T.walk(els)):
            return False, "`while let` without break on mismatch"
        return form_a(prog, sc, None, node, pat=cond["pat"])
    els = cand.get("else")
    if not els or not any(x.get("k") == "Break" for x in T.walk(els)):
        return False, "no `break` when the condition is false"
    if cond.get("k") != "Binary" or cond["op"] not in ("Lt", "Le", "Gt", "Ge", "Ne"):
        return False, "loop condition `%s` is not a comparison" % T.pp(cond)
    l, r = T.peel(cond["l"]), T.peel(cond["r"])
    then = cand["then"]
    assigned = {}
    for x in T.walk(then):
        if x.get("k") in ("Assign", "AssignOp"):
            tgt = T.peel(x["l"])
            if tgt.get("k") in ("Var", "Upvar"):
                assigned.setdefault(tgt["var"]["id"], []).append(x)
        if x.get("k") == "Borrow" and x.get("mut"):
            tgt = T.peel(x["e"])
            if tgt.get("k") in ("Var", "Upvar"):
                assigned.setdefault(tgt["var"]["id"], []).append(x)
    def var_id(e):
        return e["var"]["id"] if e.get("k") in ("Var", "Upvar") else None
    lid, rid = var_id(l), var_id(r)
    counter = bound = None
    if lid in assigned and rid not in assigned:
        counter, bound, op = l, r, cond["op"]
    elif rid in assigned and lid not in assigned:
        counter, bound = r, l
        op = {"Lt": "Gt", "Le": "Ge", "Gt": "Lt", "Ge": "Le", "Ne": "Ne"}[cond["op"]]
    else:
        return False, "cannot tell counter from bound in `%s` (both or neither assigned in the loop)" % T.pp(cond)
    if bound.get("k") not in ("Var", "Upvar", "Lit"):
        # bound expression must not mention assigned variables
        if any(var_id(T.peel(x)) in assigned for x in T.walk(bound)):
            return False, "bound `%s` changes inside the loop" % T.pp(bound)
    upd = assigned[var_id(counter)]
    if len(upd) != 1 or upd[0].get("k") != "AssignOp" or upd[0]["op"] not in ("AddAssign", "SubAssign"):
        return False, "counter `%s` is not updated by exactly one `+=`/`-=`" % counter["var"]["name"]
    # unconditional: the update is a direct statement of the then-block
    tb = T.strip(then)
    direct = tb.get("k") == "Block" and any(st["k"] == "Expr" and T.strip(st["e"]) is upd[0] for st in tb["b"]["stmts"]) or \
        (tb.get("k") == "Block" and "tail" in tb["b"] and T.strip(tb["b"]["tail"]) is upd[0])
    if not direct:
        return False, "counter update is conditional"
    if any(x.get("k") == "Continue" for x in T.walk(then)):
        return False, "`continue` may skip the counter update"
    d = T.peel(upd[0]["r"])
    if var_id(d) in assigned:
        return False, "step changes inside the loop"
    # sign of d from the enclosing path condition
    dterm = None
    for site in ev.sited(fn):
        if site["node"] is upd[0]:
            dterm = site["term"].a[2]
            pc = site["pc"]
    if dterm is None:
        return False, "update site not evaluated"
    iv = Intervals()
    rng = iv.iv(dterm, pc)
    sign = 1 if rng[0] > 0 else (-1 if rng[1] < 0 else 0)
    if upd[0]["op"] == "SubAssign":
        sign = -sign
    if sign == 0:
        return False, "the sign of the step `%s` is not fixed by the enclosing guard (range [%s, %s]): a zero or wrong-signed step never reaches the exit" % (T.pp(d), _f(rng[0]), _f(rng[1]))
    if op in ("Lt", "Le") and sign > 0:
        return True, "counter increases toward its upper bound"
    if op in ("Gt", "Ge") and sign < 0:
        return True, "counter decreases toward its lower bound"
    return False, "the counter moves away from the exit (`%s` with step sign %+d)" % (T.pp(cond), sign)


def form_a(prog, sc, arms, node, pat=None):
    if not (sc.get("k") == "Call" and (sc.get("fn") or "").endswith("Iterator::next")):
        return False, "loop is not driven by Iterator::next (scrutinee `%s`)" % T.pp(sc)[:80]
    recv = T.peel(sc["args"][0])
    ity = (recv.get("ty") or "")
    if INFINITE.search(ity) or not FINITE_ITER.search(ity):
        return False, "iterator type `%s` is not a recognised finite iterator" % ity
    # the iterator variable must not be reassigned in the loop
    if recv.get("k") in ("Var", "Upvar"):
        vid = recv["var"]["id"]
        for x in T.walk(node["body"]):
            if x.get("k") == "Assign" and T.peel(x["l"]).get("k") in ("Var", "Upvar") and T.peel(x["l"])["var"]["id"] == vid:
                return False, "the iterator is reassigned inside the loop"
    if arms is not None:
        none_breaks = any(a["pat"].get("k") == "Variant" and a["pat"].get("variant") == "None" and any(x.get("k") == "Break" for x in T.walk(a["body"])) for a in arms)
        if not none_breaks:
            return False, "loop is not left when the iterator returns None"
    return True, "driven by next() on %s" % ity[:60]


# ------------------------------------------------------------------------------------------- R4
def r4(ctx, prog, rep):
    rep.rule("C08-R4", "recursion: every call-graph cycle reachable from the exported API needs a depth bound the rule can see "
             "(a counter parameter compared with a constant on the cycle); a cycle without one recurses as deep as the query or "
             "document nests")
    reach, _ = reach_tops(prog)
    sccs = prog.sccs(sorted(reach))
    E = prog.edges()
    ev = Evaluator(prog)
    n = 0
    for comp in sccs:
        if len(comp) == 1 and comp[0] not in [nm for nm, _ in E.get(comp[0], [])]:
            continue
        n += 1
        members = sorted(prog.owner_fn(c) for c in comp)
        cls = classify_cycle(prog, members)
        name = sorted(set(members))[0]
        bounded = has_depth_bound(prog, comp)
        key = "cycle:%s" % cls
        rl = sorted({shared.roles(prog, ev).get(m) for m in members} - {None})
        if rl and not any((cls, m) in CYCLE_ANCHORS for m in members):
            key += ":" + rl[0]           # named by what the function is used for (survives renaming / helper extraction)
        elif len(set(members)) == 1:
            key += ":" + name.rsplit("::", 1)[1]
        elif not any((cls, m) in CYCLE_ANCHORS for m in members):
            key += ":" + name            # a cycle other than the recorded ones of its class
        rep.check(bounded, "C08-R4", key, prog.loc_of(name), "depth-bounded",
                  "recursion cycle of %d function(s) (%s, e.g. `%s`) has no depth bound: nesting depth of the input decides the "
                  "stack depth (deeply nested input overflows the stack)" % (len(set(members)), cls, name))
    rep.extra["recursive_cycles"] = n
    fx = ctx.fixture
    fs = [c for c in fx.sccs() if len(c) > 1 or c[0] in [nm for nm, _ in fx.edges().get(c[0], [])]]
    rep.control("C08-R4", any("c08_recursion" in c[0] for c in fs), "fixture self-recursive function")


# first member (sorted) of the cycles recorded as known findings: a *different* cycle of the same class gets its own key
CYCLE_ANCHORS = {
    ("pest-generated-parser", "<crate::parser::JSPathParser as pest::parser::Parser<crate::parser::Rule>>::parse::rules::visible::atom_expr"),
    ("ast-builders", "crate::parser::child_segment"),
    ("evaluator", "crate::query::atom::<impl crate::query::Query for crate::parser::model::FilterAtom>::process"),
}


def classify_cycle(prog, members):
    ms = set(members)
    if any("rules::visible::" in m or "JSPathParser" in m for m in ms):
        return "pest-generated-parser"
    if any(m.startswith("crate::parser::") and not m.startswith("crate::parser::model::") and not m.startswith("crate::parser::errors") for m in ms):
        return "ast-builders"
    if any((prog.items.get(m, {}).get("impl_trait") or "") == Q or m.startswith("crate::query::") for m in ms):
        return "evaluator"
    traits = {(prog.items.get(m, {}).get("impl_trait") or "").rsplit("::", 1)[-1] for m in ms}
    traits.discard("")
    if traits:
        return "ast-" + "+".join(sorted(traits)).lower()
    return "other:" + sorted(ms)[0]


def has_depth_bound(prog, comp):
    """A cycle is depth-bounded if some member has an integer parameter that is compared against a constant and passed on
    incremented/decremented.  (No cycle of the crate has one today.)"""
    for c in comp:
        it = prog.items.get(c)
        if not it or it["kind"] not in ("Fn", "AssocFn"):
            continue
        ints = [i for i, s in enumerate(it.get("inputs_s", [])) if s in ("usize", "u32", "u64", "i32", "u16", "u8")]
        if not ints:
            continue
        root = prog.bodies[c]["thir"]["root"]
        names = []
        for i in ints:
            pat = prog.params(c)[i].get("pat") or {}
            if pat.get("k") == "Binding":
                names.append(pat["name"])
        for x in T.walk(root):
            if x.get("k") == "Binary" and x["op"] in ("Lt", "Le", "Gt", "Ge", "Eq") and \
                    any(T.peel(y).get("k") == "Var" and T.peel(y)["var"]["name"] in names for y in (x["l"], x["r"])) and \
                    any(T.peel(y).get("k") in ("Lit", "NamedConst") for y in (x["l"], x["r"])):
                return True
    return False


# ------------------------------------------------------------------------------------------- R5
def r5(prog, ev, rep):
    rep.rule("C08-R5", "evaluation cannot fail: under js_path_process the only construction of Err / JsonPathError is its own arm "
             "for a fabricated top-level value", floor=1)
    evalr, _ = prog.evaluator()
    root = prog.find_fn("crate::query::js_path_process")
    n = 0
    # a helper that only js_path_process calls is part of it (the conversion of the final state moved into a method)
    callers = {}
    for q in prog.bodies:
        for callee, _site in prog.edges().get(q, []):
            callers.setdefault(prog.owner_fn(callee), set()).add(prog.owner_fn(q))

    def owned_by_root(f, d=0):
        if f == root:
            return True
        cs = {c for c in callers.get(f, ()) if c != f}
        return d < 3 and bool(cs) and all(owned_by_root(c, d + 1) for c in cs)
    for p in sorted(evalr):
        if prog.is_expansion(prog.owner_fn(p)):
            continue
        for x in T.walk(prog.bodies[p]["thir"]["root"]):
            is_err = (x.get("k") == "Adt" and x.get("adt") == "core::result::Result" and x.get("variant") == "Err") or \
                (x.get("k") == "Adt" and x.get("adt") == "crate::parser::errors::JsonPathError")
            if is_err:
                n += 1
                rep.check(owned_by_root(prog.owner_fn(p)), "C08-R5", "%s|Err" % (root if owned_by_root(prog.owner_fn(p)) else prog.owner_fn(p)), T.loc(x), "the top-level Data::Value arm",
                          "an error is constructed during evaluation in `%s`: evaluating a parsed query could fail" % p)
    if n == 0:
        rep.ok("C08-R5", "no-err", "-", "no Err construction in the evaluator")
    # ... and in js_path_process only the fabricated-value shape may select an Err arm
    t = ev.summary(root)
    if t.k != "match":
        rep.unrecognised("C08-R5", "js_path_process/shape", prog.loc_of(root), "result is not a match over the final state")
    else:
        for vn, nf in tables.variants_of(prog, "crate::query::state::Data"):
            if vn == "Value":
                continue
            for i, how in tables.select(t.a[1], ("v", vn, [tables.ANY] * nf)):
                b = t.a[1][i][2]
                errs = [x for x in subterms(b) if x.k == "adt" and x.a[0] == "core::result::Result" and x.a[1] == "Err"]
                rep.check(not errs and not any(x.k == "try" for x in subterms(b)), "C08-R5", "js_path_process/Data::%s" % vn, prog.loc_of(root),
                          "Ok", "a final state of kind %s can be turned into Err: evaluating a parsed query can fail" % vn)
