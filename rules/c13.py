"""C13 -- equivalent spellings of a query give the same result (structural clauses)."""
import os
import re
from vflib import grammarmodel as GM, facts, tables, thir as T
from vflib.terms import Evaluator, Tm, subterms
from rules import grammar_common as G

META = {
    "level": "other",
    "explanation": (
        "R1 optional blank space is accepted exactly at RFC 9535's `S` positions: the blank-related subset of the grammar "
        "comparison's divergences (both directions) must be empty. R2 blank space that the grammar accepts never reaches the "
        "AST: for every span whose text becomes AST content either the automaton of that rule shows its sentences can neither "
        "begin nor end with blank, or the text is trimmed by a set that contains the four blanks; and no trim removes "
        "characters that sentences of the rule may legitimately begin or end with. R3 structural convergence: `.*` / `[*]` "
        "and the three descendant spellings build the same Segment; a one-selector bracket is unwrapped; quoted and "
        "shorthand names converge in Queryable::get by two sibling branches of identical shape; `?e` and `?(e)` (negation "
        "flag false) are the identity; integer and float spellings are told apart only by `.`/`e`/`E` and compared through "
        "the same numeric view. Not decided: equality of results over all documents for all spellings (value-level)."),
    "trusted_base": ["pest_meta 2.9.1", "A7 model of pest_generator 2.9.1", "spec/rfc9535.abnf", "pestfacts automata engine", "vf driver + rules"],
    "assumptions": [],
    "not_decided": ["equality of results for all spellings on all documents"],
}
META["explanation"] += ' R4 number spellings: every operand shape reaches the one value-equality helper whose numeric branch compares by value (shared with C04-R3/R4). R5 the descendant arm is the generic expansion (shared with C01-R2).'

M = "crate::parser::model::"
QT = "crate::query::queryable::Queryable"
VAL = "serde_json::value::Value"
BLANKS = {0x20, 0x09, 0x0A, 0x0D}


def run(ctx, rep):
    res = G.load(ctx)
    where = os.path.relpath(ctx.grammar.path, facts.REPO)
    r1(ctx, rep, res, where)
    r2(ctx, rep, res, where)
    r3(ctx, rep)
    # every RFC spelling of a number literal is accepted and nothing else is: divergences whose rule path lies in number / int /
    # frac / exp (a float spelling such as 1e02 that is rejected makes equivalent spellings behave differently)
    rep.rule("C13-R6", "number spellings: no divergence between the grammar (with post-checks) and the ABNF inside number literals")
    ndiv = 0
    for k, d in sorted(GM.divergences(res).items()):
        if re.search(r"(^|[/:+])(number|int|frac|exp)(/|\+|$)", k[1]) or "literal/number" in k[1]:
            ndiv += 1
            rep.bad("C13-R6", "div|%s|%s|%s" % k, where, "a number spelling is %s: `%s` (rule %s)" % (
                "accepted although RFC 9535 has no such spelling" if k[0] == "impl-only" else "rejected although RFC 9535 allows it", d["witness"], k[1]))
    rep.ok("C13-R6", "number-divergences", where, "%d divergence class(es) inside number literals" % ndiv)
    # spellings of one number (2 / 2.0 / 2e0) and of one name ('a' / "a" / .a) must meet the same evaluator paths
    from vflib.report import Shared
    from vflib.terms import Evaluator
    from rules import c01, c04
    prog = ctx.prog
    ev = Evaluator(prog)
    c04.shared_numeric_eq(prog, ev, rep, "C13-R4")
    rep.rule("C13-R4", "number spellings: whichever operand shapes a comparison meets (literal, function result, node), equality goes "
             "through the one value-equality helper whose numeric branch compares by value, so `2`, `2.0` and `2e0` behave alike")
    c01.r2(prog, ev, Shared(rep, {"C01-R2": "C13-R5"}, lender="C01", only_keys=["Segment::Descendant"]))
    # `?expr` / `?(expr)` / redundant parentheses: a parenthesised alternative must not take a prefix of an unparenthesised
    # sentence (PEG commits to it), nor shadow another alternative as a whole
    from rules import c06
    # a range check that applies to the integer spelling of a number only (or to the float spellings only) separates
    # spellings of one number
    c06.r6(ctx, Shared(rep, {"C06-R6": "C13-R8"}, lender="C06"))
    c06.r2(ctx, Shared(rep, {"C06-R2": "C13-R7"}, lender="C06",
                       only_keys=["choice|filter_selector|", "choice|paren_expr|", "choice|atom_expr|", "choice|logical_expr",
                                  "dead|filter_selector|", "dead|paren_expr|", "dead|atom_expr|", "dead|logical_expr", "dead-alternatives"]), res)


def r1(ctx, rep, res, where):
    rep.rule("C13-R1", "blank space exactly where RFC 9535 allows it: no blank-related divergence between the grammar "
             "(with post-checks) and the ABNF in either direction", floor=4)
    G.check_side_conditions(rep, "C13-R1", res, where)
    G.model_limits(rep, "C13-R1", res, where, "both")
    divs = GM.divergences(res)
    for cmp_ in [c for c in res["engine"]["compare"] if not c["id"].startswith("np:")]:
        rep.ok("C13-R1", "compared:%s" % cmp_["id"], where, "%d product states" % cmp_["product_states"])
    for k, d in sorted(divs.items()):
        if not d["blank_related"]:
            continue
        if k[0] == "impl-only":
            rep.bad("C13-R1", "div|%s|%s|%s" % k, where, "blank space is accepted where RFC 9535 has no `S`: `%s`%s" % (d["witness"], (": " + G.hint(k)) if G.hint(k) else ""))
        else:
            rep.bad("C13-R1", "div|%s|%s|%s" % k, where, "blank space allowed by RFC 9535 is rejected: `%s`" % d["witness"])


TRIM_SETS = {"unicode": "unicode", "ascii": "ascii"}
UNICODE_WS_LABELS = {"blank", "unicode-space", "control"}     # classes that str::trim may remove


def r2(ctx, rep, res, where):
    rep.rule("C13-R2", "no blank space in AST text and no over-trimming: per AST slot fed from a grammar span", floor=9)
    fx = {f["id"]: f for f in res["engine"]["facts"]}
    for slot, info in sorted(res["slots"].items()):
        ctxs = GM.SLOT_CONTEXTS.get(slot)
        if not ctxs:
            continue
        trims = [s for s in info["steps"] if s.startswith("trim:")]
        parses = [s for s in info["steps"] if s.startswith("parse:")]
        for c in ctxs:
            rule = c[-1]
            f = fx.get(rule)
            key = "%s<-%s" % (slot, "/".join(c))
            if f is None:
                rep.unrecognised("C13-R2", key, where, "no automaton facts for rule `%s`" % rule)
                continue
            can_blank = any(x.startswith("blank") for x in f["first"]) or any(x.startswith("blank") for x in f["last"])
            trimmed_both = any(t.startswith("trim:both") for t in trims)
            if can_blank and not trimmed_both:
                rep.bad("C13-R2", key, where, "span of `%s` may begin or end with blank space and reaches %s untrimmed: two spellings of one "
                        "query build different ASTs" % (rule, slot))
                continue
            # over-trimming: a Unicode trim removes White_Space scalars that are legitimate first/last characters of the rule
            removable = set()
            for t in trims:
                if t.endswith(":unicode"):
                    removable |= {"unicode-space", "control"}
                elif t.endswith(":ascii"):
                    removable |= {"control"}
            content_edges = {x.split(":")[0] for x in f["first"] + f["last"]}
            clash = sorted(removable & content_edges)
            if clash and not parses:
                rep.bad("C13-R2", key, where,
                        "the text of `%s` is trimmed with %s, but its sentences may legitimately begin or end with %s characters "
                        "(e.g. U+00A0 in a member name): `@.a\\u{A0}` is read as member `a`" % (rule, [t.split(":", 1)[1] for t in trims], clash))
            else:
                rep.ok("C13-R2", key, where, "blank-free (%s)" % ("trimmed" if trims else "grammar"))


def r3(ctx, rep):
    rep.rule("C13-R3", "structural convergence of equivalent spellings (wildcard / descendant forms, bracket unwrapping, quote styles, "
             "optional parentheses, number spellings)", floor=9)
    prog = ctx.prog
    ev = Evaluator(prog)
    cs = prog.find_fn("crate::parser::child_segment")
    t = ev.summary(cs)
    where = prog.loc_of(cs)
    if t.k != "match":
        rep.unrecognised("C13-R3", "child_segment", where, "not a match on the rule"); return
    arms = t.a[1]

    def arm(rule):
        sel = tables.select(arms, ("v", rule, []))
        return arms[sel[0][0]][2] if len(sel) == 1 else None
    wild = Tm("adt", (M + "Segment", "Selector", (("0", Tm("adt", (M + "Selector", "Wildcard", ()))),)))
    b = arm("wildcard_selector")
    ok = b is not None and b.k == "adt" and b.a[1] == "Ok" and b.a[2][0][1] == wild
    rep.check(ok, "C13-R3", "dot-wildcard", where, "`.*` -> Segment::Selector(Wildcard)", "`.*` builds `%s`" % b)
    # `[*]`: bracketed selection with one selector is unwrapped to Segment::Selector(selector)
    b = arm("bracketed_selection")
    ok = False
    if b is not None and b.k == "if":
        c = b.a[0]
        single = c.k == "bin" and c.a[0] == "Eq" and c.a[2].k == "lit" and c.a[2].a[1] == "1" and c.a[1].k == "call" and c.a[1].a[0].endswith("::len")
        th = b.a[1]
        unwrapped = th.k == "adt" and th.a[1] == "Ok" and th.a[2][0][1].k == "adt" and th.a[2][0][1].a[1] == "Selector"
        el = b.a[2]
        multi = el.k == "adt" and el.a[1] == "Ok" and el.a[2][0][1].k == "adt" and el.a[2][0][1].a[1] == "Selectors"
        ok = single and unwrapped and multi
    rep.check(ok, "C13-R3", "bracket-unwrap", where, "one selector -> Segment::Selector, several -> Segment::Selectors",
              "a bracketed selection with one selector is not unwrapped to the same AST as the shorthand: `%s`" % b)
    sp = prog.find_fn("crate::parser::selector")
    st = ev.summary(sp)
    ok = False
    if st.k == "match":
        sel = tables.select(st.a[1], ("v", "wildcard_selector", []))
        if len(sel) == 1:
            bb = st.a[1][sel[0][0]][2]
            ok = bb.k == "adt" and bb.a[1] == "Ok" and bb.a[2][0][1] == Tm("adt", (M + "Selector", "Wildcard", ()))
    rep.check(ok, "C13-R3", "bracket-wildcard", prog.loc_of(sp), "`[*]` -> Selector::Wildcard", "`[*]` does not build Selector::Wildcard")
    # descendant: all three spellings go through child_segment on the inner pair
    sg = prog.find_fn("crate::parser::segment")
    gt = ev.summary(sg)
    ok = False
    if gt.k == "match":
        sel = tables.select(gt.a[1], ("v", "descendant_segment", []))
        if len(sel) == 1:
            bb = gt.a[1][sel[0][0]][2]
            cons = [x for x in subterms(bb) if x.k == "adt" and x.a[0] == M + "Segment" and x.a[1] == "Descendant"]
            ok = len(cons) == 1 and cons[0].a[2][0][1].k == "try" and cons[0].a[2][0][1].a[0].k == "call" and cons[0].a[2][0][1].a[0].a[0] == cs
    rep.check(ok, "C13-R3", "descendant-forms", prog.loc_of(sg), "`..x` -> Descendant(child_segment(x)) for every spelling of x",
              "descendant segments are not built by the same builder as child segments")
    # shorthand and quoted names both become Selector::Name; quotes converge in <Value as Queryable>::get
    b = arm("member_name_shorthand")
    ok = b is not None and any(x.k == "call" and x.a[0] == M + "Segment::name" for x in subterms(b))
    rep.check(ok, "C13-R3", "shorthand-name", where, "`.name` -> Segment::name(text)", "`.name` builds `%s`" % b)
    gp = prog.impl_method(QT, VAL, "get")
    gt = ev.summary(gp)

    def factor(t):
        """if(c, f(s, x), REST) with every leaf a call f(s, _)  ->  f(s, if(c, x, rest'))   (early returns written out)"""
        if t.k == "if":
            a_, b_ = factor(t.a[1]), factor(t.a[2])
            if a_.k == "call" and b_.k == "call" and a_.a[0] == b_.a[0] and len(a_.a) == 3 and len(b_.a) == 3 and a_.a[1] == b_.a[1]:
                return Tm("call", (a_.a[0], a_.a[1], Tm("if", (t.a[0], a_.a[2], b_.a[2]))), t.n)
        return t
    gt = factor(gt)
    key = Tm("param", (1, "key"))
    branches = {}
    unreadable = False
    cur = gt.a[2] if gt.k == "call" and gt.a[0] == VAL + "::get" and len(gt.a) == 3 else None
    okshape = cur is not None
    while cur is not None and cur.k == "if":
        c, th = cur.a[0], cur.a[1]
        q = None
        if c.k == "logic" and c.a[0] == "And":
            lits = [y.a[2].a[1] for y in (c.a[1], c.a[2]) if y.k == "call" and y.a[1] == key and y.a[2].k == "lit"]
            names = sorted(y.a[0].rsplit("::", 1)[1] for y in (c.a[1], c.a[2]) if y.k == "call")
            if len(set(lits)) == 1 and names == ["ends_with", "starts_with"]:
                q = lits[0]
        stripped = None
        if th.k == "call" and th.a[0].endswith("<impl str>::trim_matches") and th.a[1] == key:
            f = th.a[2]
            if f.k == "closure":
                body = ev.apply(f, [Tm("param", (33, "c"))])
                if body.k == "bin" and body.a[0] == "Eq" and body.a[2].k == "lit":
                    stripped = body.a[2].a[1]
            elif f.k == "lit":
                stripped = f.a[1]
        if q is None and stripped is None:
            unreadable = True
        if q is None or stripped != q:
            okshape = False
        else:
            branches[q] = True
        cur = cur.a[2]
    if cur is None or (cur != key and not branches):
        unreadable = True
    okshape = okshape and cur == key and set(branches) == {"'", '"'}
    if not okshape and unreadable:
        rep.unrecognised("C13-R3", "quote-styles", prog.loc_of(gp), "how <Value as Queryable>::get strips the quotes of a bracketed name could not be read "
                         "(expected sibling branches for ' and \" then the bare key): `%s`" % str(gt)[:300])
    else:
        rep.check(okshape, "C13-R3", "quote-styles", prog.loc_of(gp), "sibling branches for ' and \" then the bare key",
                  "<Value as Queryable>::get does not treat single- and double-quoted names by two branches of identical shape: `%s`" % gt)
    # ?e vs ?(e): FilterAtom::Filter with not = false is the identity (C05-R3 row)
    ap = prog.impl_method("crate::query::Query", M + "FilterAtom", "process")
    at = ev.summary(ap)
    ok = False
    if at.k == "match":
        sel = tables.select(at.a[1], ("v", "Filter", [tables.ANY, tables.ANY]))
        if len(sel) == 1:
            bb = at.a[1][sel[0][0]][2]
            fproc = prog.impl_method("crate::query::Query", M + "Filter", "process")
            X = Tm("call", (fproc, Tm("proj", (at.a[0], "FilterAtom::Filter.expr")), Tm("param", (1, "state"))))
            if bb.k == "if" and bb.a[0].k == "un" and bb.a[0].a[0] == "Not":
                bb = Tm("if", (bb.a[0].a[1], bb.a[2], bb.a[1]), bb.n)         # if(!c ? a : b) is if(c ? b : a)
            ok = bb.k == "if" and bb.a[0] == Tm("proj", (at.a[0], "FilterAtom::Filter.not")) and bb.a[2] == X
    rep.check(ok, "C13-R3", "optional-parentheses", prog.loc_of(ap), "(e) with not=false evaluates exactly e", "a parenthesised expression is not evaluated as the expression itself")
    fc = prog.inherent_method(M + "FilterAtom", "filter")
    ct = ev.summary(fc)
    okc = ct.k == "adt" and ct.a[1] == "Filter" and dict(ct.a[2]).get("not") == Tm("param", (1, "not")) \
        and dict(ct.a[2]).get("expr") is not None and dict(ct.a[2])["expr"].k == "param" and dict(ct.a[2])["expr"].a[0] == 0
    rep.check(okc, "C13-R3", "parentheses-constructor", prog.loc_of(fc), "FilterAtom::Filter{expr, not} for every nesting",
              "a parenthesised group is not always built as Filter{expr, not} (`%s`): redundant parentheses change the negation flag" % str(ct)[:200])
    # numbers: Int vs Float decided by . e E only
    pn = "crate::parser::literal::parse_number"
    if pn not in prog.bodies:
        # found by what it does: the one function of the AST builder (text: &str) that builds both number literals
        region, _ = prog.parser_region()
        cands = []
        for q in sorted(region):
            if "::{closure#" in q or q not in prog.bodies or prog.is_expansion(q) or q.startswith(M):
                continue
            ins = prog.items.get(q, {}).get("inputs_s") or []
            if len(ins) == 1 and "str" in ins[0]:
                sm = ev.summary(q)
                kinds = {x.a[1] for x in subterms(sm) if x.k == "adt" and x.a[0] == M + "Literal"}
                if {"Int", "Float"} <= kinds:
                    cands.append(q)
        if len(cands) == 1:
            pn = cands[0]
    if pn in prog.bodies:
        nt = ev.summary(pn)
        ok = False
        if nt.k == "if":
            lits = []
            for y in subterms(nt.a[0]):
                if y.k == "call" and y.a[0].endswith("<impl str>::contains") and len(y.a) == 3:
                    if y.a[2].k == "lit":
                        lits.append(y.a[2].a[1])
                    elif y.a[2].k == "array" and all(z.k == "lit" for z in y.a[2].a):
                        lits.extend(z.a[1] for z in y.a[2].a)      # contains(['.', 'e', 'E']): any of the characters
            lits = sorted(lits)
            fl = any(x.k == "adt" and x.a[1] == "Float" for x in subterms(nt.a[1]))
            it = any(x.k == "adt" and x.a[1] == "Int" for x in subterms(nt.a[2]))
            ok = lits == [".", "E", "e"] and fl and it
        rep.check(ok, "C13-R3", "number-spellings", prog.loc_of(pn), "Float iff the text contains . e or E, else Int",
                  "integer / float classification of number literals is `%s`" % str(nt.a[0] if nt.k == "if" else nt)[:200])
    else:
        rep.unrecognised("C13-R3", "number-spellings", "src/parser.rs", "parse_number not found")
