"""C03 -- each reported path is the Normalized Path of the reported node."""
import re
from vflib import thir as T, tables
from vflib.terms import Evaluator, Tm, subterms
from rules import shared

META = {
    "level": "other",
    "explanation": (
        "Def-use coherence at every path-extension site plus formatter shape. R1 at each Pointer::idx(elem, path, i) site "
        "the index written is the index the element was fetched with (one enumerate item of the container's own iterator, "
        "or the same index term used for A[i]/A.get(i), or one (elem, index) tuple all of whose constructions pair an "
        "element with its own index) and the path extended is the parent's. R2 same for Pointer::key with one "
        "as_object() item. R3 the name-selector step must be the member name the node was found under. R4 the two step "
        "formatters produce `path[index]` and `path['escaped-name']` without branching on the name's content. R5 the root "
        "path is the constant `$`. Not decided: the round trip `re-query of a reported path returns that node`."),
    "trusted_base": ["rustc nightly THIR", "vf driver + rules"],
    "assumptions": ["Iterator::enumerate numbers items from 0 in iteration order; Vec indexing semantics"],
    "not_decided": ["round trip of a reported path through parser and evaluator"],
}
META["explanation"] += " R6 the name looked up and the name written into the path are the same text (no two-pass rewriting of the key; shared with C01-R6). R7 every Normalized Path is accepted by the library's own parser (shared with C09-R6)."

PTR = "crate::query::state::Pointer::<'a, T>::"
QT = "crate::query::queryable::Queryable"


def run(ctx, rep):
    prog = ctx.prog
    ev = Evaluator(prog)
    sites = collect_sites(prog, ev)
    r1(prog, ev, rep, sites)
    r2_r3(prog, ev, rep, sites)
    r4(prog, ev, rep)
    r5(prog, ev, rep)
    shared_rules(ctx, prog, ev, rep)
    # a Normalized Path of a deeply nested node is a long query: it must not run into a budget of the parser
    from vflib.report import Shared
    from rules import c06
    c06.r4(ctx, Shared(rep, {"C06-R4": "C03-R9"}, lender="C06"))


def collect_sites(prog, ev):
    """Traced Pointer::{idx,key} calls of every top-level evaluator function (closures resolved)."""
    evalr, _ = prog.evaluator()
    tops = sorted(p for p in evalr if "::{closure#" not in p and not prog.is_expansion(p))
    sites = []
    for p in tops:
        if (prog.items.get(p, {}).get("impl_self") or "").startswith("crate::query::state::Pointer<"):
            continue
        t, trace, conds = ev.traced(p)
        for c in trace:
            if c.k == "call" and c.a[0] in (PTR + "idx", PTR + "key"):
                sites.append((p, c))
    return sites


def container_of(t, accessor):
    """If t is `<accessor>(P.inner)~Some.0` return P else None."""
    if t.k == "proj" and t.a[1] == "Option::Some.0" and t.a[0].k == "call" and t.a[0].a[0] == QT + "::" + accessor:
        x = t.a[0].a[1]
        if x.k == "field" and x.a[1] == "inner":
            return x.a[0]
    return None


def parent_of_path(t):
    if t.k == "field" and t.a[1] == "path":
        return t.a[0]
    return None


def elem_index_pair(e, i):
    """Does (e, i) pair an element of an array with its own index?  -> (parent pointer term, idiom) or (None, why)"""
    # (i) enumerate item
    if e.k == "call" and e.a[0] == "<item>" and i.k == "call" and i.a[0] == "<index>":
        if e.a[1] != i.a[1]:
            return None, "index comes from enumerating `%s` but the element from `%s`" % (i.a[1], e.a[1])
        P = container_of(e.a[1], "as_array")
        if P is None:
            return None, "enumerated source `%s` is not as_array() of the current node (a filter/skip before enumerate shifts indices)" % e.a[1]
        return P, "enumerate"
    # (ii) A[i] / A.get(i)
    arr = idx = None
    if e.k == "call" and e.a[0].endswith("Index<I>>::index") and len(e.a) == 3:
        arr, idx = e.a[1], e.a[2]
    elif e.k == "index":
        arr, idx = e.a[0], e.a[1]
    elif e.k == "proj" and e.a[1] == "Option::Some.0" and e.a[0].k == "call" and e.a[0].a[0] == "core::slice::<impl [T]>::get":
        arr, idx = e.a[0].a[1], e.a[0].a[2]
    if arr is not None:
        if idx != i:
            return None, "element fetched with index `%s` but the path records `%s`" % (idx, i)
        P = container_of(arr, "as_array")
        if P is None:
            return None, "indexed container `%s` is not as_array() of the current node" % arr
        return P, "index"
    return None, "element `%s` / index `%s` is not a recognised (element, own index) pairing" % (e, i)


def r1(prog, ev, rep, sites):
    rep.rule("C03-R1", "index coherence at every Pointer::idx(elem, path, i): i is the index elem was fetched with and path is "
             "the parent's path (idioms: one enumerate item of the container's iterator; the same index term for A[i] / "
             "A.get(i); an (elem, i) tuple every construction of which pairs an element with its own index)", floor=4)
    n = 0
    for p, c in sites:
        if c.a[0] != PTR + "idx":
            continue
        n += 1
        e, path, i = c.a[1], c.a[2], c.a[3]
        key = "%s|idx#%d" % (p, sum(1 for q, d in sites[:sites.index((p, c))] if q == p and d.a[0] == c.a[0]))
        where = c.loc()
        P2 = parent_of_path(path)
        # (iii) tuple idiom: e = X.0, i = X.1 with X a join of tuples
        P = None
        why = None
        if e.k == "field" and i.k == "field" and e.a[0] == i.a[0] and (e.a[1], i.a[1]) == ("0", "1"):
            X = e.a[0]
            tuples = list(X.a) if X.k == "phi" else [X]
            Ps = []
            for tp in tuples:
                if tp.k != "tuple" or len(tp.a) != 2:
                    why = "`%s` is not an (element, index) tuple" % tp; break
                Pq, idiom = elem_index_pair(tp.a[0], tp.a[1])
                if Pq is None:
                    why = idiom; break
                Ps.append(Pq)
            if why is None and Ps and all(x == Ps[0] for x in Ps):
                P = Ps[0]
            elif why is None:
                why = "tuples come from different containers"
        elif e.k == "field" and i.k == "field" and e.a[0] == i.a[0] and (e.a[1], i.a[1]) == ("1", "0"):
            why = "the (element, index) tuple's components are passed in swapped order"
        elif e.k == "field" and i.k == "field" and e.a[0] == i.a[0] and e.a[1] != i.a[1] and not e.a[1].isdigit():
            # a small record instead of a tuple: the two named fields of every construction must pair an element with its index
            X = e.a[0]
            recs = list(X.a) if X.k == "phi" else [X]
            Ps = []
            for r_ in recs:
                fd = dict(r_.a[2]) if r_.k == "adt" else {}
                if e.a[1] not in fd or i.a[1] not in fd:
                    why = "`%s` is not a record with fields %s / %s" % (str(r_)[:80], e.a[1], i.a[1]); break
                Pq, idiom = elem_index_pair(fd[e.a[1]], fd[i.a[1]])
                if Pq is None:
                    why = idiom; break
                Ps.append(Pq)
            if why is None and Ps and all(x == Ps[0] for x in Ps):
                P = Ps[0]
            elif why is None:
                why = "records come from different containers"
        else:
            P, why = elem_index_pair(e, i)
            if P is not None:
                why = None
        if P is None:
            rep.bad("C03-R1", key, where, "reported index does not name the reported element: %s" % why)
            continue
        if P2 is None or P2 != P:
            rep.bad("C03-R1", key, where, "path extended is `%s`, but the element was taken from `%s`" % (path, P))
            continue
        rep.ok("C03-R1", key, where, "element and index paired, parent path extended")
    rep.extra["idx_sites"] = n


def r2_r3(prog, ev, rep, sites):
    rep.rule("C03-R2", "key coherence at every Pointer::key(v, path, k) fed from as_object(): (k, v) are the two components of "
             "one as_object() item of the current node and path is the parent's path", floor=3)
    rep.rule("C03-R3", "name-selector step: the key written into the path is the member name the node was found under "
             "(the text passed to Queryable::get), not the raw selector text", floor=1)
    for p, c in sites:
        if c.a[0] != PTR + "key":
            continue
        v, path, k = c.a[1], c.a[2], c.a[3]
        where = c.loc()
        P2 = parent_of_path(path)
        if v.k == "field" and k.k == "field" and v.a[0] == k.a[0] and v.a[0].k == "call" and v.a[0].a[0] == "<item>":
            key = "%s|key" % p
            src = v.a[0].a[1]
            P = container_of(src, "as_object")
            if (v.a[1], k.a[1]) != ("1", "0"):
                rep.bad("C03-R2", key, where, "member (key, value) components are used as (%s, %s), expected (.0 = key, .1 = value)" % (k.a[1], v.a[1]))
            elif P is None:
                rep.bad("C03-R2", key, where, "members iterated are `%s`, not as_object() of the current node" % src)
            elif P2 != P:
                rep.bad("C03-R2", key, where, "path extended is `%s`, but the member was taken from `%s`" % (path, P))
            else:
                rep.ok("C03-R2", key, where, "member key and value from one as_object() item")
            continue
        # name selector: v = get(P.inner, K)~Some.0
        key = "%s|name-step" % shared.rk(prog, ev, p)
        if v.k == "proj" and v.a[0].k == "call" and v.a[0].a[0] == QT + "::get":
            g = v.a[0]
            looked_up = g.a[2]
            node = g.a[1]
            P = node.a[0] if node.k == "field" and node.a[1] == "inner" else None
            if P is None or P2 != P:
                rep.bad("C03-R3", key, where, "path extended is `%s`, but the member was looked up in `%s`" % (path, node))
            elif k != looked_up:
                rep.bad("C03-R3", key, where,
                        "the node is looked up under `%s` but the path records `%s`: the reported step is the raw selector "
                        "text (quotes/escapes included), not the member's name" % (looked_up, k))
            else:
                rep.ok("C03-R3", key, where, "step = looked-up name")
        else:
            rep.unrecognised("C03-R2", "%s|key?" % p, where, "Pointer::key fed by `%s`" % v)


def name_step_is_verbatim(prog, ev):
    """Does Pointer::key write the member name into the path exactly as it got it?  True / False / None (unrecognised)"""
    try:
        kp = prog.inherent_method("crate::query::state::Pointer", "key")
    except Exception:
        return None
    t = ev.summary(kp)
    f = dict(t.a[2]) if t.k == "adt" else {}
    pt = f.get("path")
    if pt is None:
        # early returns / joins: look at every Pointer construction in the summary
        pts = [dict(x.a[2]).get("path") for x in subterms(t) if x.k == "adt" and x.a[1] == "Pointer"]
        pts = [p for p in pts if p is not None]
        if not pts:
            return None
    else:
        pts = [pt]
    keyp = Tm("param", (2, "key"))
    verdicts = []
    for pt in pts:
        for fm in [x for x in subterms(pt) if x.k == "call" and x.a[0] == "<format>"]:
            pieces = fm.a[1].a[1]
            if pieces == (("arg", 0, False), ("lit", "['"), ("arg", 1, False), ("lit", "']")):
                a = _fmtarg(fm.a[3])
                verdicts.append(a == keyp)
    if not verdicts:
        return None
    return all(verdicts)


def shared_rules(ctx, prog, ev, rep):
    from vflib.report import Shared
    from rules import c01, c09
    # the name a selector looks up and the name written into the path must be the same text: a two-pass rewrite of the key
    # makes them differ (the lookup finds member `/`, the path names member `\/`)
    c01.r6(ctx, prog, ev, Shared(rep, {"C01-R6": "C03-R6"}, lender="C01"))
    # a reported path can be queried again: every Normalized Path is accepted by the library's own parser
    c09.r6(ctx, Shared(rep, {"C09-R6": "C03-R7"}, lender="C09"))
    # a reported name step is looked up again through <Value as Queryable>::get: one quote layer per style, also for ''
    from rules import c13
    c13.r3(ctx, Shared(rep, {"C13-R3": "C03-R8"}, lender="C13", only_keys=["quote-styles"]))


def r4(prog, ev, rep):
    rep.rule("C03-R4", "formatter shape: Pointer::idx builds parent + `[` + usize + `]`; Pointer::key builds parent + `['` + "
             "esc(name) + `']` where the name passes through an escaping function and the shape does not depend on the "
             "name's content", floor=2)
    ip = prog.inherent_method("crate::query::state::Pointer", "idx")
    t = ev.summary(ip)
    where = prog.loc_of(ip)
    it = prog.items[ip]
    f = dict(t.a[2]) if t.k == "adt" else {}
    pt = f.get("path")
    good = False
    if pt is not None and pt.k == "call" and pt.a[0] == "<format>":
        pieces = pt.a[1].a[1]
        good = pieces == (("arg", 0, False), ("lit", "["), ("arg", 1, False), ("lit", "]")) \
            and _fmtarg(pt.a[2]) == Tm("param", (1, "path")) and _fmtarg(pt.a[3]) is not None and _fmtarg(pt.a[3]).k == "param" and _fmtarg(pt.a[3]).a[0] == 2
        good = good and "usize" in it["inputs_s"][2]
    inner_ok = f.get("inner") is not None and f["inner"].k == "param" and f["inner"].a[0] == 0
    rep.check(good and inner_ok, "C03-R4", "Pointer::idx", where, "format!(\"{}[{}]\", path, index: usize)", "Pointer::idx builds `%s`" % t)
    kp = prog.inherent_method("crate::query::state::Pointer", "key")
    t = ev.summary(kp)
    where = prog.loc_of(kp)
    f = dict(t.a[2]) if t.k == "adt" else {}
    pt = f.get("path")
    if pt is None:
        rep.unrecognised("C03-R4", "Pointer::key", where, "no path field: %s" % t); return
    keyp = Tm("param", (2, "key"))
    # content branch?
    conds = [x for x in subterms(pt) if x.k in ("if", "match")]
    seen_sig = set()
    for c in conds:
        if not any(x == keyp for x in subterms(c.a[0])):
            continue
        # which tests on the name's text decide the shape: the finding is keyed by them, so another content test is another finding
        tests = set()
        for x in subterms(c.a[0]):
            if x.k == "call" and any(y == keyp for a in x.a[1:] if isinstance(a, Tm) for y in subterms(a)):
                lits = [a.a[1] for a in x.a[1:] if isinstance(a, Tm) and a.k == "lit"]
                tests.add("%s(%s)" % (x.a[0].rsplit("::", 1)[-1], ",".join(str(l) for l in lits)))
        sig = ";".join(sorted(tests)) or "?"
        if sig in seen_sig:
            continue
        seen_sig.add(sig)
        rep.bad("C03-R4", "%s|content-branch{%s}" % (shared.rk(prog, ev, kp), sig), where,
                "the shape of the name step depends on the name's own text (`%s`): a member whose name merely looks quoted "
                "is reported like the unquoted member" % str(c.a[0])[:200])
    fmts = [x for x in subterms(pt) if x.k == "call" and x.a[0] == "<format>"]
    okshape = False
    verbatim = False
    for fm in fmts:
        pieces = fm.a[1].a[1]
        if pieces == (("arg", 0, False), ("lit", "['"), ("arg", 1, False), ("lit", "']")):
            okshape = True
            a = _fmtarg(fm.a[3])
            if a == keyp:
                verbatim = True
    rep.check(okshape, "C03-R4", "%s|shape" % kp, where, "format!(\"{}['{}']\", path, name)", "no `path['name']` formatter found: %s" % pt)
    if verbatim:
        rep.bad("C03-R4", "%s|no-escaping" % shared.rk(prog, ev, kp), where,
                "the member name reaches the formatter verbatim: a name containing `'` or `\\` or a control character cannot be "
                "written unescaped in a Normalized Path")
    else:
        rep.ok("C03-R4", "%s|escaping" % kp, where, "name passes through an escaping function")


def _fmtarg(t):
    if t.k == "call" and t.a[0].startswith("<fmtarg") and len(t.a) == 2:
        return t.a[1]
    return None


def r5(prog, ev, rep):
    rep.rule("C03-R5", "root path: State::root builds its pointer with the constant `$`", floor=1)
    rp = prog.inherent_method("crate::query::state::State", "root")
    t = ev.summary(rp)
    good = False
    for x in subterms(t):
        if x.k == "call" and x.a[0] == PTR + "new" and len(x.a) == 3:
            a = x.a[2]
            lit = a.a[1] if a.k == "call" and a.a[0].endswith("to_string") and len(a.a) == 2 else a
            good = x.a[1].k == "param" and x.a[1].a[0] == 0 and lit.k == "lit" and lit.a[1] == "$"
    rep.check(good, "C03-R5", "State::root", prog.loc_of(rp), "Pointer::new(root, \"$\")", "root state is `%s`" % t)
    np_ = prog.inherent_method("crate::query::state::Pointer", "new")
    nt = ev.summary(np_)
    f = dict(nt.a[2]) if nt.k == "adt" else {}
    good = f.get("inner") is not None and f["inner"].k == "param" and f["inner"].a[0] == 0 and f.get("path") is not None and f["path"].k == "param" and f["path"].a[0] == 1
    rep.check(good, "C03-R5", "Pointer::new", prog.loc_of(np_), "Pointer{inner, path}", "Pointer::new builds `%s`" % nt)
