"""Shared by C06 / C07 / C13: run (or load) the grammar comparison and turn divergences into rule instances."""
from vflib import grammarmodel as GM

DEFECT_HINT = [
    (lambda k: k[0] == "rfc-only" and k[2] == "alpha" and ("HEXDIG" in k[1] or "surrogate" in k[1]), "lower-case hex digits in \\uXXXX are rejected"),
    (lambda k: k[0] == "rfc-only" and k[2] == "unicode-space" and "name-first" in k[1], "a member-name-shorthand that begins with a non-ASCII White_Space scalar is rejected"),
    (lambda k: k[0] == "rfc-only" and k[2] == "blank", "blank space that RFC 9535 allows here (S) is rejected"),
    (lambda k: k[0] == "impl-only" and k[2] == "blank" and "member_name_shorthand" in k[1], "blank space inside a member-name-shorthand is accepted"),
    (lambda k: k[0] == "impl-only" and "member_name_shorthand" in k[1], "blank space inside a member-name-shorthand is accepted (observed at the next name character)"),
    (lambda k: k[0] == "impl-only" and k[2] == "blank" and "function_name" in k[1], "blank space inside a function name is accepted"),
    (lambda k: k[0] == "impl-only" and k[2] == "blank" and ("escapable" in k[1] or "hexchar" in k[1] or "surrogate" in k[1] or "quoted" in k[1]), "blank space inside a string escape sequence is accepted"),
    (lambda k: k[0] == "impl-only" and k[2] == "blank" and k[1].endswith("string"), "an unescaped control character (tab/LF/CR) is accepted inside a string"),
    (lambda k: k[0] == "impl-only" and k[2] == "control", "an unescaped control character is accepted inside a string"),
    (lambda k: k[0] == "impl-only" and k[2] == "digit" and "int" in k[1], "an integer with leading zeros or outside the I-JSON range is accepted"),
    (lambda k: k[0] == "impl-only" and k[2] == "blank", "blank space is accepted where RFC 9535 has no S"),
    (lambda k: k[0] == "impl-only" and k[2] == "$end", "the input may end here although RFC 9535 requires more (e.g. trailing blank space accepted)"),
]


def hint(k):
    for pred, text in DEFECT_HINT:
        if pred(k):
            return text
    return ""


class GrammarUnsupported(Exception):
    pass


def load(ctx):
    try:
        return GM.analyse(ctx.prog, ctx.grammar, ctx.tier)
    except GM.Unsupported as ex:
        raise GrammarUnsupported(str(ex))


def model_limits(rep, rule, res, where, direction):
    """Constructs the model could not represent exactly are reported fail-closed, in the direction where the
    approximation is not conservative."""
    # a dropped lookahead predicate makes the modelled impl language LARGER than the real one:
    #   impl <= RFC (C07) stays sound; RFC <= impl (C06) and blank-exactness (C13) do not
    if res.get("predicates_dropped") and direction in ("rfc<=impl", "both"):
        rep.unrecognised(rule, "predicate:" + ",".join(res["predicates_dropped"]), where,
                         "lookahead predicate in rule(s) %s cannot be modelled exactly: strings it excludes may be valid RFC 9535 queries" % res["predicates_dropped"])
    for slot, info in sorted(res["slots"].items()):
        for st in info["steps"]:
            if st.startswith("unknown-check:") and direction in ("rfc<=impl", "both"):
                rep.unrecognised(rule, "unknown-check:%s:%s" % (slot, st[14:]), where,
                                 "the text of %s passes through `%s`, a check whose effect on the accepted language could not be determined: it may "
                                 "reject valid queries" % (slot, st[14:]))


def check_side_conditions(rep, rule, res, where):
    eq = res["engine"]["equiv"]
    bad = [e for e in eq if not e["equal"]]
    for e in bad:
        rep.unrecognised(rule, "side-condition:" + e["id"], where,
                         "the knot method's side condition does not hold: an embedded knot is not surrounded by optional blank on the %s side "
                         "(witness `%s`); the grammar moved material across a knot" % (e["id"].split("/")[1], GM.show_witness(e["witness"] or [])))
    sc = res["abnf_selfcheck"]
    if sc["bad"]:
        rep.machinery_errors.append("spec/rfc9535.abnf disagrees with spec/examples.tsv on %d strings: %s" % (len(sc["bad"]), sc["bad"][:3]))
    return not bad
