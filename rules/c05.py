"""C05 -- filter logic, existence tests and @/$ scoping."""
import re
from vflib import thir as T, tables
from vflib.terms import Evaluator, Tm, subterms
from vflib import pipeline as PL

META = {
    "level": "other",
    "explanation": (
        "Structural rules on the resolved program. R1 connective table (Or=any, And=all over the same per-operand "
        "truth predicate, Atom delegates). R2 a child is kept iff the un-negated truth of the expression on that "
        "child. R3 negation table of FilterAtom x not. R4 an existence test depends only on the variant/length of "
        "the nodelist, never on a node's value (no Queryable accessor in that branch). R5 `$` forms go through "
        "shift_to_root, relative forms do not, and every State's root comes from an incoming state's root. "
        "R6 the child evaluated and the child emitted are the same pipeline item, enumerate before filter. "
        "R7 no branch condition depends on the text of a path. R8 precedence: Or of And of atoms in the AST builder "
        "(the grammar side is decided under C06/C07). Not decided: Boolean identities as value-level laws beyond what "
        "the connective table implies."),
    "trusted_base": ["rustc nightly THIR", "vf driver + rules"],
    "assumptions": ["Iterator::any/all/filter/map/enumerate have their documented semantics"],
    "not_decided": ["Boolean-algebra identities over all formulas (follow from R1/R3 only)"],
}
META["explanation"] += ' R9 the `@` marker is exact: every boolean predicate on Pointer.path is equality with the constant Pointer::empty stores.'

Q = "crate::query::Query"
M = "crate::parser::model::"
STATE = "crate::query::state::State::<'a, T>::"
PTR = "crate::query::state::Pointer::<'a, T>::"
QT = "crate::query::queryable::Queryable"


def truth_of(ev, t):
    """If t is `truth(S)` = S.ok_val().and_then(as_bool).unwrap_or(false) return S else None."""
    if t.k != "call":
        return None
    name = t.a[0]
    if name.endswith("Option::<T>::unwrap_or_default") and len(t.a) == 2:
        inner = t.a[1]
    elif name.endswith("Option::<T>::unwrap_or") and len(t.a) == 3 and t.a[2].k == "lit" and t.a[2].a[1] == "false":
        inner = t.a[1]
    else:
        return None
    if not (inner.k == "call" and inner.a[0].endswith("Option::<T>::and_then") and len(inner.a) == 3):
        return None
    okv, f = inner.a[1], inner.a[2]
    body = ev.apply(f, [Tm("param", (77, "v"))])
    if not (body.k == "call" and body.a[0] == QT + "::as_bool" and body.a[1] == Tm("param", (77, "v"))):
        return None
    if okv.k == "call" and okv.a[0].endswith("::ok_val") and len(okv.a) == 2:
        return okv.a[1]
    return None


def run(ctx, rep):
    prog = ctx.prog
    ev = Evaluator(prog)
    pe = r1(prog, ev, rep)
    r2_r6(prog, ev, rep, pe)
    r3_r4(prog, ev, rep)
    r5(prog, ev, rep)
    r7(prog, ev, rep)
    r8(prog, ev, rep)
    r9(prog, ev, rep)


# ------------------------------------------------------------------------------------------- R1
def find_elem_evaluator(prog, ev):
    """The function that maps a Filter and a state (bound to one child) to a boolean state: by role = the local
    fn(&Filter, State) -> State whose match on Filter has an arm calling <FilterAtom as Query>::process."""
    atomp = prog.impl_method(Q, M + "FilterAtom", "process")
    for p, it in prog.items.items():
        if it["kind"] not in ("Fn", "AssocFn") or p not in prog.bodies:
            continue
        ins = it.get("inputs_s", [])
        if len(ins) == 2 and "crate::parser::model::Filter" in ins[0] and ins[1].startswith("crate::query::state::State<"):
            if any(n == atomp for n, _ in prog.callees(p)):
                return p, atomp
    return None, atomp


def r1(prog, ev, rep):
    rep.rule("C05-R1", "connectives: Or -> any(P), And -> all(P) with one and the same predicate P = truth of the "
             "operand evaluated against the same state; Atom -> atom.process(state)", floor=4)
    pe, atomp = find_elem_evaluator(prog, ev)
    if not pe:
        rep.unrecognised("C05-R1", "process_elem", "-", "no fn(&Filter, State) -> State dispatching on Filter::{Or,And,Atom} found")
        return None
    t = ev.summary(pe)
    where = prog.loc_of(pe)
    if t.k != "match":
        rep.unrecognised("C05-R1", "process_elem", where, "not a match on the Filter variant")
        return pe
    st = Tm("param", (1, "state"))
    preds = {}
    for vn, want in (("Or", "any"), ("And", "all")):
        sel = tables.select(t.a[1], ("v", vn, [tables.ANY]))
        key = "Filter::%s" % vn
        if len(sel) != 1:
            rep.unrecognised("C05-R1", key, where, "no unique arm")
            continue
        body = t.a[1][sel[0][0]][2]
        if not (body.k == "call" and body.a[0] == STATE + "bool" and len(body.a) == 3):
            rep.unrecognised("C05-R1", key, where, "result is not State::bool(..): %s" % body)
            continue
        agg = body.a[1]
        src, stages = PL.unwind(agg)
        names = [s[0] for s in stages]
        comp = Tm("proj", (t.a[0], "Filter::%s.0" % vn))
        conn = None
        pred = None
        if names and names[-1] in ("any", "all") and all(PL.classify(n) == "preserving" for n in names[:-1]) and src == comp:
            conn = names[-1]
            pred = stages[-1][1][0]
        elif names and names[-1] == "fold" and src == comp:
            init, f = stages[-1][1][0], stages[-1][1][1]
            fb = ev.apply(f, [Tm("param", (70, "acc")), Tm("param", (71, "x"))])
            if init.k == "lit" and fb.k == "logic":
                if init.a[1] == "false" and fb.a[0] == "Or":
                    conn = "any"
                elif init.a[1] == "true" and fb.a[0] == "And":
                    conn = "all"
                pred = f
        if conn is None:
            rep.unrecognised("C05-R1", key, where, "operands are not aggregated by any/all/fold over the operand list: %s" % agg)
            continue
        rep.check(conn == want, "C05-R1", key, where, "%s over the operands" % want,
                  "`%s` is evaluated with `%s` (must be `%s`): %s" % ("||" if vn == "Or" else "&&", conn, want, "any operand true suffices" if vn == "And" else "all operands must hold"))
        # the predicate: truth(process(operand, state))
        x = Tm("param", (72, "operand"))
        pb = ev.apply(pred, [x]) if conn in ("any", "all") and names[-1] != "fold" else None
        if pb is not None:
            s = truth_of(ev, pb)
            fproc = prog.impl_method(Q, M + "Filter", "process")
            good = s is not None and s.k == "call" and s.a[0] in (fproc, pe) and s.a[1] == x and s.a[2] == st
            rep.check(good, "C05-R1", key + "/predicate", where, "truth(operand.process(state))",
                      "operand predicate is `%s`, expected the un-negated truth of the operand on the same state" % pb)
            preds[vn] = pb
    if len(preds) == 2 and str(preds["Or"]) != str(preds["And"]):
        rep.bad("C05-R1", "same-predicate", where, "Or and And use different operand predicates")
    sel = tables.select(t.a[1], ("v", "Atom", [tables.ANY]))
    if len(sel) == 1:
        body = t.a[1][sel[0][0]][2]
        good = body.k == "call" and body.a[0] == atomp and body.a[1] == Tm("proj", (t.a[0], "Filter::Atom.0")) and body.a[2] == st
        rep.check(good, "C05-R1", "Filter::Atom", where, "atom.process(state)", "Atom arm computes `%s`" % body)
    else:
        rep.unrecognised("C05-R1", "Filter::Atom", where, "no unique arm")
    return pe


# ------------------------------------------------------------------------------------------- R2 / R6
def r2_r6(prog, ev, rep, pe):
    rep.rule("C05-R2", "keep/drop: the predicate handed to `filter` is the un-negated truth of the whole expression "
             "evaluated with `@` = that child (State::data(root, Data::Ref(child)))", floor=3)
    rep.rule("C05-R6", "`@` binding: in both container branches the child tested (Pointer::empty(x)) and the child "
             "emitted (Pointer::idx/key(x, ..)) are the same pipeline item; enumerate is applied before filter", floor=2)
    fproc = prog.impl_method(Q, M + "Filter", "process")
    where = prog.loc_of(fproc)
    # locate filter_item by role: local fn called inside the `filter` closures
    t, trace, conds = ev.traced(fproc)
    colls = [c for c in trace if c.k == "call" and PL.method_name(c.a[0]) == "collect" and PL.is_iter_call(c.a[0])]
    branches = 0
    item_fn = None
    wrapped_at_call = True
    for c in colls:
        src, stages = PL.unwind(c)
        names = [s[0] for s in stages]
        if "filter" not in names:
            continue
        branches += 1
        kind = "array" if "enumerate" in names else "object"
        key = "filter-selector/%s" % kind
        # source must be the children of the current pointer
        oksrc = (src.k == "proj" and src.a[1] == "Option::Some.0" and src.a[0].k == "call"
                 and src.a[0].a[0] in (QT + "::as_array", QT + "::as_object"))
        cur = src.a[0].a[1].a[0] if oksrc and src.a[0].a[1].k == "field" and src.a[0].a[1].a[1] == "inner" else None
        if not oksrc or cur is None:
            rep.unrecognised("C05-R6", key, where, "pipeline source is not as_array()/as_object() of the current node: %s" % src)
            continue
        expected = ["into_iter", "enumerate", "filter", "map", "collect"] if kind == "array" else ["into_iter", "filter", "map", "collect"]
        if [n for n in names if n != "iter"] != [n for n in expected if n != "iter"] and names != ["iter"] + expected[1:]:
            if "enumerate" in names and names.index("enumerate") > names.index("filter"):
                rep.bad("C05-R6", key, where, "`filter` is applied before `enumerate`: reported indices count only kept elements (%s)" % names)
            else:
                rep.unrecognised("C05-R6", key, where, "pipeline is %s, expected %s" % (names, expected))
            continue
        fi = names.index("filter"); mi = names.index("map")
        item = Tm("param", (80, "item"))
        fb = ev.apply(stages[fi][1][0], [item])
        mb = ev.apply(stages[mi][1][0], [item])
        # tested child
        tested = None
        if fb.k == "call" and fb.a[0] in prog.bodies and len(fb.a) == 4:
            item_fn = fb.a[0]
            pt = fb.a[2]
            if pt.k == "call" and pt.a[0] == PTR + "empty":
                tested = pt.a[1]
                wrapped_at_call = True
            elif "Pointer<" not in (prog.params(item_fn)[1].get("ty") or "") if len(prog.params(item_fn)) > 1 else False:
                # the per-child function takes the child itself (&T) and builds the pathless pointer inside
                tested = pt
                wrapped_at_call = False
            selfok = fb.a[1].k == "param" and fb.a[1].a[0] == 0
            rootok = fb.a[3].k == "field" and fb.a[3].a[1] == "root"
            rep.check(selfok and rootok, "C05-R2", key + "/predicate", where, "filter_item(self, Pointer::empty(child), state.root)",
                      "filter predicate `%s` does not evaluate this filter with the state's root" % fb)
        else:
            rep.unrecognised("C05-R2", key + "/predicate", where, "filter predicate is `%s`" % fb)
        emitted = None
        idxok = True
        if mb.k == "call" and mb.a[0] in (PTR + "idx", PTR + "key") and len(mb.a) == 4:
            emitted = mb.a[1]
            pathok = mb.a[2].k == "field" and mb.a[2].a[1] == "path" and mb.a[2].a[0] == cur
            if kind == "array":
                idxok = mb.a[0] == PTR + "idx" and mb.a[3] == Tm("field", (item, "0")) and emitted == Tm("field", (item, "1"))
            else:
                idxok = mb.a[0] == PTR + "key" and mb.a[3] == Tm("field", (item, "0")) and emitted == Tm("field", (item, "1"))
            rep.check(pathok and idxok, "C05-R6", key + "/emit", where, "Pointer::%s(child, parent.path, %s)" % ("idx" if kind == "array" else "key", "index" if kind == "array" else "key"),
                      "emitted pointer `%s` does not pair the child with its own %s and the parent's path" % (mb, "index" if kind == "array" else "key"))
        else:
            rep.unrecognised("C05-R6", key + "/emit", where, "map stage builds `%s`" % mb)
        rep.check(tested is not None and tested == emitted, "C05-R6", key, where, "tested child == emitted child",
                  "the child tested (`%s`) is not the child emitted (`%s`)" % (tested, emitted))
    if branches < 2:
        rep.unrecognised("C05-R6", "filter-selector/branches", where, "found %d filter pipelines (children -> filter -> map -> collect), expected one for "
                         "arrays and one for objects: the selector is written in a form the rule cannot read" % branches)
    # filter_item: truth(process_elem(self, State::data(root, Data::Ref(item))))
    if item_fn:
        ft = ev.summary(item_fn)
        s = truth_of(ev, ft)
        good = False
        if s is not None and s.k == "call" and s.a[0] == pe and len(s.a) == 3:
            stt = s.a[2]
            good = (s.a[1].k == "param" and s.a[1].a[0] == 0 and stt.k == "call" and stt.a[0] == STATE + "data"
                    and stt.a[1].k == "param" and stt.a[1].a[0] == 2 and stt.a[2].k == "adt" and stt.a[2].a[1] == "Ref"
                    and stt.a[2].a[2][0][1].k == "param" and stt.a[2].a[2][0][1].a[0] == 1)
            if not good and not wrapped_at_call:
                pl = stt.a[2].a[2][0][1] if stt.k == "call" and len(stt.a) == 3 and stt.a[2].k == "adt" and stt.a[2].a[1] == "Ref" else None
                good = (s.a[1].k == "param" and s.a[1].a[0] == 0 and stt.k == "call" and stt.a[0] == STATE + "data"
                        and stt.a[1].k == "param" and stt.a[1].a[0] == 2 and pl is not None and pl.k == "call" and pl.a[0] == PTR + "empty"
                        and pl.a[1].k == "param" and pl.a[1].a[0] == 1)
        rep.check(good, "C05-R2", "filter_item", prog.loc_of(item_fn), "truth(self.process_elem(State::data(root, Ref(item))))",
                  "keep/drop decision is `%s`: not the un-negated truth of the expression on the child" % ft)
    else:
        rep.unrecognised("C05-R2", "filter_item", where, "per-child predicate function not found")


# ------------------------------------------------------------------------------------------- R3 / R4
def is_invert(prog, ev, fn):
    """fn(State) -> State computing bool(!truth(state))"""
    if fn not in prog.bodies:
        return False
    t = ev.summary(fn)
    if not (t.k == "call" and t.a[0] == STATE + "bool" and len(t.a) == 3):
        return False
    b = t.a[1]
    if not (b.k == "un" and b.a[0] == "Not"):
        return False
    s = truth_of(ev, b.a[1])
    return s is not None and s.k == "param" and s.a[0] == 0


def r3_r4(prog, ev, rep):
    rep.rule("C05-R3", "negation table: (Filter,not) -> not? !X : X; (Test with logical result,not) -> not? !X : X; "
             "(Test query,not) -> exists(X) xor not; Comparison -> cmp.process; `!` is bool(!truth(x))", floor=5)
    rep.rule("C05-R4", "existence is value-independent: the truth of a query used as a test mentions only the variant of "
             "the result and the length of a node list; no Queryable accessor is consulted", floor=1)
    ap = prog.impl_method(Q, M + "FilterAtom", "process")
    where = prog.loc_of(ap)
    t = ev.summary(ap)
    if t.k != "match":
        rep.unrecognised("C05-R3", "FilterAtom::process", where, "not a match on the atom variant")
        return
    st = Tm("param", (1, "state"))
    fproc = prog.impl_method(Q, M + "Filter", "process")
    tproc = prog.impl_method(Q, M + "Test", "process")
    cproc = prog.impl_method(Q, M + "Comparison", "process")

    def arm(vn, nf):
        sel = tables.select(t.a[1], ("v", vn, [tables.ANY] * nf))
        return t.a[1][sel[0][0]][2] if len(sel) == 1 else None

    def neg_pair(body, notf, X, key):
        """body must be if(not ? invert(X) : X)"""
        if body is not None and body.k == "if" and body.a[0].k == "un" and body.a[0].a[0] == "Not":
            body = Tm("if", (body.a[0].a[1], body.a[2], body.a[1]), body.n)       # if(!c ? a : b) is if(c ? b : a)
        if body is None or body.k != "if" or body.a[0] != notf:
            rep.bad("C05-R3", key, where, "the `not` flag does not decide between X and !X: `%s`" % body)
            return
        neg, pos = body.a[1], body.a[2]
        good_pos = pos == X
        good_neg = neg.k == "call" and len(neg.a) == 2 and neg.a[1] == X and is_invert(prog, ev, neg.a[0])
        if not good_neg and neg.k == "call" and neg.a[0] == STATE + "bool" and len(neg.a) == 3 and neg.a[1].k == "un" and neg.a[1].a[0] == "Not":
            # the inverting helper written out (or unfolded): bool(!truth(X), ..)
            s_ = truth_of(ev, neg.a[1].a[1])
            good_neg = s_ is not None and s_ == X
        rep.check(good_pos, "C05-R3", key + "/not=false", where, "X", "non-negated branch computes `%s` instead of X" % pos)
        rep.check(good_neg, "C05-R3", key + "/not=true", where, "bool(!truth(X))", "negated branch computes `%s` instead of !X" % neg)

    # Filter {expr, not}
    b = arm("Filter", 2)
    X = Tm("call", (fproc, Tm("proj", (t.a[0], "FilterAtom::Filter.expr")), st))
    neg_pair(b, Tm("proj", (t.a[0], "FilterAtom::Filter.not")), X, "FilterAtom::Filter")
    # Comparison
    b = arm("Comparison", 1)
    good = b is not None and b.k == "call" and b.a[0] == cproc and b.a[1] == Tm("proj", (t.a[0], "FilterAtom::Comparison.0")) and b.a[2] == st
    rep.check(good, "C05-R3", "FilterAtom::Comparison", where, "cmp.process(state)", "Comparison arm computes `%s`" % b)
    # Test {expr, not}
    b = arm("Test", 2)
    notf = Tm("proj", (t.a[0], "FilterAtom::Test.not"))
    expr = Tm("proj", (t.a[0], "FilterAtom::Test.expr"))
    X = Tm("call", (tproc, expr, st))
    if b is None or b.k != "if" or not (b.a[0].k == "call" and b.a[0].a[0].endswith("Test::is_res_bool") and b.a[0].a[1] == expr):
        rep.unrecognised("C05-R3", "FilterAtom::Test", where, "Test arm does not split on `logical result vs query`: %s" % b)
        return
    neg_pair(b.a[1], notf, X, "FilterAtom::Test/logical")
    ex = b.a[2]
    # exists(X) xor not :  if(E ? bool(!not) : bool(not))   or  bool(E != not) / bool(E ^ not)
    E = None
    if ex.k == "if":
        th, el = ex.a[1], ex.a[2]
        okth = th.k == "call" and th.a[0] == STATE + "bool" and th.a[1] == Tm("un", ("Not", notf))
        okel = el.k == "call" and el.a[0] == STATE + "bool" and el.a[1] == notf
        if okth and okel:
            E = ex.a[0]
        else:
            rep.bad("C05-R3", "FilterAtom::Test/query", where, "existence branch is not `if exists {bool(!not)} else {bool(not)}`: then=`%s` else=`%s`" % (th, el))
    elif ex.k == "call" and ex.a[0] == STATE + "bool" and ex.a[1].k == "bin" and ex.a[1].a[0] in ("Ne", "BitXor") and notf in (ex.a[1].a[1], ex.a[1].a[2]):
        E = ex.a[1].a[2] if ex.a[1].a[1] == notf else ex.a[1].a[1]
    else:
        rep.unrecognised("C05-R3", "FilterAtom::Test/query", where, "existence branch: `%s`" % ex)
    if E is not None:
        rep.ok("C05-R3", "FilterAtom::Test/query", where, "exists(X) xor not")
        check_existence(prog, ev, rep, E, X, where, ap)


def check_existence(prog, ev, rep, E, X, where, ap):
    from rules.c04 import expand_closures
    E2 = expand_closures(ev, E)
    acc = [x for x in subterms(E2) if x.k == "call" and x.a[0].startswith(QT + "::")]
    key = "%s|existence" % ap
    if acc:
        names = sorted({a.a[0].rsplit("::", 1)[1] for a in acc})
        rep.bad("C05-R4", key, where,
                "the truth of an existence test reads the selected node's *value* (%s): a node whose value is an empty "
                "array/object/string is treated as absent" % ", ".join(names))
        return
    # shape: match X.data { Ref => true, Refs(v) => !v.is_empty(), _ => false } (any equivalent arrangement)
    problems = []
    if E2.k == "match" and E2.a[0] == Tm("field", (X, "data")):
        arms = E2.a[1]
        for vn, nf in (("Ref", 1), ("Value", 1), ("Nothing", 0)):
            sel = tables.select(arms, ("v", vn, [tables.ANY] * nf))
            if len(sel) != 1 or sel[0][1] != "definite":
                problems.append("%s: no unique arm" % vn); continue
            b = arms[sel[0][0]][2]
            want = "true" if vn == "Ref" else "false"
            if not (b.k == "lit" and b.a[1] == want):
                problems.append("a %s result is `%s`, expected %s" % (vn, b, want))
        sel = tables.select(arms, ("v", "Refs", [tables.ANY]))
        # Refs: every selectable arm must be false under is_empty guard / !is_empty / true when non-empty
        okrefs = False
        texts = []
        for i, how in sel:
            p, g, b = arms[i]
            texts.append("%s => %s" % ("guard " + str(g) if g is not None else "-", b))
        if len(sel) == 1:
            b = arms[sel[0][0]][2]
            okrefs = _nonempty(b)
        elif len(sel) == 2:
            (i0, h0), (i1, h1) = sel
            g0 = arms[i0][1]
            okrefs = g0 is not None and _is_empty_call(g0) and arms[i0][2].k == "lit" and arms[i0][2].a[1] == "false" \
                and arms[i1][2].k == "lit" and arms[i1][2].a[1] == "true"
        if not okrefs:
            problems.append("a node list must be `true iff non-empty`, found %s" % texts)
    else:
        problems.append("existence is not decided by a match on the result's variant: `%s`" % E2)
    rep.check(not problems, "C05-R4", key, where, "exists = variant/length only", "; ".join(problems))


def _is_empty_call(t):
    return t.k == "call" and t.a[0].endswith("::is_empty")


def _nonempty(t):
    if t.k == "un" and t.a[0] == "Not" and _is_empty_call(t.a[1]):
        return True
    if t.k == "bin" and t.a[0] in ("Gt", "Ne") and t.a[1].k == "call" and t.a[1].a[0].endswith("::len") and t.a[2].k == "lit" and t.a[2].a[1] == "0":
        return True
    return False


# ------------------------------------------------------------------------------------------- R5
def r5(prog, ev, rep):
    rep.rule("C05-R5", "`$` scoping: Test::AbsQuery and SingularQuery::Root evaluate against state.shift_to_root(), "
             "the relative forms against the state itself; shift_to_root is State::root(self.root); every State is "
             "constructed with the root of an incoming state (or js_path_process's document)", floor=24)
    st = Tm("param", (1, None))
    for ty, rel, ab in ((M + "Test", "RelQuery", "AbsQuery"), (M + "SingularQuery", "Current", "Root")):
        p = prog.impl_method(Q, ty, "process")
        t = ev.summary(p)
        where = prog.loc_of(p)
        if t.k != "match":
            rep.unrecognised("C05-R5", ty.split("::")[-1], where, "not a match"); continue
        for vn, want_shift in ((rel, False), (ab, True)):
            sel = tables.select(t.a[1], ("v", vn, [tables.ANY]))
            key = "%s::%s" % (ty.split("::")[-1], vn)
            if len(sel) != 1:
                rep.unrecognised("C05-R5", key, where, "no unique arm"); continue
            b = t.a[1][sel[0][0]][2]
            if not (b.k == "call" and len(b.a) == 3 and b.a[1] == Tm("proj", (t.a[0], "%s::%s.0" % (ty.split("::")[-1], vn)))):
                rep.unrecognised("C05-R5", key, where, "arm is `%s`" % b); continue
            arg = b.a[2]
            is_shift = arg.k == "call" and arg.a[0] == STATE + "shift_to_root" and arg.a[1].k == "param" and arg.a[1].a[0] == 1
            is_plain = arg.k == "param" and arg.a[0] == 1
            if want_shift:
                rep.check(is_shift, "C05-R5", key, where, "evaluated from the document root",
                          "`$`-rooted form is evaluated against `%s`, not against state.shift_to_root()" % arg)
            else:
                rep.check(is_plain, "C05-R5", key, where, "evaluated from the current node",
                          "`@`-relative form is evaluated against `%s`, not against the incoming state" % arg)
    sp = prog.inherent_method("crate::query::state::State", "shift_to_root")
    t = ev.summary(sp)
    good = t.k == "call" and t.a[0] == STATE + "root" and t.a[1] == Tm("field", (Tm("param", (0, "self")), "root"))
    rep.check(good, "C05-R5", "State::shift_to_root", prog.loc_of(sp), "State::root(self.root)", "shift_to_root is `%s`" % t)
    # constructors pass their root parameter through
    ctor_root_param = {}
    for name in ("bool", "i64", "str", "root", "nothing", "data"):
        p = prog.inherent_method("crate::query::state::State", name)
        it = prog.items[p]
        idx = [i for i, s in enumerate(it["inputs_s"]) if re.fullmatch(r"&(?:'\w+ )?T", s)]
        if len(idx) != 1:
            rep.unrecognised("C05-R5", "State::%s" % name, prog.loc_of(p), "cannot identify the root parameter"); continue
        ctor_root_param[p] = idx[0]
        t = ev.summary(p)
        # follow to the struct literal
        roots = [x for x in subterms(t) if x.k == "adt" and x.a[0] == "crate::query::state::State"]
        inner_calls = [x for x in subterms(t) if x.k == "call" and x.a[0].startswith(STATE) and x.a[0] in [prog.inherent_method("crate::query::state::State", n) for n in ("data", "root", "nothing")]]
        good = False
        if roots:
            f = dict(roots[0].a[2]).get("root")
            good = f is not None and f.k == "param" and f.a[0] == idx[0]
        elif inner_calls:
            c = inner_calls[0]
            good = any(a.k == "param" and a.a[0] == idx[0] for a in c.a[1:2])
        rep.check(good, "C05-R5", "State::%s/root" % name, prog.loc_of(p), "root parameter stored as root", "State::%s does not store its root parameter as the root: %s" % (name, t))
    # every construction site in the evaluator
    evalr, _ = prog.evaluator()
    tops = sorted(p for p in evalr if "::{closure#" not in p)
    n = 0
    for p in tops:
        t, trace, conds = ev.traced(p)
        for c in trace:
            if c.a[0] in ctor_root_param and p not in ctor_root_param:
                ra = c.a[1 + ctor_root_param[c.a[0]]]
                n += 1
                key = "%s|%s" % (p, c.a[0].rsplit("::", 1)[1])
                okroot = _is_root_source(prog, p, ra)
                rep.check(okroot, "C05-R5", key, c.loc(), "root <- %s" % ra,
                          "State constructed with root `%s`, which is not the root of an incoming state: `$` would denote "
                          "something other than the document root" % ra)
        # struct literals State { root, .. } outside the constructors
        if p not in ctor_root_param and not prog.is_expansion(p):
            for x in T.walk(prog.bodies[p]["thir"]["root"]):
                if x.get("k") == "Adt" and x.get("adt") == "crate::query::state::State":
                    n += 1
                    rf = [f for f in x["fields"] if f["name"] == "root"]
                    e = T.peel(rf[0]["e"]) if rf else {}
                    good = e.get("k") == "Field" and e.get("name") == "root"
                    rep.check(good, "C05-R5", "%s|State{}" % p, T.loc(x), "root: <state>.root", "State literal with root `%s`" % T.pp(e))
    rep.extra["state_constructions"] = n


def _is_root_source(prog, fn, t):
    if t.k == "field" and t.a[1] == "root":
        return True
    if t.k == "param":
        it = prog.items.get(fn, {})
        ins = it.get("inputs_s", [])
        if t.a[0] < len(ins) and re.fullmatch(r"&(?:'\w+ )?T", ins[t.a[0]]):
            # a root handed in explicitly (js_path_process(value), filter_item(.., root), From<&T>)
            return True
    return False


# ------------------------------------------------------------------------------------------- R7
def r7(prog, ev, rep):
    rep.rule("C05-R7", "selection must not depend on path text: no branch condition in the evaluator reads Pointer.path "
             "(paths are outputs)", floor=1)
    evalr, _ = prog.evaluator()
    tops = sorted(p for p in evalr if "::{closure#" not in p)
    readers = set()
    for p, it in prog.items.items():
        if it["kind"] == "AssocFn" and (it.get("impl_self") or "").startswith("crate::query::state::Pointer<") and not it.get("impl_trait"):
            t = ev.summary(p)
            out = it.get("output_s", "")
            if "Pointer<" not in out and any(x.k == "field" and x.a[1] == "path" for x in subterms(t)):
                readers.add(p)
    nconds = 0
    for p in tops:
        if (prog.items.get(p, {}).get("impl_self") or "").startswith("crate::query::state::Pointer<"):
            continue
        t, trace, conds = ev.traced(p)
        for c in conds:
            nconds += 1
            bad = None
            for x in subterms(c):
                if x.k == "field" and x.a[1] == "path":
                    bad = "reads `%s`" % x; break
                if x.k == "call" and x.a[0] in readers:
                    bad = "calls `%s`, which reads the path" % x.a[0].rsplit("::", 1)[1]; break
            if bad:
                rep.bad("C05-R7", "%s|cond:%s" % (p, _cond_key(c)), c.loc(),
                        "branch condition %s: evaluation is steered by the path string instead of by the query" % bad)
    rep.ok("C05-R7", "census", "-", "%d branch conditions in %d evaluator functions examined" % (nconds, len(tops)))
    rep.extra["conditions_examined"] = nconds


def _cond_key(c):
    for x in subterms(c):
        if x.k == "call":
            return x.a[0].rsplit("::", 1)[1]
    return c.k


# ------------------------------------------------------------------------------------------- R9
def r9(prog, ev, rep):
    rep.rule("C05-R9", "the `@` marker is exact: a pointer counts as `the node under test` only if its path EQUALS the marker that "
             "Pointer::empty stores, and no other constructor can produce that path (so nodes reached from `@` by a relative query are "
             "ordinary nodes)", floor=2)
    try:
        ep = prog.inherent_method("crate::query::state::Pointer", "empty")
    except Exception:
        rep.unrecognised("C05-R9", "Pointer::empty", "-", "constructor of the `@` marker not found"); return
    et = ev.summary(ep)
    f = dict(et.a[2]) if et.k == "adt" else {}
    pt = f.get("path")
    marker = None
    if pt is not None:
        if pt.k == "call" and pt.a[0] == "alloc::string::String::new":
            marker = ""
        elif pt.k == "call" and pt.a[0].endswith("to_string") and len(pt.a) == 2 and pt.a[1].k == "lit":
            marker = pt.a[1].a[1]
        elif pt.k == "lit":
            marker = pt.a[1]
    if marker is None:
        rep.unrecognised("C05-R9", "Pointer::empty/marker", prog.loc_of(ep), "marker path is `%s`" % pt); return
    rep.check(not marker.startswith("$"), "C05-R9", "Pointer::empty/marker", prog.loc_of(ep), "marker %r cannot be a real path" % marker,
              "the `@` marker %r looks like a real path" % marker)
    # every predicate on Pointer that reads the path and returns bool must be equality with the marker
    n = 0
    for p, it in prog.items.items():
        if it["kind"] == "AssocFn" and (it.get("impl_self") or "").startswith("crate::query::state::Pointer<") and not it.get("impl_trait") \
                and it.get("output_s") == "bool":
            t = ev.summary(p)
            if not any(x.k == "field" and x.a[1] == "path" for x in subterms(t)):
                continue
            n += 1
            selfpath = Tm("field", (Tm("param", (0, "self")), "path"))
            exact = False
            if t.k == "call" and t.a[0].endswith("String::is_empty") and t.a[1] == selfpath:
                exact = marker == ""
            elif t.k == "bin" and t.a[0] == "Eq" and selfpath in (t.a[1], t.a[2]):
                other = t.a[2] if t.a[1] == selfpath else t.a[1]
                exact = other.k == "lit" and other.a[1] == marker
            elif t.k == "call" and "PartialEq" in t.a[0] and t.a[0].endswith("::eq") and selfpath in t.a[1:]:
                other = [x for x in t.a[1:] if x != selfpath]
                exact = bool(other) and other[0].k == "lit" and other[0].a[1] == marker
            rep.check(exact, "C05-R9", "%s|exact-marker" % p.rsplit("::", 1)[1], prog.loc_of(p), "path == marker",
                      "`%s` is `%s`: it is also true for pointers that merely start with / contain the marker (children reached from `@`), "
                      "so a filter nested inside a relative query is evaluated on the wrong node" % (p.rsplit("::", 1)[1], t))
    if n == 0:
        rep.ok("C05-R9", "no-path-predicate", "-", "no boolean predicate reads Pointer.path")


# ------------------------------------------------------------------------------------------- R8
def r8(prog, ev, rep):
    rep.rule("C05-R8", "precedence in the AST builder: the handler of the `||` rule wraps results of the `&&` rule's "
             "handler in Filter::Or; that one wraps Filter::Atom(filter_atom(..)) in Filter::And; single operands are "
             "returned unwrapped; paren/test atoms record not = (not_op present); comparison atoms map to Comparison", floor=7)
    le = prog.find_fn("crate::parser::logical_expr")
    la = prog.find_fn("crate::parser::logical_expr_and")
    fa = prog.find_fn("crate::parser::filter_atom")
    for fn, variant, inner_desc, inner_ok in (
            (le, "Or", "logical_expr_and(child)?", lambda x: x.k == "try" and x.a[0].k == "call" and x.a[0].a[0] == la),
            (la, "And", "Filter::Atom(filter_atom(child)?)", lambda x: x.k == "adt" and x.a[1] == "Atom" and x.a[2][0][1].k == "try"
             and x.a[2][0][1].a[0].k == "call" and x.a[2][0][1].a[0].a[0] == fa)):
        t = ev.summary(fn)
        where = prog.loc_of(fn)
        cons = [x for x in subterms(t) if x.k == "adt" and x.a[0] == M + "Filter" and x.a[1] in ("Or", "And")]
        key = fn.rsplit("::", 1)[1]
        if len(cons) != 1:
            rep.unrecognised("C05-R8", key, where, "expected exactly one Filter::%s construction, found %d" % (variant, len(cons))); continue
        rep.check(cons[0].a[1] == variant, "C05-R8", key + "/connective", where, "Filter::%s" % variant,
                  "`%s` builds Filter::%s: `&&` and `||` are swapped in the AST" % (key, cons[0].a[1]))
        pushed = [x.a[2] for x in subterms(cons[0].a[2][0][1]) if x.k == "call" and x.a[0].endswith("Vec::<T, A>::push") and len(x.a) == 3]
        if not pushed:
            # the operand vector built by `children.map(f).collect::<Result<Vec<_>, _>>()?`: its elements are `f(child)?`
            v = cons[0].a[2][0][1]
            tried = v.k == "try"
            if tried:
                v = v.a[0]
            if v.k == "call" and v.a[0].endswith("Iterator::collect") and v.a[1].k == "call" and v.a[1].a[0].endswith("Iterator::map") and len(v.a[1].a) == 3:
                fmap = v.a[1].a[2]
                if fmap.k == "fnitem" and fmap.a[0] in prog.bodies:
                    applied = Tm("call", (fmap.a[0], ev.item_of(v.a[1].a[1])))     # a named function mapped over the children
                else:
                    applied = ev.apply(fmap, [ev.item_of(v.a[1].a[1])])
                if tried and applied.k == "call" and applied.a[0] == "core::result::Result::<T, E>::map" and len(applied.a) == 3:
                    pushed = [ev.apply(applied.a[2], [Tm("try", (applied.a[1],))])]        # r.map(f)? == f(r?)
                else:
                    pushed = [Tm("try", (applied,)) if tried and applied.k != "try" else applied]
                if pushed[0].k != "try" and pushed[0].k == "adt" and pushed[0].a[1] == "Ok":
                    pushed = [pushed[0].a[2][0][1]]
        good = bool(pushed) and all(inner_ok(x) for x in pushed)
        if not good and pushed and all(x.k == "call" and x.a[0] in prog.bodies and x.a[0] not in (la, fa) for x in pushed):
            rep.unrecognised("C05-R8", key + "/operands", where, "operands are built through `%s`, which the rule does not look into" % pushed[0].a[0])
        else:
            rep.check(good, "C05-R8", key + "/operands", where, inner_desc, "operands pushed are %s" % [str(x) for x in pushed])
        # the connective is built from exactly that operand list: nothing regroups, flattens, filters or reorders it on the way
        from vflib.terms import elements_of
        payload = cons[0].a[2][0][1]
        direct = bool(elements_of(payload))
        if not direct:
            v = payload.a[0] if payload.k == "try" else payload
            direct = v.k == "call" and v.a[0].endswith("Iterator::collect") and v.a[1].k == "call" and v.a[1].a[0].endswith("Iterator::map") \
                and v.a[1].a[1].k == "call" and v.a[1].a[1].a[0].endswith("into_inner")
        rep.check(direct, "C05-R8", key + "/operand-list", where, "Filter::%s(the collected operands)" % variant,
                  "the operands of `%s` pass through `%s` before the connective is built: regrouping or flattening parenthesised "
                  "sub-expressions changes what `(a || b) && c` means" % ("||" if variant == "Or" else "&&", str(payload)[:160]))
        # iteration source: children of the rule in order
        srcs = [x for x in subterms(cons[0]) if x.k == "call" and x.a[0] == "<item>"]
        if not srcs:
            srcs = [x for p_ in pushed for x in subterms(p_) if x.k == "call" and x.a[0] == "<item>"]
        good = bool(srcs) and all(s.a[1].k == "call" and s.a[1].a[0].endswith("Pair::<'i, R>::into_inner") and s.a[1].a[1].k == "param" for s in srcs)
        rep.check(good, "C05-R8", key + "/children", where, "for child in rule.into_inner()", "operands are not the rule's children in order")
    # filter_atom
    t = ev.summary(fa)
    where = prog.loc_of(fa)
    if t.k != "match":
        rep.unrecognised("C05-R8", "filter_atom", where, "not a match on the child rule"); return
    arms = t.a[1]
    for rule, ctor in (("paren_expr", "filter"), ("test_expr", "test")):
        sel = tables.select(arms, ("v", rule, []))
        key = "filter_atom/%s" % rule
        if len(sel) != 1:
            rep.unrecognised("C05-R8", key, where, "no unique arm"); continue
        b = arms[sel[0][0]][2]
        clos = [x for x in subterms(b) if x.k == "closure"]
        ok = False
        why = "arm is `%s`" % b
        for c in clos:
            body = ev.apply(c, [Tm("param", (85, "expr"))])
            if body.k == "call" and body.a[0] == M + "FilterAtom::" + ctor and body.a[1] == Tm("param", (85, "expr")):
                nt = body.a[2]
                from_pair = False
                if nt.k == "field" and str(nt.a[1]).isdigit():
                    # the flag is a component of what a scanning helper returned
                    r_ = _pair_component(ev, nt.a[0], int(nt.a[1]))
                    if r_ is None:
                        continue        # unreadable here: reported as such below
                    nt, from_pair = r_, True
                alts_ = set()
                for x in (nt.a if nt.k == "phi" else (nt,)):
                    alts_.add(str(x))
                # not = false initially, set to true only under Rule::not_op
                ok = ("false" in alts_ and "true" in alts_ and len([a for a in alts_ if not a.startswith("loopvar")]) == 2)
                if not ok:
                    why = "`not` is %s: it must be false unless a not_op child is present" % sorted(alts_)
                elif from_pair:
                    helpers = sorted({x.a[0] for x in subterms(ev.summary(fa)) if x.k == "call" and x.a[0] in prog.bodies
                                      and x.a[0].startswith("crate::parser::") and not x.a[0].startswith(M)
                                      and any(y.get("k") == "Assign" for y in T.walk(prog.bodies[x.a[0]]["thir"]["root"]))})
                    ok = all(_true_only_under_not_op(prog, h) for h in helpers) and bool(helpers)
                    if not ok:
                        why = "`not = true` is not guarded by Rule::not_op in %s" % [h.rsplit("::", 1)[1] for h in helpers]
                else:
                    ok = _not_set_under_not_op(prog, fa, rule)
                    if not ok:
                        why = "`not = true` is not guarded by Rule::not_op"
        if not ok and why.startswith("arm is"):
            # the negation scan lives in a helper that returns (operand, not): read the flag out of the pair
            nt = _flag_from_pair(ev, b, ctor)
            if nt is not None:
                alts_ = {str(x) for x in (nt.a if nt.k == "phi" else (nt,))}
                ok = ("false" in alts_ and "true" in alts_ and len([a for a in alts_ if not a.startswith("loopvar")]) == 2)
                if not ok:
                    why = "`not` is %s: it must be false unless a not_op child is present" % sorted(alts_)[:6]
                else:
                    helpers = sorted({x.a[0] for x in subterms(ev.summary(fa)) if x.k == "call" and x.a[0] in prog.bodies
                                      and x.a[0].startswith("crate::parser::") and not x.a[0].startswith(M)
                                      and any(y.get("k") == "Assign" for y in T.walk(prog.bodies[x.a[0]]["thir"]["root"]))})
                    ok = all(_true_only_under_not_op(prog, h) for h in helpers) and bool(helpers)
                    if not ok:
                        why = "`not = true` is not guarded by Rule::not_op in %s" % [h.rsplit("::", 1)[1] for h in helpers]
        if not ok and why.startswith("arm is"):
            # no closure/constructor call of the expected form was found at all: the arm could not be read (a wrong `not`
            # that *was* read is reported as a violation above)
            rep.unrecognised("C05-R8", key, where, "how the arm builds FilterAtom::%s(expr, not) could not be read: %s" % (ctor, why[:300]))
        else:
            rep.check(ok, "C05-R8", key, where, "FilterAtom::%s(expr, not_op present)" % ctor, why)
    sel = tables.select(arms, ("v", "comp_expr", []))
    if len(sel) == 1:
        b = arms[sel[0][0]][2]
        good = any(x.k == "call" and x.a[0] == M + "FilterAtom::cmp" for x in subterms(b)) and any(
            x.k == "call" and x.a[0] == "crate::parser::comp_expr" for x in subterms(b))
        rep.check(good, "C05-R8", "filter_atom/comp_expr", where, "FilterAtom::cmp(comp_expr(..))", "arm is `%s`" % b)
    else:
        rep.unrecognised("C05-R8", "filter_atom/comp_expr", where, "no unique arm")
    # constructors keep their arguments
    for ctor, variant in (("filter", "Filter"), ("test", "Test")):
        p = prog.inherent_method(M + "FilterAtom", ctor)
        ct = ev.summary(p)
        good = ct.k == "adt" and ct.a[1] == variant and dict(ct.a[2]).get("not") == Tm("param", (1, "not")) \
            and dict(ct.a[2]).get("expr") is not None and dict(ct.a[2])["expr"].k == "param" and dict(ct.a[2])["expr"].a[0] == 0
        rep.check(good, "C05-R8", "FilterAtom::%s" % ctor, prog.loc_of(p), "%s{expr, not}" % variant, "constructor builds `%s`" % ct)


def _pair_component(ev, t, i, depth=0):
    """component i of a pair-valued term, through `?`, ok_or, Option/Result::map and conditionals; None if unreadable"""
    if depth > 10 or not isinstance(t, Tm):
        return None
    if t.k == "tuple" and i < len(t.a):
        return t.a[i]
    if t.k == "try":
        return _pair_component(ev, t.a[0], i, depth + 1)
    if t.k == "adt" and t.a[1] in ("Ok", "Some") and len(t.a[2]) == 1:
        return _pair_component(ev, t.a[2][0][1], i, depth + 1)
    if t.k == "proj" and str(t.a[1]).split(".")[0] in ("Option::Some", "Result::Ok"):
        return _pair_component(ev, t.a[0], i, depth + 1)
    if t.k == "call" and len(t.a) >= 2:
        m = t.a[0].rsplit("::", 1)[-1]
        if m in ("ok_or", "ok_or_else") and t.a[0].startswith("core::option::Option"):
            return _pair_component(ev, t.a[1], i, depth + 1)
        if m == "map" and len(t.a) == 3 and t.a[2].k in ("closure", "fnitem") and (t.a[0].startswith("core::option::Option") or t.a[0].startswith("core::result::Result")):
            seg = "Option::Some.0" if t.a[0].startswith("core::option") else "Result::Ok.0"
            return _pair_component(ev, ev.apply(t.a[2], [Tm("proj", (t.a[1], seg))]), i, depth + 1)
    if t.k == "call" and t.a[0] in ev.prog.bodies and ev.prog.items.get(t.a[0], {}).get("kind") in ("Fn", "AssocFn") and depth < 4:
        inner = ev.apply(Tm("fnitem", (t.a[0],)), list(t.a[1:]))
        if inner is not None and not (inner.k == "call" and inner.a[0] == t.a[0]):
            return _pair_component(ev, inner, i, depth + 1)
    if t.k == "match":
        outs = [_pair_component(ev, b, i, depth + 1) for _, _, b in t.a[1] if not (b.k == "adt" and b.a[1] in ("None", "Err"))]
        outs = [o for o in outs if o is not None]
        return outs[0] if len(outs) == 1 else None
    return None


def _flag_from_pair(ev, b, ctor):
    """the `not` argument of FilterAtom::<ctor> when operand and flag come out of one pair-valued helper call"""
    want = M + "FilterAtom::" + ctor
    for x in subterms(b):
        if x.k == "call" and x.a[0] == want and len(x.a) == 3:
            e_, n_ = x.a[1], x.a[2]
            if e_.k == "field" and n_.k == "field" and e_.a[0] == n_.a[0] and str(e_.a[1]) == "0" and str(n_.a[1]) == "1":
                return _pair_component(ev, n_.a[0], 1)
    # `pair.map(|(expr, not)| FilterAtom::ctor(expr, not))`
    for x in subterms(b):
        if x.k == "call" and len(x.a) == 3 and x.a[2].k == "closure" and x.a[0].rsplit("::", 1)[-1] == "map":
            p_ = Tm("param", (86, "pair"))
            body = ev.apply(x.a[2], [p_])
            if body.k == "call" and body.a[0] == want and len(body.a) == 3 and body.a[1] == Tm("field", (p_, "0")) and body.a[2] == Tm("field", (p_, "1")):
                return _pair_component(ev, x.a[1], 1)
    return None


def _true_only_under_not_op(prog, fn):
    """every assignment of the literal `true` in fn sits under a test of the child's kind against Rule::not_op (a match arm
    with that pattern, or `kind == Rule::not_op`)"""
    def is_not_op(e):
        e = T.peel(e)
        return e.get("k") == "Adt" and e.get("variant") == "not_op"

    def guard_ok(cond):
        c = T.peel(cond)
        if c.get("k") == "Binary" and c.get("op") in ("Eq", "eq"):
            return is_not_op(c["l"]) or is_not_op(c["r"])
        if c.get("k") == "Call" and (c.get("fn") or "").endswith("::eq") and len(c.get("args") or []) == 2:
            return any(is_not_op(a) for a in c["args"])          # derived PartialEq of the Rule enum
        if c.get("k") == "Call" and (c.get("fn") or "").endswith("matches") is False:
            return False
        return False
    found = [False]
    okall = [True]

    def walk(e, guarded):
        if not isinstance(e, dict):
            return
        k = e.get("k")
        if k == "Assign":
            r = T.peel(e["r"])
            if r.get("k") == "Lit" and str(r.get("value", r.get("v", ""))).lower() in ("true",):
                found[0] = True
                if not guarded:
                    okall[0] = False
        if k == "Match":
            walk(e["scrut"], guarded)
            for a in e["arms"]:
                pat = a["pat"]
                while pat.get("k") in ("Deref", "DerefPattern"):
                    pat = pat["sub"]
                g = guarded or (pat.get("k") == "Variant" and pat.get("variant") == "not_op")
                walk(a["body"], g)
            return
        if k == "If":
            walk(e["cond"], guarded)
            walk(e["then"], guarded or guard_ok(e["cond"]))
            if "else" in e:
                walk(e["else"], guarded)
            return
        for c in T.children(e):
            walk(c, guarded)
    walk(prog.bodies[fn]["thir"]["root"], False)
    return found[0] and okall[0]


def _not_set_under_not_op(prog, fa, rule):
    """In filter_atom's arm for `rule`, every `not = true` assignment sits in a match arm on Rule::not_op."""
    root = prog.bodies[fa]["thir"]["root"]
    found = False
    for m in T.walk(root):
        if m.get("k") != "Match":
            continue
        for a in m["arms"]:
            assigns = [x for x in T.walk(a["body"]) if x.get("k") == "Assign" and T.peel(x["l"]).get("k") == "Var"
                       and T.peel(x["l"])["var"]["name"] == "not" and T.peel(x["r"]).get("k") == "Lit"]
            direct = [x for x in assigns if not any(y is x for mm in T.walk(a["body"]) if mm.get("k") == "Match" and mm is not m for aa in mm["arms"] for y in T.walk(aa["body"]))]
            for x in direct:
                found = True
                if not (a["pat"].get("k") == "Variant" and a["pat"].get("variant") == "not_op"):
                    return False
    return found
