"""C15 -- evaluation depends only on the Queryable view of the data (parametricity)."""
import re
from vflib import census, thir as T
from vflib.terms import Evaluator, Tm, subterms
from rules import shared

META = {
    "level": "other",
    "explanation": (
        "Decided by parametricity on the resolved program: R1 every body reachable from js_path_process (outside "
        "`impl Queryable for <concrete>`) names no concrete data type anywhere (locals, expression types, callee "
        "generic arguments); R2 no reflection (type_name/TypeId/Any/size_of/transmute) and no unsafe, so a body generic "
        "in T: Queryable can observe a document only through the trait and its declared supertraits; R3 census of "
        "which supertrait capabilities of T are used and where (Default/From<Vec>/From<String> expected 0, "
        "conversions into T only from bool/i64/f64/&str, Debug only inside formatting impls); R4 census of places "
        "where T's own PartialEq decides a result (today 2, known finding D-04b); R5 every node->number conversion "
        "consults as_f64 AND as_i64 of the same node. Not decided: that two faithful views give *equal values* where "
        "R4's PartialEq sites are involved (value-level, data type's own equality)."),
    "trusted_base": ["rustc nightly (types of every local/expression, resolved callees)", "vf driver + rules"],
    "assumptions": ["safe Rust generic code is parametric (no specialization feature; checked: crate uses none)"],
    "not_decided": ["equality of results across faithful views where T: PartialEq decides (D-04b)"],
}
META["explanation"] += ' R6 from the exported entry points down only get/as_*/null/extension_custom are called on the trait (never a defaulted hook such as reference()), and nothing sorts, reverses or de-duplicates what as_array()/as_object() answer.'

QT = "crate::query::queryable::Queryable"


def run(ctx, rep):
    prog = ctx.prog
    ev = Evaluator(prog)
    evalr, foreign = prog.evaluator()
    evalr = sorted(evalr)
    rep.extra["evaluator_bodies"] = len(evalr)
    r1(prog, evalr, rep)
    r2(ctx, prog, evalr, rep)
    r3(ctx, prog, evalr, rep)
    r4(ctx, prog, evalr, rep)
    r5(ctx, prog, ev, evalr, rep)
    r6(ctx, prog, evalr, rep)
    from vflib.report import Shared
    from rules import c04
    c04.r8(prog, ev, Shared(rep, {"C04-R8": "C15-R7"}, lender="C04"))
    if ctx.tier == "thorough":
        from vflib import witness
        witness.report(rep, "C15-W", ['W4'], "witness: the engine instantiates at a second Queryable implementor defined outside the crate")


def concrete_types(prog):
    out = set()
    for it in prog.items.values():
        if it.get("impl_trait") == QT and it.get("impl_self") and it["impl_self"] != "T":
            out.add(it["impl_self"])
    return sorted(out)


def r1(prog, evalr, rep):
    rep.rule("C15-R1", "genericity: no evaluator body names a concrete Queryable implementor (serde_json::Value or any "
             "other) in a local, an expression type or a callee's generic arguments; bodies handling data are generic "
             "in a type parameter bounded by Queryable", floor=100)
    conc = concrete_types(prog)
    rep.extra["concrete_implementors"] = conc
    if not conc:
        rep.unrecognised("C15-R1", "implementors", "-", "no concrete `impl Queryable for X` found")
    pat = re.compile("|".join(re.escape(c) for c in conc) + r"|serde_json::") if conc else re.compile(r"serde_json::")
    for p in evalr:
        b = prog.bodies[p]
        bad = None
        mir = b.get("mir")
        if mir:
            for l in mir["locals"]:
                if pat.search(l["ty"]):
                    bad = "local of type `%s`" % l["ty"]
                    break
        if not bad:
            for x in T.walk(b["thir"]["root"]):
                if pat.search(x.get("ty") or ""):
                    bad = "expression of type `%s` at %s" % (x["ty"], T.loc(x)); break
                if x.get("k") in ("Call", "Zst"):
                    for g in (x.get("gargs") or []) + [x.get("res") or "", x.get("fn") or ""]:
                        if pat.search(g):
                            bad = "callee `%s` instantiated with / resolved to `%s` at %s" % (x.get("fn"), g, T.loc(x)); break
                    if bad:
                        break
        rep.check(bad is None, "C15-R1", p, prog.loc_of(p), "names no concrete data type",
                  "evaluator body mentions a concrete data type: %s" % bad)
    # evaluator functions whose signature mentions the crate's data carriers must be generic over the data type
    for p in evalr:
        it = prog.items.get(p)
        if not it or it["kind"] not in ("Fn", "AssocFn"):
            continue
        sig = it.get("sig_s", "")
        if re.search(r"crate::query::state::(State|Data|Pointer)<|crate::query::QueryRef<", sig):
            gens = [g["name"] for g in it["generics"]["params"] if g["kind"] == "type"]
            bounded = [pr for pr in it["generics"]["preds"] if QT in pr]
            rep.check(bool(gens) and bool(bounded), "C15-R1", p + "/generic", prog.loc_of(p), "generic in T: Queryable",
                      "function over evaluation state is not generic in a `T: Queryable`: %s" % sig)


def r2(ctx, prog, evalr, rep):
    rep.rule("C15-R2", "no reflection / type-directed behaviour: zero calls of type_name, TypeId, Any/downcast, "
             "size_of/align_of/needs_drop, transmute in the whole crate; no `dyn Any` type; no unsafe; no specialization")
    reach, _ = prog.reach(prog.public_entry_points())
    bodies = sorted(reach | set(evalr))
    hits, n = census.scan_calls(prog, bodies, census.REFLECTION)
    for lab, p, node, name in hits:
        rep.bad("C15-R2", "%s|%s|%s" % (prog.owner_fn(p), lab, name), T.loc(node),
                "reflection `%s` (%s) in `%s` lets generic code behave differently per data type" % (name, lab, p))
    rep.ok("C15-R2", "reflection-census", "-", "%d call sites in %d bodies" % (n, len(bodies)))
    th, _ = census.scan_types(prog, bodies, r"dyn core::any::Any|core::any::TypeId")
    for p, ty in th:
        rep.bad("C15-R2", "%s|type:Any" % prog.owner_fn(p), prog.loc_of(p), "type `%s` used in `%s`" % (ty, p))
    for kind, p, where in census.unsafe_sites(prog):
        rep.bad("C15-R2", "%s:%s" % (kind, p), where, "`unsafe` voids the parametricity argument")
    rep.ok("C15-R2", "no-unsafe", "-", "0 unsafe blocks/fns/impls")
    feats = [a for a in prog.db.get("crate_attrs", []) if "specialization" in a]
    rep.check(not feats, "C15-R2", "no-specialization", "src/lib.rs", "no #![feature(specialization)]", "specialization enabled: %s" % feats)
    fx = ctx.fixture
    fh, _ = census.scan_calls(fx, list(fx.bodies.keys()), census.REFLECTION)
    labs = {h[0] for h in fh}
    for lab in ("type-name", "type-id", "layout", "transmute"):
        rep.control("C15-R2", lab in labs, "fixture reflection class `%s`" % lab)
    rep.control("C15-R2", len(census.unsafe_sites(fx)) >= 2, "fixture unsafe block + unsafe fn")


INTO_OK_SOURCES = {"bool", "i64", "f64", "&str", "&'a str", "&'static str"}


def _self_is_T(x):
    g = x.get("gargs") or []
    return bool(g) and g[0] == "T"


def r3(ctx, prog, evalr, rep):
    rep.rule("C15-R3", "census of what the evaluator uses of T beyond the accessors: Default/From<Vec<T>>/From<String> "
             "never; conversions into T only from bool, i64, f64, &str (literals and function results); T::null() for "
             "null; Debug of T only inside Display/Debug/error-formatting impls", floor=6)
    n_into = 0
    for p in evalr:
        b = prog.bodies[p]
        for x in T.walk(b["thir"]["root"]):
            if x.get("k") not in ("Call", "Zst"):
                continue
            fn = x.get("fn") or ""
            g = x.get("gargs") or []
            where = T.loc(x)
            if fn == "core::default::Default::default" and _self_is_T(x):
                rep.bad("C15-R3", "%s|Default<T>" % prog.owner_fn(p), where,
                        "`T::default()` used: the trait promises nothing about what the default value is (null must come from T::null())")
            if fn in ("core::option::Option::<T>::unwrap_or_default", "core::result::Result::<T, E>::unwrap_or_default",
                      "core::mem::take") and g and g[0] == "T":
                rep.bad("C15-R3", "%s|Default<T>" % prog.owner_fn(p), where, "`%s` on a T relies on T: Default" % fn)
            if fn in ("core::convert::Into::into", "core::convert::From::from"):
                src, dst = (g + ["", ""])[:2]
                if fn.endswith("From::from"):
                    src, dst = dst, src
                if dst == "T":
                    n_into += 1
                    src_n = re.sub(r"'\w+ ", "", src)
                    if src_n in ("bool", "i64", "f64", "&str"):
                        rep.ok("C15-R3", "%s|Into<T> from %s" % (prog.owner_fn(p), src_n), where, "literal/function result enters the data model")
                    else:
                        rep.bad("C15-R3", "%s|Into<T> from %s" % (prog.owner_fn(p), src_n), where,
                                "conversion `%s -> T` is not one of the four literal conversions (bool,i64,f64,&str)" % src)
            if fn == "core::fmt::rt::Argument::<'_>::new_debug" and g and re.fullmatch(r"&?T", g[0].replace("'a ", "")):
                owner = prog.items.get(prog.owner_fn(p), {})
                okctx = owner.get("impl_trait") in ("core::fmt::Display", "core::fmt::Debug") or \
                    (owner.get("impl_trait") == "core::convert::From" and "JsonPathError" in (owner.get("impl_self") or ""))
                rep.check(okctx, "C15-R3", "%s|Debug<T>" % prog.owner_fn(p), where, "Debug of T inside a formatting impl",
                          "Debug rendering of a T outside a formatting impl: its text could steer evaluation")
    # null
    nulls = [(p, x) for p in evalr for x in T.walk(prog.bodies[p]["thir"]["root"])
             if x.get("k") == "Call" and x.get("fn") == QT + "::null"]
    for p, x in nulls:
        rep.ok("C15-R3", "%s|T::null" % prog.owner_fn(p), T.loc(x), "null through the trait")
    rep.extra["into_T_sites"] = n_into
    # Debug-of-T sites also exist in error formatting (outside the evaluator): scan whole crate for context rule
    fx = ctx.fixture
    ctl = False
    for p, b in fx.bodies.items():
        for x in T.walk(b["thir"]["root"]):
            if x.get("k") == "Call" and x.get("fn") == "core::default::Default::default" and _self_is_T(x):
                ctl = True
    rep.control("C15-R3", ctl, "fixture `T::default()`")


def _mentions_T(g):
    return re.search(r"(^|[^\w:])T($|[^\w:])", g) is not None


def r4(ctx, prog, evalr, rep):
    rep.rule("C15-R4", "places where the data type's own PartialEq (not its accessor view) decides a result; each is a "
             "point where two faithful views may disagree ([1] == [1.0])")
    n = 0
    for p in evalr:
        if prog.is_expansion(prog.owner_fn(p)):
            continue
        for x in T.walk(prog.bodies[p]["thir"]["root"]):
            if x.get("k") != "Call" or x.get("fn") not in ("core::cmp::PartialEq::eq", "core::cmp::PartialEq::ne"):
                continue
            g = x.get("gargs") or []
            if any(_mentions_T(a) for a in g):
                n += 1
                kind = "T" if re.fullmatch(r"&*(?:'\w+ )?T", g[0]) else re.sub(r"'\w+,? ?", "", g[0])
                if _in_refs_arm(prog.bodies[p]["thir"]["root"], x) and _refs_dead(prog):
                    rep.ok("C15-R4", "%s|PartialEq<%s>" % (prog.owner_fn(p), kind), T.loc(x),
                           "dead arm: only reachable when a comparable evaluates to a node list (Data::Refs), which "
                           "C04-R5 (re-checked in this run) shows cannot be constructed")
                    continue
                from rules import c04
                if kind == "T" and T.loc(x) in c04.partial_eq_discharged(prog, Evaluator(prog)):
                    rep.ok("C15-R4", "%s|PartialEq<%s>" % (shared.rk(prog, Evaluator(prog), prog.owner_fn(p)), kind), T.loc(x),
                           "residual comparison: numbers, arrays and objects are compared through the Queryable view before it "
                           "(C04-R6, re-evaluated in this run); what is left are strings, booleans, null and mixed kinds")
                    continue
                if kind == "T" and c04.partial_eq_unreadable(prog, Evaluator(prog)):
                    rep.unrecognised("C15-R4", "%s|PartialEq<%s>" % (shared.rk(prog, Evaluator(prog), prog.owner_fn(p)), kind), T.loc(x),
                                     "`==` on `%s`: whether it is only the residual comparison (after numbers, arrays and objects were compared through "
                                     "the Queryable view) could not be established, because C04-R6 could not read one of those branches" % g[0])
                    continue
                rep.bad("C15-R4", "%s|PartialEq<%s>" % (shared.rk(prog, Evaluator(prog), prog.owner_fn(p)), kind), T.loc(x),
                        "`==` on `%s` delegates to the data type's own PartialEq: the result does not depend only on the "
                        "Queryable view" % g[0])
    rep.ok("C15-R4", "partial-eq-census", "-", "%d sites found in %d evaluator bodies" % (n, len(evalr)))


_REFS_DEAD = {}


def _refs_dead(prog):
    if id(prog) not in _REFS_DEAD:
        from rules import c04
        _REFS_DEAD[id(prog)] = c04.comparables_never_refs(prog, Evaluator(prog))
    return _REFS_DEAD[id(prog)]


def _pat_mentions_variant(p, name):
    if p.get("k") == "Variant" and p.get("variant") == name:
        return True
    for key in ("sub", "slice"):
        if p.get(key) and _pat_mentions_variant(p[key], name):
            return True
    for key in ("pats", "prefix", "suffix"):
        for q in p.get(key) or []:
            if _pat_mentions_variant(q, name):
                return True
    for f in p.get("fields") or []:
        if _pat_mentions_variant(f["pat"], name):
            return True
    return False


def _in_refs_arm(root, node):
    """Is `node` inside a match arm whose pattern requires a Data::Refs operand?"""
    for m in T.walk(root):
        if m.get("k") != "Match":
            continue
        for a in m["arms"]:
            if _pat_mentions_variant(a["pat"], "Refs") and any(y is node for y in T.walk(a["body"])):
                return True
    return False


def r5(ctx, prog, ev, evalr, rep):
    rep.rule("C15-R5", "both numeric accessors are consulted at every node->number conversion: each as_f64(x) is "
             "`as_f64(x).or_else(|| as_i64(x).map(..as f64))` (or the mirrored form) on the same x", floor=1)
    f64n, i64n = QT + "::as_f64", QT + "::as_i64"
    seen_i64 = 0
    for p in evalr:
        if "::{closure#" in p:
            continue  # closures are inlined by the term evaluator where they are called / passed
        for fam in prog.family(p):
            pass
    # work on summaries of top-level evaluator functions + their closures applied symbolically
    tops = [p for p in evalr]
    checked = set()
    for p in tops:
        b = prog.bodies[p]
        for x in T.walk(b["thir"]["root"]):
            if x.get("k") == "Call" and x.get("fn") == f64n:
                key = "%s|as_f64@%s" % (prog.owner_fn(p), _arg_text(x))
                # find the enclosing or_else / or in the same body
                good, why = _paired(prog, ev, p, x)
                k2 = key
                i = 2
                while k2 in checked:
                    k2 = "%s#%d" % (key, i); i += 1
                checked.add(k2)
                rep.check(good, "C15-R5", k2, T.loc(x), "as_f64 with as_i64 fallback on the same node", why)
            if x.get("k") == "Call" and x.get("fn") == i64n:
                seen_i64 += 1
    # every as_i64 must be one of those fallbacks (or the mirrored primary with as_f64 fallback)
    rep.extra["as_i64_sites"] = seen_i64
    n_f = sum(1 for k in checked)
    if seen_i64 != n_f:
        rep.bad("C15-R5", "pairing-count", "-", "%d as_f64 sites but %d as_i64 sites: some conversion consults only one accessor" % (n_f, seen_i64))


def _arg_text(x):
    return T.pp(x["args"][0]) if x.get("args") else "?"


def _paired(prog, ev, body, f64call):
    """Is this as_f64(x) call the receiver of Option::or_else/or whose alternative calls as_i64 on the same x?"""
    root = prog.bodies[body]["thir"]["root"]
    target_arg = T.pp(T.peel(f64call["args"][0]))
    for x in T.walk(root):
        if x.get("k") != "Call":
            continue
        fn = x.get("fn") or ""
        if fn not in ("core::option::Option::<T>::or_else", "core::option::Option::<T>::or") or len(x["args"]) != 2:
            continue
        if T.peel(x["args"][0]) is not f64call and T.strip(x["args"][0]) is not f64call:
            continue
        alt = T.peel(x["args"][1])
        nodes = []
        if alt.get("k") == "Closure":
            cb = prog.bodies.get(alt["def"])
            if cb:
                nodes = list(T.walk(cb["thir"]["root"]))
        else:
            nodes = list(T.walk(alt))
        for y in nodes:
            if y.get("k") == "Call" and y.get("fn") == QT + "::as_i64":
                a = T.pp(T.peel(y["args"][0])).lstrip("^")
                if a == target_arg.lstrip("^"):
                    return True, ""
                return False, "fallback consults as_i64 of `%s`, not of `%s`" % (a, target_arg)
        return False, "the alternative of or_else/or never calls as_i64"
    return False, "as_f64(%s) has no or_else/or fallback to as_i64: a view that answers integers only through as_i64 is mis-read" % target_arg


# ------------------------------------------------------------------------------------------- R6
CORE_ACCESSORS = {"get", "as_array", "as_object", "as_str", "as_i64", "as_f64", "as_bool", "null", "extension_custom"}


def r6(ctx, prog, evalr, rep):
    rep.rule("C15-R6", "the engine observes a document only through the trait's core accessors and uses their answers as given: from "
             "the exported query entry points down, the only Queryable methods called are get / as_* / null / extension_custom "
             "(never an optional, defaulted hook such as reference(), whose default differs from what implementors override), "
             "and nothing re-orders or de-duplicates what as_array()/as_object() return (member order is the implementor's answer)",
             floor=2)
    QT = "crate::query::queryable::Queryable::"
    entry = [p for p in ("crate::query::js_path", "crate::query::js_path_process", "crate::query::js_path_vals", "crate::query::js_path_path") if p in prog.bodies]
    conc = set(prog.concrete_view_bodies())
    reach, foreign = prog.reach(entry, stop=lambda p: p in conc)
    seen = {}
    for name, sites in foreign.items():
        if name.startswith(QT):
            seen[name[len(QT):]] = sites
    # provided (defaulted) trait methods have a body in the crate: they show up in the reach itself
    for name in reach:
        if name.startswith(QT) and "::{closure" not in name and name[len(QT):] not in seen:
            callers = [(b, n) for b in reach for (callee, n) in prog.edges().get(b, []) if callee == name]
            seen[name[len(QT):]] = callers or [(name, prog.bodies[name]["thir"]["root"])]
    # unresolved trait calls inside reach that resolve to local impl methods are recorded under the trait path by the driver
    for m, sites in sorted(seen.items()):
        if m in CORE_ACCESSORS:
            continue
        body, node = sites[0]
        rep.bad("C15-R6", "%s|Queryable::%s" % (prog.owner_fn(body), m), T.loc(node),
                "the engine calls `Queryable::%s`, a hook outside the core accessors: implementations that keep the trait's default behave "
                "differently from those that override it (serde_json::Value does), so one query means different things for different document types" % m)
    rep.ok("C15-R6", "accessor-census", "-", "Queryable methods called from the entry points: %s" % sorted(seen))
    hits, n = census.scan_calls(prog, sorted(evalr), census.ORDER_CHANGING)
    for lab, p, node, name in hits:
        if lab == "rev":
            from rules import c02
            if not c02.carries_nodes(node):
                continue
        if lab in ("sort", "dedup", "rev", "reverse", "shuffle", "unordered-collections"):
            rep.bad("C15-R6", "%s|%s|%s" % (prog.owner_fn(p), lab, name.rsplit("::", 1)[1]), T.loc(node),
                    "`%s` in `%s`: the engine imposes its own order/multiplicity on what the trait answered (a document type whose "
                    "as_object() is not name-sorted gets different results from equivalent queries)" % (name, p))
    rep.ok("C15-R6", "order-census", "-", "%d call sites examined" % n)
