"""C10 -- length, count, value, match and search behave as RFC 9535 defines."""
import re
from vflib import thir as T, tables
from vflib.terms import Evaluator, Tm, subterms, subst
from spec import tables as SPEC
from rules.c04 import leaves_with, expand_closures
from rules import shared

META = {
    "level": "other",
    "explanation": (
        "Table and shape rules on the resolved program. R1 name/arity -> variant (TestFunction::try_new) composed with "
        "variant -> implementation and operand order (TestFunction::apply) equals RFC 9535 2.4. R2 length: string -> "
        "chars().count() (Unicode scalar values, never byte length), array/object -> element/member count, other -> "
        "nothing. R3 count: node list -> len, single node -> 1, empty -> 0. R4 match vs search: the flag value used by "
        "Match yields a whole-string match (pattern wrapped unconditionally as ^(?:p)$), the one used by Search an "
        "unanchored search. R5 pattern taint: nothing but the anchoring wrapper touches the pattern between the "
        "argument and Regex::new. R6 invalid pattern / non-string operands -> false. R7 value: single node -> that "
        "node, otherwise nothing. R8 result-kind tables (logical vs comparable) are complementary and logical = "
        "{match, search, extension}. Not decided: the regex crate's dialect vs I-Regexp (dependency semantics)."),
    "trusted_base": ["rustc nightly THIR", "vf driver + rules", "spec/tables.py (RFC 9535 2.4)", "regex crate semantics of find/is_match"],
    "assumptions": ["regex::Regex::{new,is_match,find} as documented"],
    "not_decided": ["I-Regexp vs regex-crate dialect differences"],
}
META["explanation"] += ' R9 `Regex::new` is only called inside the regex implementation (not while parsing).'

Q = "crate::query::Query"
M = "crate::parser::model::"
TF = M + "TestFunction"
STATE = "crate::query::state::State::<'a, T>::"
QT = "crate::query::queryable::Queryable"
EXPECT_VARIANT = {"length": "Length", "count": "Count", "value": "Value", "match": "Match", "search": "Search"}


def run(ctx, rep):
    prog = ctx.prog
    ev = Evaluator(prog)
    name2var = r1_try_new(prog, ev, rep)
    impl = r1_apply(prog, ev, rep)
    if impl:
        if "Length" in impl:
            r2(prog, ev, rep, impl["Length"][0])
        if "Count" in impl:
            r3(prog, ev, rep, impl["Count"][0])
        if "Match" in impl and "Search" in impl:
            r4_r5_r6(prog, ev, rep, impl["Match"], impl["Search"])
        if "Value" in impl:
            r7(prog, ev, rep, impl["Value"][0])
    r8(prog, ev, rep)
    r9(prog, ev, rep, impl)
    from rules import shared
    shared.slot_verbatim(ctx, rep, "C10-R10", ["Literal::String"],
                         "a pattern or subject written as a literal reaches match()/search() (which prepare the pattern text themselves) "
                         "in another form than written, e.g. un-escaped twice")


def _strip_validation(prog, t):
    """args[i] possibly wrapped in `?` and a local validation function taking it as first argument."""
    while True:
        if t.k == "try":
            t = t.a[0]
        elif t.k == "call" and t.a[0] in prog.bodies and len(t.a) >= 2:
            t = t.a[1]
        elif t.k == "call" and len(t.a) == 2 and t.a[0].rsplit("::", 1)[-1] in ("cloned", "copied", "clone") and \
                (t.a[0].startswith("core::result::Result") or t.a[0].startswith("core::option::Option") or t.a[0].endswith("Clone>::clone")):
            t = t.a[1]
        else:
            return t


def r1_try_new(prog, ev, rep):
    rep.rule("C10-R1", "function tables: (name, arity) -> variant with operands in written order (try_new); variant -> "
             "implementation with operands in order (apply); other arities of the five RFC names are rejected", floor=5 * 4 + 6)
    p = prog.inherent_method(TF, "try_new")
    t = ev.summary(p)
    where = prog.loc_of(p)
    out = {}
    if t.k != "match" or t.a[0].k != "tuple":
        rep.unrecognised("C10-R1", "try_new", where, "not a match on (name, args): %s" % t)
        return out
    arms = t.a[1]
    argv = t.a[0].a[1]
    for name, (params, _res) in SPEC.FUNCTIONS.items():
        for n in range(0, 4):
            sel = tables.select(arms, ("t", [("s", name), ("sl", n)]))
            key = "try_new/%s/%d" % (name, n)
            if len(sel) != 1 or sel[0][1] != "definite":
                rep.unrecognised("C10-R1", key, where, "arm selection not unique: %s" % sel)
                continue
            body = arms[sel[0][0]][2]
            if n != len(params):
                good = body.k == "adt" and body.a[1] == "Err"
                rep.check(good, "C10-R1", key, where, "rejected", "`%s` with %d argument(s) is accepted: %s" % (name, n, body))
                continue
            inner = body.a[2][0][1] if body.k == "adt" and body.a[1] == "Ok" else None
            if inner is None and body.k == "call" and body.a[0] == "core::result::Result::<T, E>::map" and len(body.a) == 3 and body.a[2].k in ("fnitem", "closure"):
                # `r.map(TestFunction::Variant)` as the returned value is `Ok(Variant(r?))`
                inner = ev.apply(body.a[2], [Tm("try", (body.a[1],))])
            if inner is not None and inner.k == "call" and inner.a[0].startswith(TF + "::") and len(inner.a) >= 2:
                vn_ = inner.a[0].rsplit("::", 1)[1]
                inner = Tm("adt", (TF, vn_, tuple((str(i_), a_) for i_, a_ in enumerate(inner.a[1:]))), inner.n)   # tuple-variant constructor used as a function
            if inner is None or inner.k != "adt" or inner.a[0] != TF:
                rep.bad("C10-R1", key, where, "`%s/%d` does not build a TestFunction: %s" % (name, n, body))
                continue
            want = EXPECT_VARIANT[name]
            fields = [_strip_validation(prog, v) for _, v in inner.a[2]]
            inorder = len(fields) == n and all(f.k == "index" and f.a[1] == Tm("lit", ("int", str(i))) for i, f in enumerate(fields))
            rep.check(inner.a[1] == want and inorder, "C10-R1", key, where, "%s -> TestFunction::%s(args in order)" % (name, want),
                      "`%s` builds TestFunction::%s with operands %s" % (name, inner.a[1], [str(f) for f in fields]))
            out[name] = inner.a[1]
    # an unknown name goes to the extension hook with all its arguments
    sel = tables.select(arms, ("t", [("s*",), ("sl", 2)]))
    if len(sel) == 1:
        body = arms[sel[0][0]][2]
        inner = body.a[2][0][1] if body.k == "adt" and body.a[1] == "Ok" else None
        good = inner is not None and inner.k == "adt" and inner.a[1] == "Custom"
        rep.check(good, "C10-R1", "try_new/<other>", where, "Custom(name, args)", "unknown names build `%s`" % body)
    return out


def r1_apply(prog, ev, rep):
    p = prog.inherent_method(TF, "apply")
    t = ev.summary(p)
    where = prog.loc_of(p)
    if t.k != "match":
        rep.unrecognised("C10-R1", "apply", where, "not a match on the variant")
        return None
    argp = prog.impl_method(Q, M + "FnArg", "process")
    st = Tm("param", (1, "state"))
    impl = {}
    for vn, nf in tables.variants_of(prog, TF) or []:
        if vn == "Custom":
            continue
        sel = tables.select(t.a[1], ("v", vn, [tables.ANY] * nf))
        key = "apply/%s" % vn
        if len(sel) != 1 or sel[0][1] != "definite":
            rep.unrecognised("C10-R1", key, where, "no unique arm"); continue
        body = t.a[1][sel[0][0]][2]
        if body.k != "call" or body.a[0] not in prog.bodies:
            rep.unrecognised("C10-R1", key, where, "arm is not a call of a local function: %s" % body); continue
        ops = body.a[1:1 + nf]
        inorder = all(o == Tm("call", (argp, Tm("proj", (t.a[0], "TestFunction::%s.%d" % (vn, i))), st)) for i, o in enumerate(ops)) and len(ops) == nf
        rep.check(inorder, "C10-R1", key, where, "f(arg0.process(state), ...)", "operands of %s are not its arguments evaluated in written order: %s" % (vn, body))
        impl[vn] = (body.a[0], body.a[1 + nf:])
    return impl


# ------------------------------------------------------------------------------------------- R2
def _strip_cast(t):
    while t.k == "cast":
        t = t.a[1]
    return t


def r2(prog, ev, rep, fn):
    rep.rule("C10-R2", "length: string -> number of chars (Unicode scalar values), array -> elements, object -> members, "
             "anything else and an empty result -> nothing", floor=8)
    t = expand_closures(ev, ev.summary(fn))
    where = prog.loc_of(fn)
    if t.k != "match":
        rep.unrecognised("C10-R2", "length", where, "not a match on the argument's data"); return
    for vn, item in (("Ref", lambda sc: Tm("field", (Tm("proj", (sc, "Data::Ref.0")), "inner"))), ("Value", lambda sc: Tm("proj", (sc, "Data::Value.0")))):
        sel = tables.select(t.a[1], ("v", vn, [tables.ANY]))
        key = "length/%s" % vn
        if len(sel) != 1:
            rep.unrecognised("C10-R2", key, where, "no unique arm"); continue
        body = t.a[1][sel[0][0]][2]
        x = item(t.a[0])
        kinds = {}
        problems = []
        for leaf in leaves_with(body):
            if leaf.k == "call" and leaf.a[0] == STATE + "nothing":
                kinds["nothing"] = True; continue
            if leaf.k == "call" and leaf.a[0] == STATE + "i64":
                n = _strip_cast(leaf.a[1])
                kind = _length_kind(n, x)
                if kind is None:
                    problems.append("length computed as `%s`" % n)
                else:
                    kinds[kind] = True
                continue
            problems.append("result `%s`" % leaf)
        for k in ("string", "array", "object", "nothing"):
            if k not in kinds:
                problems.append("no `%s` case" % k)
        rep.check(not problems, "C10-R2", key, where, "chars().count() / as_array().len() / as_object().len() / nothing", "; ".join(problems))
        for k in kinds:
            rep.ok("C10-R2", key + "/" + k, where, k)
    sel = tables.select(t.a[1], ("v", "Nothing", []))
    good = len(sel) == 1 and t.a[1][sel[0][0]][2].k == "call" and t.a[1][sel[0][0]][2].a[0] == STATE + "nothing"
    rep.check(good, "C10-R2", "length/Nothing", where, "nothing", "length of an empty result is not nothing")


def _length_kind(n, x):
    if n.k != "call" or len(n.a) != 2:
        return None
    name = n.a[0]
    arg = n.a[1]
    some = lambda acc: Tm("proj", (Tm("call", (QT + "::" + acc, x)), "Option::Some.0"))
    if name.endswith("Iterator>::count") or name.endswith("Iterator::count"):
        if arg.k == "call" and arg.a[0] in ("core::str::<impl str>::chars", "core::str::<impl str>::char_indices") and arg.a[1] == some("as_str"):
            return "string"
        return None
    if name.endswith("::len"):
        if "str" in name and "Vec" not in name:
            return None          # byte length of a string
        if arg == some("as_array"):
            return "array"
        if arg == some("as_object"):
            return "object"
    return None


# ------------------------------------------------------------------------------------------- R3
def r3(prog, ev, rep, fn):
    rep.rule("C10-R3", "count: node list -> its length, single node -> 1, empty result -> 0", floor=3)
    from vflib.terms import distribute_call
    t = distribute_call(expand_closures(ev, ev.summary(fn)))
    where = prog.loc_of(fn)
    if t.k != "match":
        rep.unrecognised("C10-R3", "count", where, "not a match on the argument's data"); return

    def body_for(vn, nf):
        sel = tables.select(t.a[1], ("v", vn, [tables.ANY] * nf))
        return t.a[1][sel[0][0]][2] if len(sel) == 1 else None

    def i64_of(b):
        if b is not None and b.k == "call" and b.a[0] == STATE + "i64":
            return _strip_cast(b.a[1])
        return None

    b = i64_of(body_for("Refs", 1))
    good = b is not None and b.k == "call" and b.a[0].endswith("::len") and b.a[1] == Tm("proj", (t.a[0], "Data::Refs.0"))
    rep.check(good, "C10-R3", "%s|Refs" % fn, where, "len(nodes)", "count of a node list is `%s`" % body_for("Refs", 1))
    b = i64_of(body_for("Ref", 1))
    rep.check(b is not None and b.k == "lit" and b.a[1] == "1", "C10-R3", "%s|Ref" % fn, where, "1", "count of a single node is `%s`" % body_for("Ref", 1))
    raw = body_for("Nothing", 0)
    b = i64_of(raw)
    rep.check(b is not None and b.k == "lit" and b.a[1] == "0", "C10-R3", "%s|Nothing" % fn, where, "0",
              "count of an empty node list is `%s`, RFC 9535 requires the number 0 (so `count(..) == 0` can hold)" % raw)


# ------------------------------------------------------------------------------------------- R4 R5 R6
STR_PASSTHROUGH = ("::to_string", "::to_owned", "::clone", "::as_str", "::deref", "::borrow", "::as_ref", "::into", "::from", "::into_owned")


def r4_r5_r6(prog, ev, rep, match_impl, search_impl):
    rep.rule("C10-R4", "match vs search: under the flag value passed for Match the pattern is wrapped unconditionally for a "
             "whole-string match (^(?:p)$ or \\A(?:p)\\z) ; under Search's flag it is used unanchored", floor=2)
    rep.rule("C10-R5", "pattern taint: between the argument and Regex::new only the anchoring wrapper may touch the pattern "
             "(no replace/trim/case mapping)", floor=1)
    rep.rule("C10-R6", "failure is false: Regex::new's Err and non-string operands yield bool(false)", floor=2)
    fn_m, extra_m = match_impl
    fn_s, extra_s = search_impl
    if fn_m != fn_s or len(extra_m) != 1 or len(extra_s) != 1:
        rep.unrecognised("C10-R4", "dispatch", prog.loc_of(fn_m), "Match and Search are not one function distinguished by a constant flag")
        return
    fn = fn_m
    where = prog.loc_of(fn)
    it = prog.items[fn]
    flag_idx = 2
    flag = Tm("param", (flag_idx, _pname(prog, fn, flag_idx)))
    # inline local helpers reachable from fn so the pattern's whole journey is one term
    helpers = set()
    for fam in prog.family(fn):
        for n, _ in prog.callees(fam):
            if n in prog.bodies and "::{closure#" not in n and n.startswith("crate::query::") and prog.items[n]["kind"] == "Fn" \
                    and not n.startswith("crate::query::state::"):
                helpers.add(n)
    ev2 = Evaluator(prog, inline_local=helpers)
    t, trace, conds = ev2.traced(fn)
    news = [c for c in trace if c.k == "call" and c.a[0] == "regex::regex::string::Regex::new"]
    if len(news) != 1:
        rep.unrecognised("C10-R4", "Regex::new", where, "%d Regex::new sites" % len(news)); return
    pat_term = news[0].a[1]
    # the pattern argument (string view of the second operand)
    rhs = Tm("param", (1, _pname(prog, fn, 1)))
    lhs = Tm("param", (0, _pname(prog, fn, 0)))

    def reads(t_, who):
        return any(x.k == "call" and x.a[0] == QT + "::as_str" and _root_param(x.a[1]) == who for x in subterms(expand_closures(ev2, t_)))

    rep.check(reads(pat_term, rhs) and not reads(pat_term, lhs), "C10-R4", "pattern-operand", where, "pattern = second argument",
              "the regular expression is not taken from the second argument")
    # matcher per flag value
    all_taint = set()
    for variant, extra in (("Match", extra_m[0]), ("Search", extra_s[0])):
        if extra.k != "lit" or extra.a[0] != "bool":
            rep.unrecognised("C10-R4", variant, where, "flag is not a boolean constant"); continue
        pt = subst(pat_term, {flag: extra})
        shape, taint, conditional = pattern_shape(ev2, pt)
        want_whole = variant == "Match"
        key = "%s|%s" % (shared.rk(prog, ev, fn), variant)
        if conditional:
            rep.bad("C10-R4", key + "/anchoring", where,
                    "anchoring of the pattern is conditional on the pattern's own text (%s): a pattern such as `a|b` or one that "
                    "already starts with ^ escapes the whole-match wrapper" % conditional)
        elif want_whole:
            rep.check(shape in (("^(?:", ")$"), ("\\A(?:", ")\\z"), ("^(?:", ")\\z"), ("\\A(?:", ")$")), "C10-R4", key + "/anchoring", where, "^(?:p)$",
                      "for match() the pattern is wrapped as %s, not as a grouped whole-string anchor ^(?:p)$" % (shape,))
        else:
            rep.check(shape == ("", ""), "C10-R4", key + "/anchoring", where, "unanchored",
                      "for search() the pattern is wrapped as %s: search must be unanchored" % (shape,))
        for tn in taint:
            all_taint.add(tn)
    for tn in sorted(all_taint):
        rep.bad("C10-R5", "%s|%s" % (shared.rk(prog, ev, fn), tn), where,
                "the pattern is rewritten by `%s` before it reaches the regex engine" % tn)
    rep.ok("C10-R5", "census", where, "pattern journey examined for both flag values")
    # matcher: the closure applied to the compiled regex
    calls = {c.a[0].rsplit("::", 1)[1] for c in trace if c.k == "call" and c.a[0].startswith("regex::regex::string::Regex::") and c.a[0] != "regex::regex::string::Regex::new"}
    rep.check(calls <= {"find", "is_match"} and calls, "C10-R4", "matcher", where, "find / is_match",
              "matching uses %s" % sorted(calls))
    subj = [c for c in trace if c.k == "call" and c.a[0] in ("regex::regex::string::Regex::find", "regex::regex::string::Regex::is_match")]
    for c in subj:
        rep.check(reads(c.a[2], lhs) and not reads(c.a[2], rhs), "C10-R4", "subject-operand/%s" % c.a[0].rsplit("::", 1)[1], where,
                  "subject = first argument", "the subject string is not the first argument")
    # R6
    res_leaves = leaves_with(t)
    okdefault = False
    for x in subterms(t):
        if x.k == "call" and x.a[0].endswith("Result::<T, E>::unwrap_or") and any(y is news[0] or y == news[0] for y in subterms(x.a[1])):
            d = x.a[2]
            okdefault = d.k == "call" and d.a[0] == STATE + "bool" and d.a[1].k == "lit" and d.a[1].a[1] == "false"
        if x.k == "call" and x.a[0].endswith("Result::<T, E>::unwrap_or_default") and any(y == news[0] for y in subterms(x.a[1])):
            okdefault = False
    readable = okdefault or any(x.k == "call" and x.a[0].rsplit("::", 1)[-1].startswith("unwrap") for x in subterms(t))
    if not okdefault:
        # `match Regex::new(..) { Ok(re) => .., Err(_) / _ => bool(false) }`  (also what `let Ok(re) = .. else { return bool(false) }` becomes)
        for x in subterms(t):
            if x.k == "match" and (x.a[0] == news[0] or x.a[0] is news[0]):
                readable = True
                others = []
                for p_, g_, b_ in x.a[1]:
                    q = p_
                    while q.get("k") in ("Deref", "DerefPattern"):
                        q = q["sub"]
                    if not (q.get("k") == "Variant" and q.get("variant") == "Ok"):
                        others.append(b_)
                okdefault = bool(others) and all(d.k == "call" and d.a[0] == STATE + "bool" and d.a[1].k == "lit" and d.a[1].a[1] == "false" for d in others)
    if not okdefault and not readable:
        rep.unrecognised("C10-R6", "%s|invalid-pattern" % fn, where, "what happens when the pattern does not compile could not be read (expected "
                         "`.unwrap_or(bool(false))` or a match / let-else on Regex::new whose other arm is bool(false))")
    else:
        rep.check(okdefault, "C10-R6", "%s|invalid-pattern" % fn, where, "Err -> bool(false)", "an invalid pattern is not mapped to bool(false)")
    # non-string operands: the arm of the (to_str(lhs), to_str(rhs)) match other than (Some, Some)
    okother = False
    if t.k == "match":
        sel = tables.select(t.a[1], ("t", [("v", "None", []), ("v", "Some", [tables.ANY])]))
        sel2 = tables.select(t.a[1], ("t", [("v", "Some", [tables.ANY]), ("v", "None", [])]))
        def isfalse(s):
            if len(s) != 1:
                return False
            b = t.a[1][s[0][0]][2]
            return b.k == "call" and b.a[0] == STATE + "bool" and b.a[1].k == "lit" and b.a[1].a[1] == "false"
        okother = isfalse(sel) and isfalse(sel2)
    rep.check(okother, "C10-R6", "%s|non-string" % fn, where, "non-string operand -> bool(false)", "a non-string operand does not yield bool(false)")


def _root_param(t):
    while t.k in ("field", "proj"):
        t = t.a[0]
    return t


def _pname(prog, fn, i):
    pat = prog.params(fn)[i].get("pat") or {}
    while pat.get("k") in ("Deref", "DerefPattern"):
        pat = pat["sub"]
    return pat.get("name", "arg%d" % i)


def pattern_shape(ev, t):
    """-> ((prefix, suffix) | None, [tainting methods], conditional description | None)"""
    taint = []
    cond = []

    def go(x):
        """returns (prefix, suffix) wrapping of the raw pattern, or None if unknown"""
        if x.k == "if":
            # a surviving conditional: does it depend on the pattern text?
            c = x.a[0]
            dep = [y.a[0].rsplit("::", 1)[1] for y in subterms(c) if y.k == "call" and "<impl str>" in y.a[0]]
            a, b = go(x.a[1]), go(x.a[2])
            if a == b:
                return a
            d = "%s -> %s | %s" % (",".join(sorted(set(dep))) or "?", a, b)
            if d not in cond:
                cond.append(d)
            return a
        if x.k == "call" and x.a[0] == "<format>":
            pieces = x.a[1].a[1]
            pre, suf, seen = "", "", False
            inner = None
            for pc in pieces:
                if pc[0] == "lit":
                    if seen:
                        suf += pc[1]
                    else:
                        pre += pc[1]
                else:
                    seen = True
                    arg = x.a[2 + pc[1]]
                    inner = go(arg.a[1] if arg.k == "call" and arg.a[0].startswith("<fmtarg") else arg)
            if inner is None:
                return None
            return (pre + inner[0], inner[1] + suf)
        if x.k == "call":
            name = x.a[0]
            if name == QT + "::as_str":
                return ("", "")
            if any(name.endswith(s) for s in STR_PASSTHROUGH) and len(x.a) >= 2:
                return go(x.a[1])
            if name.startswith("core::option::Option::<T>::map") and len(x.a) == 3:
                # as_str(v).map(|s| s.to_string())
                return go(x.a[1])
            if name == QT + "::as_str":
                return ("", "")
            if "<impl str>" in name or name.startswith("alloc::string::String::") or name.startswith("alloc::str::"):
                taint.append(name.rsplit("::", 1)[1])
                return go(x.a[1])
            return None
        if x.k in ("proj", "field"):
            return go(x.a[0])
        if x.k == "match":
            # to_str: match s.data { Value(v) => .., Ref(p) => .. }: take the common shape of non-None arms
            shapes = []
            for p, g, b in x.a[1]:
                if b.k == "adt" and b.a[1] == "None":
                    continue
                shapes.append(go(b))
            shapes = [s for s in shapes if s is not None]
            if shapes and all(s == shapes[0] for s in shapes):
                return shapes[0]
            return None
        if x.k == "adt" and x.a[1] == "Some":
            return go(x.a[2][0][1])
        if x.k == "adt" and x.a[0] == "alloc::borrow::Cow" and len(x.a[2]) == 1:
            return go(x.a[2][0][1])         # Cow::Borrowed(s) / Cow::Owned(s): the same text
        return None

    shape = go(expand_closures(ev, t))
    return shape, sorted(set(taint)), ("; ".join(cond) if cond else None)


# ------------------------------------------------------------------------------------------- R7
def r7(prog, ev, rep, fn):
    rep.rule("C10-R7", "value: a single node (or value) -> itself; a node list of length 1 -> its element; otherwise nothing", floor=3)
    t = ev.summary(fn)
    where = prog.loc_of(fn)
    if t.k != "match":
        rep.unrecognised("C10-R7", "value", where, "not a match on the argument's data"); return
    st = Tm("param", (0, _pname(prog, fn, 0)))
    sel = tables.select(t.a[1], ("v", "Ref", [tables.ANY]))
    good = len(sel) == 1 and t.a[1][sel[0][0]][2] == st
    rep.check(good, "C10-R7", "value/Ref", where, "same node", "value() of a single node is not that node")
    sel = tables.select(t.a[1], ("v", "Nothing", []))
    good = len(sel) == 1 and t.a[1][sel[0][0]][2].k == "call" and t.a[1][sel[0][0]][2].a[0] == STATE + "nothing"
    rep.check(good, "C10-R7", "value/Nothing", where, "nothing", "value() of an empty list is not nothing")
    sel = tables.select(t.a[1], ("v", "Refs", [tables.ANY]))
    refs = Tm("proj", (t.a[0], "Data::Refs.0"))
    good = False
    why = "arms %s" % sel
    if len(sel) == 2 and sel[0][1] == "conditional":
        p, g, b = t.a[1][sel[0][0]]
        g_ok = g is not None and g.k == "bin" and g.a[0] == "Eq" and g.a[1].k == "call" and g.a[1].a[0].endswith("::len") and g.a[1].a[1] == refs \
            and g.a[2].k == "lit" and g.a[2].a[1] == "1"
        elem_ok = any(x.k == "call" and x.a[0].endswith("Index<I>>::index") and x.a[1] == refs and x.a[2].k == "lit" and x.a[2].a[1] == "0" for x in subterms(b)) \
            or any(x.k == "index" and x.a[0] == refs and x.a[1].k == "lit" and x.a[1].a[1] == "0" for x in subterms(b))
        other = t.a[1][sel[1][0]][2]
        other_ok = other.k == "call" and other.a[0] == STATE + "nothing"
        good = g_ok and elem_ok and other_ok
        why = "guard `%s`, element `%s`, otherwise `%s`" % (g, b, other)
    readable = len(sel) == 2 and sel[0][1] == "conditional"
    if len(sel) == 1 and sel[0][1] == "definite":
        # the unguarded form: Refs(items) => if items.len() == 1 { element 0 } else { nothing }
        b = t.a[1][sel[0][0]][2]
        if b.k == "if":
            readable = True
            g, th, other = b.a
            if g.k == "bin" and g.a[0] == "Ne":
                g, th, other = Tm("bin", ("Eq", g.a[1], g.a[2])), other, th
            g_ok = g.k == "bin" and g.a[0] == "Eq" and g.a[1].k == "call" and g.a[1].a[0].endswith("::len") and g.a[1].a[1] == refs \
                and g.a[2].k == "lit" and g.a[2].a[1] == "1"
            elem_ok = any(x.k == "call" and x.a[0].endswith("Index<I>>::index") and x.a[1] == refs and x.a[2].k == "lit" and x.a[2].a[1] == "0" for x in subterms(th)) \
                or any(x.k == "index" and x.a[0] == refs and x.a[1].k == "lit" and x.a[1].a[1] == "0" for x in subterms(th))
            other_ok = other.k == "call" and other.a[0] == STATE + "nothing"
            good = g_ok and elem_ok and other_ok
            why = "condition `%s`, element `%s`, otherwise `%s`" % (g, th, other)
    if not readable and len(sel) == 1 and sel[0][1] == "definite":
        # `match <[Pointer<T>; 1]>::try_from(items) { Ok([item]) => Ref(item), Err(_) => nothing }`: Ok exactly for one element
        b = t.a[1][sel[0][0]][2]
        if b.k == "match" and b.a[0].k == "call" and "TryFrom<alloc::vec::Vec" in b.a[0].a[0] and "[T; N]" in b.a[0].a[0] and len(b.a[0].a) == 2 \
                and b.a[0].a[1] == refs and len(b.a[1]) == 2:
            okarm = errarm = None
            for p_, g_, body_ in b.a[1]:
                q = p_
                while q.get("k") in ("Deref", "DerefPattern"):
                    q = q["sub"]
                if g_ is None and q.get("k") == "Variant" and q.get("variant") == "Ok" and q.get("fields"):
                    inner = q["fields"][0]["pat"]
                    if inner.get("k") in ("Array", "Slice") and len(inner.get("prefix") or []) == 1 and not inner.get("slice") and not inner.get("suffix"):
                        okarm = body_
                elif g_ is None and (q.get("k") == "Wild" or (q.get("k") == "Variant" and q.get("variant") == "Err")):
                    errarm = body_
            if okarm is not None and errarm is not None:
                readable = True
                elem_ok = okarm.k == "call" and okarm.a[0] == STATE + "data" and len(okarm.a) == 3 and okarm.a[2].k == "adt" and okarm.a[2].a[1] == "Ref" \
                    and any(y == b.a[0] for y in subterms(okarm.a[2].a[2][0][1]))
                other_ok = errarm.k == "call" and errarm.a[0] == STATE + "nothing"
                good = elem_ok and other_ok
                why = "one-element conversion: element `%s`, otherwise `%s`" % (okarm, errarm)
    if not readable:
        b = t.a[1][sel[0][0]][2] if sel else None
        rep.unrecognised("C10-R7", "value/Refs", where, "how value() treats a node list could not be read (expected `len == 1 -> element 0, else "
                         "nothing` as a guarded arm or a conditional): `%s`" % str(b)[:240])
    else:
        rep.check(good, "C10-R7", "value/Refs", where, "len == 1 -> element 0, else nothing", why)


# ------------------------------------------------------------------------------------------- R8
def r8(prog, ev, rep):
    rep.rule("C10-R8", "result kinds: for every TestFunction variant exactly one of `logical result` (Test::is_res_bool) and "
             "`comparable` (is_comparable) holds; logical = {Match, Search, Custom}", floor=6)
    pc = prog.inherent_method(TF, "is_comparable")
    pb = prog.inherent_method(M + "Test", "is_res_bool")
    tc = ev.summary(pc)
    tb = ev.summary(pb)
    # is_res_bool: match self { RelQuery => false, AbsQuery => false, Function(f) => match **f {...} }
    inner = None
    if tb.k == "match":
        for vn, want in (("RelQuery", "false"), ("AbsQuery", "false")):
            sel = tables.select(tb.a[1], ("v", vn, [tables.ANY]))
            good = len(sel) == 1 and tb.a[1][sel[0][0]][2].k == "lit" and tb.a[1][sel[0][0]][2].a[1] == want
            rep.check(good, "C10-R8", "is_res_bool/%s" % vn, prog.loc_of(pb), "a query used as a test is an existence test",
                      "Test::%s is treated as having a logical result" % vn)
        sel = tables.select(tb.a[1], ("v", "Function", [tables.ANY]))
        if len(sel) == 1:
            inner = tb.a[1][sel[0][0]][2]
    for vn, nf in tables.variants_of(prog, TF) or []:
        def const_for(t_):
            if t_ is None or t_.k != "match":
                return None
            sel = tables.select(t_.a[1], ("v", vn, [tables.ANY] * nf))
            if len(sel) == 1 and t_.a[1][sel[0][0]][2].k == "lit":
                return t_.a[1][sel[0][0]][2].a[1] == "true"
            return None
        c, b = const_for(tc), const_for(inner)
        key = "kinds/%s" % vn
        if c is None or b is None:
            rep.unrecognised("C10-R8", key, prog.loc_of(pc), "not constant per variant"); continue
        want_logical = vn in ("Match", "Search", "Custom")
        rep.check(b == want_logical and c == (not want_logical), "C10-R8", key, prog.loc_of(pc),
                  "logical" if want_logical else "value-typed",
                  "TestFunction::%s: logical=%s comparable=%s, expected logical=%s comparable=%s" % (vn, b, c, want_logical, not want_logical))


# ------------------------------------------------------------------------------------------- R9
def r9(prog, ev, rep, impl):
    rep.rule("C10-R9", "a pattern is only ever compiled where match()/search() are evaluated: `Regex::new` (and the builder API) is "
             "called from the regex implementation alone - in particular not while parsing, where a pattern that does not compile "
             "would turn `LogicalFalse` (RFC 9535 2.4.6/2.4.7) into a rejected query")
    rx_fns = set()
    for v in ("Match", "Search"):
        if impl and v in impl:
            rx_fns.update(prog.family(impl[v][0]))
    # helpers reachable only from the regex implementation count as part of it
    reach_rx, _ = prog.reach(sorted(rx_fns)) if rx_fns else (set(), {})
    n = 0
    for p in sorted(prog.bodies):
        if prog.is_expansion(p) or "::tests::" in p:
            continue
        for x in T.walk(prog.bodies[p]["thir"]["root"]):
            if x.get("k") == "Call" and re.search(r"^regex::.*(Regex|RegexBuilder|RegexSet)(::<.*>)?::(new|build|with_size_limit)$|^regex::.*::Regex::new$", x.get("fn") or ""):
                n += 1
                inside = p in reach_rx or prog.owner_fn(p) in reach_rx
                rep.check(inside, "C10-R9", "%s|Regex::new" % shared.rk(prog, ev, prog.owner_fn(p)), T.loc(x), "compiled inside the regex implementation",
                          "`%s` compiles a pattern outside the evaluation of match()/search(): a pattern that does not compile is then an error "
                          "of the whole query instead of `false` for that test" % prog.owner_fn(p))
    if n == 0:
        rep.unrecognised("C10-R9", "Regex::new", "-", "no call of Regex::new found")
