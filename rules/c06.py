"""C06 -- every valid RFC 9535 query is accepted by the parser."""
import json
import os
import re
from vflib import grammarmodel as GM, facts
from rules import grammar_common as G

META = {
    "level": "other",
    "explanation": (
        "Language inclusion L(RFC 9535 ABNF + I-JSON integer range) <= L(pest grammar with pest's implicit-whitespace semantics "
        "made explicit, filtered by the parser's post-checks whose defining facts are found in the code), decided exactly on the "
        "regular bodies between the three recursion knots (query, logical expression, function call) by automata: every "
        "RFC-only divergence is reported with the innermost grammar rule, the symbol class and a shortest witness string "
        "(R1). PEG ordered-choice hazards: every pair of prefix-comparable alternatives must be in the reasoned table in the "
        "listed order, also with each recursion knot unfolded once, and no alternative may be derived as a whole by an earlier one "
        "(R2). Typing: every well-typed call of the five functions is accepted by the function table (R3). No pest call limit (R4). "
        "Every validator call site is a filter on the span of the rule whose text it sees (pair typing), text gates are compiled "
        "to the texts they accept, and every other Err construction of the AST builder must be one a model reads (R5). Number literals: range checks leave "
        "the I-JSON integer range whole and never bound floats (R6). Not "
        "decided: parsing time; greedy-repetition hazards (FIRST/FOLLOW disjointness was confirmed by reading, not checked); "
        "integer literals in comparisons beyond +-(2^53-1)."),
    "trusted_base": ["pest_meta 2.9.1 (grammar parser)", "A7 model of pest_generator 2.9.1's implicit whitespace", "spec/rfc9535.abnf (self-checked on 226 strings)",
                     "pestfacts automata engine", "vf driver + rules"],
    "assumptions": ["the three knots carry all recursion of both grammars (checked: otherwise the converter refuses)"],
    "not_decided": ["PEG time complexity", "greedy repetition hazards", "integer literals in comparisons beyond +-(2^53-1) (RFC 9535 does not bound them; the library rejects them)"],
}

HAZ = os.path.join(facts.VERIF, "spec", "peg_hazards.json")


def run(ctx, rep):
    res = G.load(ctx)
    where = os.path.relpath(ctx.grammar.path, facts.REPO)
    rep.rule("C06-R1", "inclusion RFC <= impl at main/Q/L/F (modulo absorbed blank): no RFC-only divergence", floor=4)
    G.check_side_conditions(rep, "C06-R1", res, where)
    G.model_limits(rep, "C06-R1", res, where, "rfc<=impl")
    divs = GM.divergences(res)
    for cmp_ in [c for c in res["engine"]["compare"] if not c["id"].startswith("np:")]:
        n = sum(1 for d in cmp_["divergences"] if d["dir"] == "rfc-only")
        rep.ok("C06-R1", "compared:%s" % cmp_["id"], where, "%d x %d states, %d product states explored exhaustively, %d RFC-only divergence class(es)"
               % (cmp_["impl_states"], cmp_["rfc_states"], cmp_["product_states"], n))
    for k, d in sorted(divs.items()):
        if k[0] != "rfc-only":
            continue
        rep.bad("C06-R1", "div|%s|%s|%s" % k, where,
                "valid query rejected: `%s` (at `%s`, rule %s, symbol class %s)%s" % (
                    d["witness"], d["where"], k[1], k[2], (": " + G.hint(k)) if G.hint(k) else ""))
    rep.samples.extend({"rule": "C06-R1", "comparison": c["id"], "impl_states": c["impl_states"], "rfc_states": c["rfc_states"]} for c in res["engine"]["compare"] if not c["id"].startswith("np:"))
    rep.extra["filters_modelled"] = res["applied_filters"]
    r2(ctx, rep, res)
    # R3
    from rules import c07
    c07.typing(ctx, rep, only="C06-R3")
    r4(ctx, rep)
    r5(ctx, rep)
    r6(ctx, rep)


def r2(ctx, rep, res=None):
    """PEG ordered choice: prefix-comparable alternatives only in the reasoned order; no alternative shadowed as a whole"""
    if res is None:
        res = G.load(ctx)
    where = os.path.relpath(ctx.grammar.path, facts.REPO)
    rep.rule("C06-R2", "PEG ordered choice does not lose sentences: prefix-comparable alternatives only in the reasoned table's order", floor=4)
    table = {(h["rule"], h["first"], h["second"]) for h in json.load(open(HAZ))["safe"]}
    meta = {m["id"]: m for m in res["overlap_meta"]}
    npairs = 0
    for o in res["engine"]["overlap"]:
        npairs += 1
        if not o["overlap"]:
            continue
        m = meta[o["id"]]
        key = (m["rule"], m["first"], m["second"])
        if key not in table and (res.get("predicates_dropped") or "negpred" in key[1] + key[2] or "pospred" in key[1] + key[2]):
            # the model drops lookahead predicates it cannot express (over-approximation): a common prefix found then may not exist
            rep.unrecognised("C06-R2", "choice|%s|%s|%s" % key, where, "in rule `%s` the alternatives `%s` and `%s` may share a prefix (e.g. `%s`), but the "
                             "grammar uses a lookahead predicate the model over-approximates: the overlap may not be real" % (
                                 key[0], key[1], key[2], GM.show_witness(o["witness"] or [])))
            continue
        rep.check(key in table, "C06-R2", "choice|%s|%s|%s" % key, where, "listed hazard (safe in this order)",
                  "in rule `%s` the alternative `%s` is tried before `%s` and both can match a prefix of one input (e.g. `%s`): the "
                  "earlier one shadows sentences that need the later one" % (key[0], key[1], key[2], GM.show_witness(o["witness"] or [])))
    rep.extra["choice_pairs_examined"] = npairs
    dead_alternatives(ctx, rep, "C06-R2")


def r4(ctx, rep):
    """nothing bounds what the generated parser may consume"""
    from vflib import census, thir as T
    rep.rule("C06-R4", "no budget on valid queries: the crate never sets pest's global knobs (set_call_limit, set_error_detail): a call "
             "limit makes long but valid queries fail with `call limit reached`")
    prog = ctx.prog
    n = 0
    for p in sorted(prog.bodies):
        if prog.is_expansion(p) or "::tests::" in p:
            continue
        for x in T.walk(prog.bodies[p]["thir"]["root"]):
            if x.get("k") == "Call":
                n += 1
                if re.search(r"^pest::.*(set_call_limit|set_error_detail)$", x.get("fn") or ""):
                    rep.bad("C06-R4", "%s|%s" % (prog.owner_fn(p), x["fn"].rsplit("::", 1)[1]), T.loc(x),
                            "`%s` is called in `%s`: with a call limit a valid query that needs more parser steps (a long union, many segments, "
                            "a large filter) is rejected" % (x["fn"], prog.owner_fn(p)))
    rep.ok("C06-R4", "knob-census", "-", "%d call sites examined" % n)



def dead_alternatives(ctx, rep, rid, only_rule=None):
    """an alternative that an earlier alternative derives as a whole is never chosen (recursion-aware: looks through the
    knots, which the automata comparison treats as opaque symbols)"""
    where = os.path.relpath(ctx.grammar.path, facts.REPO)
    rep.control(rid, GM.dead_alternatives_control(), "a grammar with a shadowed alternative (a = b | c, b = \"!\"? ~ c ~ \" \"*) is reported")
    dead = GM.dead_alternatives(ctx.grammar.rules)
    nch = 0
    for rname, r in ctx.grammar.rules.items():
        if only_rule is None or rname == only_rule:
            nch += len(GM._choice_nodes(r["expr"]))
    for rname, first, second, path in dead:
        if only_rule is not None and rname != only_rule:
            continue
        rep.bad(rid, "dead|%s|%s|%s" % (rname, first, second), where,
                "in rule `%s` the alternative `%s` can never be chosen: the earlier alternative `%s` derives it as a whole (via %s), so every "
                "text `%s` matches is taken by `%s` first and is handed to the AST builder as a `%s`" % (
                    rname, second, first, " > ".join(path) or "itself", second, first, first))
    rep.ok(rid, "dead-alternatives%s" % (":" + only_rule if only_rule else ""), where, "%d ordered choice(s) examined, %d shadowed alternative(s)" % (
        nch, len([d for d in dead if only_rule is None or d[0] == only_rule])))


def r5(ctx, rep):
    """rejection census: every rejecting check of the AST builder is one that a model reads"""
    from vflib.parsermodel import rejection_census, ParserModel
    from rules import shared
    from vflib.terms import Evaluator
    prog = ctx.prog
    rep.rule("C06-R5", "rejection census: every construction of Err in the AST builder is either the catch-all arm of a dispatch on the "
             "rule kind, a validator recognised by its shape, or one of the checks that the grammar / typing comparison reads "
             "(spec/reject_sites.json): a rejecting check that no model reads may reject valid queries", floor=8)
    table = {e["fn"]: e for e in json.load(open(os.path.join(facts.VERIF, "spec", "reject_sites.json")))["sites"]}
    sites, nbodies = rejection_census(prog)
    pm = ParserModel(prog)
    ev = Evaluator(prog)
    shaped = {p for p, rs in pm.ctrl.items() if rs is not None} | set(shared.range_validators(prog, ev))
    per = {}
    nft = 0
    for s in sites:
        if s["kind"] == "fallthrough":
            nft += 1
            continue
        o = s["owner"]
        # a function nested in another one belongs to it
        while "::" in o and o.rsplit("::", 1)[0] in prog.bodies:
            o = o.rsplit("::", 1)[0]
        if s["fn"] in shaped or s["owner"] in shaped:
            rep.ok("C06-R5", "validator|%s" % shared.rk(prog, ev, s["fn"]), s["where"], "validator recognised by shape (modelled per call site)")
            continue
        per.setdefault(o, []).append(s)
    for o, lst in sorted(per.items()):
        exp = table.get(o)
        if exp is None:
            for s in lst:
                rep.unrecognised("C06-R5", "%s|unlisted-check" % shared.rk(prog, ev, o), s["where"],
                                 "`%s` rejects some of the texts the grammar accepted under a condition that no model reads: a valid "
                                 "query may be refused here" % o)
        elif len(lst) > exp["n"]:
            rep.unrecognised("C06-R5", "%s|extra-check" % shared.rk(prog, ev, o), lst[-1]["where"],
                             "`%s` holds %d rejecting checks, the models read %d (%s): an additional condition may refuse valid queries"
                             % (o, len(lst), exp["n"], exp["model"]))
        else:
            rep.ok("C06-R5", "%s|checks" % o, lst[0]["where"], "%d rejecting check(s), all read by: %s" % (len(lst), exp["model"]))
    rep.ok("C06-R5", "census", "-", "%d bodies walked, %d Err constructions (%d catch-all arms of rule dispatches)" % (nbodies, len(sites), nft))


def r6(ctx, rep):
    """number literals: the bounds check on integer literals accepts the whole I-JSON range; float literals are not bounded"""
    from rules import shared
    from vflib.terms import Evaluator, subterms
    prog = ctx.prog
    ev = Evaluator(prog)
    rep.rule("C06-R6", "number literals: a range check that guards Literal::Int accepts at least [-(2^53-1), 2^53-1]; no range check "
             "guards Literal::Float (RFC 9535 bounds integers used as indices, not numbers in comparisons)", floor=2)
    LIM = 2 ** 53 - 1
    M = "crate::parser::model::"
    region, _ = prog.parser_region()
    tops = sorted(p for p in region if "::{closure#" not in p and p in prog.bodies and not prog.is_expansion(p) and not p.startswith(M))
    is_parsed = lambda x: any(y.k == "call" and y.a[0].endswith("<impl str>::parse") for y in subterms(x))
    is_err = lambda x: x.k == "adt" and x.a[1] == "Err"
    seen = set()

    def visit(t, guards, fn, depth=0):
        if depth > 14:
            return
        if t.k == "if":
            visit(t.a[1], guards + [(t.a[0], True, is_err(t.a[2]))], fn, depth + 1)
            visit(t.a[2], guards + [(t.a[0], False, is_err(t.a[1]))], fn, depth + 1)
            return
        if t.k == "adt" and t.a[1] == "Ok" and len(t.a[2]) == 1:
            x = t.a[2][0][1]
            if x.k == "adt" and x.a[0] == M + "Literal" and x.a[1] in ("Int", "Float"):
                kind = x.a[1]
                if (fn, kind) in seen:
                    return
                seen.add((fn, kind))
                where = prog.loc_of(fn)
                bad = False
                for cond, pol, rejecting in guards:
                    if not rejecting or not is_parsed(cond):
                        continue
                    iv = shared._accept_interval(prog, cond, pol, is_var=is_parsed)
                    if kind == "Float":
                        bad = True
                        rep.bad("C06-R6", "Literal::Float|bounded", where, "a float literal is rejected by a range check (`%s`): RFC 9535 does not bound "
                                "numbers in comparisons, `1e16` is a valid literal" % str(cond)[:160])
                    elif iv is None:
                        bad = True
                        rep.unrecognised("C06-R6", "Literal::Int|bounds", where, "the condition guarding integer literals could not be read as an interval: `%s`" % str(cond)[:200])
                    elif iv[0] > -LIM or iv[1] < LIM:
                        bad = True
                        rep.bad("C06-R6", "Literal::Int|bounds", where, "valid query rejected: integer literals are accepted in [%s, %s] only, which leaves out "
                                "%s of the I-JSON range [-(2^53-1), 2^53-1] (e.g. `$[?@.a == %d]`)" % (
                                    iv[0], iv[1], "the upper end" if iv[1] < LIM else "the lower end", LIM if iv[1] < LIM else -LIM))
                if not bad:
                    rep.ok("C06-R6", "Literal::%s" % kind, where, "no range check cuts into the valid range")
    for p in tops:
        t = ev.summary(p)
        if any(y.k == "adt" and y.a[0] == M + "Literal" and y.a[1] in ("Int", "Float") for y in subterms(t)):
            visit(t, [], p)
