"""C06 -- every valid RFC 9535 query is accepted by the parser."""
import json
import os
import re
from vflib import grammarmodel as GM, facts
from rules import grammar_common as G

META = {
    "level": "other",
    "explanation": (
        "Language inclusion L(RFC 9535 ABNF + I-JSON integer range) <= L(pest grammar with pest's implicit-whitespace semantics "
        "made explicit, filtered by the parser's post-checks whose defining facts are found in the code), decided exactly on the "
        "regular bodies between the three recursion knots (query, logical expression, function call) by automata: every "
        "RFC-only divergence is reported with the innermost grammar rule, the symbol class and a shortest witness string "
        "(R1). PEG ordered-choice hazards: every pair of prefix-comparable alternatives must be in the reasoned table in the "
        "listed order (R2). Typing: every well-typed call of the five functions is accepted by the function table (R3). Not "
        "decided: parsing time; greedy-repetition hazards (FIRST/FOLLOW disjointness was confirmed by reading, not checked); "
        "integer literals in comparisons beyond +-(2^53-1)."),
    "trusted_base": ["pest_meta 2.9.1 (grammar parser)", "A7 model of pest_generator 2.9.1's implicit whitespace", "spec/rfc9535.abnf (self-checked on 226 strings)",
                     "pestfacts automata engine", "vf driver + rules"],
    "assumptions": ["the three knots carry all recursion of both grammars (checked: otherwise the converter refuses)"],
    "not_decided": ["PEG time complexity", "greedy repetition hazards", "range of integer literals in comparisons"],
}

HAZ = os.path.join(facts.VERIF, "spec", "peg_hazards.json")


def run(ctx, rep):
    res = G.load(ctx)
    where = os.path.relpath(ctx.grammar.path, facts.REPO)
    rep.rule("C06-R1", "inclusion RFC <= impl at main/Q/L/F (modulo absorbed blank): no RFC-only divergence", floor=4)
    G.check_side_conditions(rep, "C06-R1", res, where)
    G.model_limits(rep, "C06-R1", res, where, "rfc<=impl")
    divs = GM.divergences(res)
    for cmp_ in [c for c in res["engine"]["compare"] if not c["id"].startswith("np:")]:
        n = sum(1 for d in cmp_["divergences"] if d["dir"] == "rfc-only")
        rep.ok("C06-R1", "compared:%s" % cmp_["id"], where, "%d x %d states, %d product states explored exhaustively, %d RFC-only divergence class(es)"
               % (cmp_["impl_states"], cmp_["rfc_states"], cmp_["product_states"], n))
    for k, d in sorted(divs.items()):
        if k[0] != "rfc-only":
            continue
        rep.bad("C06-R1", "div|%s|%s|%s" % k, where,
                "valid query rejected: `%s` (at `%s`, rule %s, symbol class %s)%s" % (
                    d["witness"], d["where"], k[1], k[2], (": " + G.hint(k)) if G.hint(k) else ""))
    rep.samples.extend({"rule": "C06-R1", "comparison": c["id"], "impl_states": c["impl_states"], "rfc_states": c["rfc_states"]} for c in res["engine"]["compare"] if not c["id"].startswith("np:"))
    rep.extra["filters_modelled"] = res["applied_filters"]
    # R2
    rep.rule("C06-R2", "PEG ordered choice does not lose sentences: prefix-comparable alternatives only in the reasoned table's order", floor=4)
    table = {(h["rule"], h["first"], h["second"]) for h in json.load(open(HAZ))["safe"]}
    meta = {m["id"]: m for m in res["overlap_meta"]}
    npairs = 0
    for o in res["engine"]["overlap"]:
        npairs += 1
        if not o["overlap"]:
            continue
        m = meta[o["id"]]
        key = (m["rule"], m["first"], m["second"])
        rep.check(key in table, "C06-R2", "choice|%s|%s|%s" % key, where, "listed hazard (safe in this order)",
                  "in rule `%s` the alternative `%s` is tried before `%s` and both can match a prefix of one input (e.g. `%s`): the "
                  "earlier one shadows sentences that need the later one" % (key[0], key[1], key[2], GM.show_witness(o["witness"] or [])))
    rep.extra["choice_pairs_examined"] = npairs
    # R3
    from rules import c07
    c07.typing(ctx, rep, only="C06-R3")
    # R4: nothing bounds what the generated parser may consume
    from vflib import census, thir as T
    rep.rule("C06-R4", "no budget on valid queries: the crate never sets pest's global knobs (set_call_limit, set_error_detail): a call "
             "limit makes long but valid queries fail with `call limit reached`")
    prog = ctx.prog
    n = 0
    for p in sorted(prog.bodies):
        if prog.is_expansion(p) or "::tests::" in p:
            continue
        for x in T.walk(prog.bodies[p]["thir"]["root"]):
            if x.get("k") == "Call":
                n += 1
                if re.search(r"^pest::.*(set_call_limit|set_error_detail)$", x.get("fn") or ""):
                    rep.bad("C06-R4", "%s|%s" % (prog.owner_fn(p), x["fn"].rsplit("::", 1)[1]), T.loc(x),
                            "`%s` is called in `%s`: with a call limit a valid query that needs more parser steps (a long union, many segments, "
                            "a large filter) is rejected" % (x["fn"], prog.owner_fn(p)))
    rep.ok("C06-R4", "knob-census", "-", "%d call sites examined" % n)
