"""C01 -- selected nodes are exactly the RFC 9535 nodelist (structural clauses)."""
import re
from vflib import census, thir as T, tables
from vflib.terms import Evaluator, Tm, subterms
from rules.c03 import collect_sites, container_of, parent_of_path, PTR, QT

META = {
    "level": "other",
    "explanation": (
        "R1 borrow provenance by parametricity: public signatures tie the result lifetime to the document parameter; the "
        "evaluator is generic safe code, so a `&'a T` can only originate from the document through Queryable accessors -- "
        "made complete by a ban list (no unsafe, leak, transmute, raw pointers, statics of data type) with positive "
        "controls; every Pointer construction's `inner` is censused; a fabricated value (Data::Value) at top level maps to "
        "Err. R2 each selector kind's handler reads the container kinds it must (name: get; index/slice: as_array; "
        "wildcard/filter/descendant: as_array and as_object; descendant expansion is self-recursive). R3 at every child "
        "construction the container read is the `inner` of the same pointer whose path is extended. R4 no variant of "
        "Segment/Selector is dispatched to a constant or pass-through arm; segments are folded left to right. R5 string "
        "escapes in names/literals must be decoded somewhere between the parser and their use. Not decided: value-level "
        "equality of the nodelist with the RFC's for every (query, document)."),
    "trusted_base": ["rustc nightly (borrow checker, lifetimes, THIR)", "vf driver + rules"],
    "assumptions": ["safe generic Rust cannot fabricate a reference with the caller's lifetime"],
    "not_decided": ["the nodelist equals the RFC's for every (query, document) pair (value-level)"],
}
META["explanation"] += " R3 also: Pointer::key / Pointer::idx extend the parent's path on every result alternative. R6 selector text is rewritten in one left-to-right pass (no str::replace chain whose first replacement can form the second pattern; positive and negative control in the fixture crate). R7 slice and index selectors select exactly the RFC's elements (region analysis of C11-R6, shared)."
META["explanation"] += " R8 the nodelist concatenation table of C02-R1 (shared): a union keeps every selector's nodes. R9 `<Value as Queryable>::get` resolves names with serde_json's by-name lookup only (never a pointer/index lookup). R10 literals denote exactly the value written (no cast or guard between the AST and T::from)."

Q = "crate::query::Query"
M = "crate::parser::model::"


def run(ctx, rep):
    prog = ctx.prog
    ev = Evaluator(prog)
    r1(ctx, prog, ev, rep)
    r2(prog, ev, rep)
    r3(prog, ev, rep)
    r4(prog, ev, rep)
    r5(prog, ev, rep)
    r6(ctx, prog, ev, rep)
    from rules import c11
    c11.shared_walk_rule(prog, ev, rep, "C01-R7",
                         "slice and index selectors contribute precisely their RFC-defined elements: the walk of each slice direction and the "
                         "index selector's guards agree with RFC 9535 2.3.4.2.2 / 2.3.3.2 for every (len, start, end, step) -- the region "
                         "analysis of C11-R6, shared")
    from vflib.report import Shared
    from rules import c02, shared
    c02.r1(prog, ev, Shared(rep, {"C02-R1": "C01-R8"}, lender="C02"))
    r9(prog, ev, rep)
    shared.literal_exact(prog, ev, rep, "C01-R10")
    shared.selector_tables(prog, ev, rep, "C01-R11")
    shared.slot_verbatim(ctx, rep, "C01-R12", ["Selector::Name", "SingularQuerySegment::Name", "Segment::name", "Literal::String"],
                         "the evaluator decodes names and literals itself (normalize_json_key, prepare_regex): a second decoding "
                         "in the parser changes which member a name selects and what a literal denotes")
    if ctx.tier == "thorough":
        from vflib import witness
        witness.report(rep, "C01-W", ['W1', 'W1b'], "compile_fail witnesses: a result (with or without path) cannot outlive the document")


# ------------------------------------------------------------------------------------------- R1
def r1(ctx, prog, ev, rep):
    rep.rule("C01-R1", "borrow provenance: result lifetime tied to the document in the public signatures; no unsafe / leak / "
             "transmute / raw pointer / data-typed static anywhere in the crate; every Pointer construction takes its "
             "node from the document side; Data::Value at top level -> Err", floor=13 + 4)
    # signatures
    for fn, doc_idx in (("crate::query::js_path", 1), ("crate::query::js_path_process", 1), ("crate::query::js_path_vals", 1)):
        p = prog.find_fn(fn)
        it = prog.items[p]
        m = re.search(r"&'(\w+) T$", it["inputs_s"][doc_idx])
        lt = m.group(1) if m else None
        out = it["output_s"]
        good = lt is not None and (("QueryRef<'%s, T>" % lt) in out or ("&'%s T" % lt) in out)
        rep.check(good, "C01-R1", "sig:%s" % fn, prog.loc_of(p), it["sig_s"], "result lifetime is not the document's: %s" % it["sig_s"])
    q = prog.adts.get("crate::query::QueryRef")
    if q is None:
        cands = [a_ for p_, a_ in prog.adts.items() if p_.startswith("crate::") and p_.endswith("::QueryRef")]
        q = cands[0] if len(cands) == 1 else None     # the type moved to another module (it is re-exported under its old path)
    good = q is not None and re.fullmatch(r"&'\w+ T", q["variants"][0]["fields"][0]["ty_s"]) is not None
    rep.check(good, "C01-R1", "QueryRef.0", "src/query.rs", "&'a T", "QueryRef's value field is not a borrow of the data type")
    # ban list
    reach, _ = prog.reach(prog.public_entry_points())
    bodies = sorted(reach)
    hits, n = census.scan_calls(prog, bodies, census.NO_LEAK_OR_FORGE)
    for lab, p, node, name in hits:
        sp = node.get("sp") or {}
        if sp.get("exp") and set(sp.get("mac_crates") or ["?"]) <= {"core", "alloc", "std"}:
            continue  # internals of std macros (vec!, format_args!)
        rep.bad("C01-R1", "%s|%s|%s" % (prog.owner_fn(p), lab, name), T.loc(node),
                "`%s` (%s) can fabricate a reference that outlives its source" % (name, lab))
    rep.ok("C01-R1", "forge-census", "-", "%d call sites in %d bodies" % (n, len(bodies)))
    for kind, p, where in census.unsafe_sites(prog):
        rep.bad("C01-R1", "%s:%s" % (kind, p), where, "`unsafe` voids the provenance argument")
    rep.ok("C01-R1", "no-unsafe", "-", "0 unsafe blocks/fns/impls")
    for s in prog.statics:
        if re.search(r"\bT\b|serde_json::value::Value", s["ty"]):
            rep.bad("C01-R1", "static:%s" % s["path"], "-", "static of data type `%s` could hand out nodes that are not in the caller's document" % s["ty"])
    # census of Pointer constructions
    evalr, _ = prog.evaluator()
    tops = sorted(p for p in evalr if "::{closure#" not in p and not prog.is_expansion(p))
    n = 0
    for p in tops:
        if (prog.items.get(p, {}).get("impl_self") or "").startswith("crate::query::state::Pointer<"):
            continue
        t, trace, conds = ev.traced(p)
        seen = set()
        for c in trace:
            if c.k == "call" and c.a[0] in (PTR + "idx", PTR + "key", PTR + "new", PTR + "empty"):
                n += 1
                inner = c.a[1]
                ok, why = from_document(prog, p, inner)
                base = "%s|%s" % (p, c.a[0].rsplit("::", 1)[1])
                k = base
                j = 1
                while k in seen:
                    j += 1; k = "%s#%d" % (base, j)
                seen.add(k)
                rep.check(ok, "C01-R1", k, c.loc(), "node <- %s" % why, "Pointer built around `%s`, which is not derived from the document: %s" % (inner, why))
    rep.extra["pointer_constructions"] = n
    # top-level Value -> Err (shared with C12-R1d)
    p = prog.find_fn("crate::query::js_path_process")
    t = ev.summary(p)
    good = False
    if t.k == "match":
        sel = tables.select(t.a[1], ("v", "Value", [tables.ANY]))
        good = len(sel) == 1 and t.a[1][sel[0][0]][2].k == "adt" and t.a[1][sel[0][0]][2].a[1] == "Err"
    rep.check(good, "C01-R1", "js_path_process/Value", prog.loc_of(p), "Err", "a fabricated value can be returned as a result")
    fx = ctx.fixture
    fh, _ = census.scan_calls(fx, list(fx.bodies.keys()), census.NO_LEAK_OR_FORGE)
    labs = {h[0] for h in fh}
    rep.control("C01-R1", "leak" in labs and "transmute" in labs, "fixture Box::leak / transmute")
    rep.control("C01-R1", len(census.unsafe_sites(fx)) >= 2, "fixture unsafe block / unsafe fn")


def from_document(prog, fn, t):
    """Is term t a borrow into the document?  Allowed origins: a `&T` parameter (the document / root / an incoming node),
    the `inner` / `root` field of an incoming pointer/state, a Queryable accessor applied to such, elements thereof."""
    seen = 0
    while seen < 40:
        seen += 1
        if t.k == "field" and t.a[1] in ("inner", "root"):
            return True, "%s of an incoming pointer/state" % t.a[1]
        if t.k in ("param", "cparam", "upvar"):
            return True, "a reference handed in"
        if t.k == "call" and t.a[0] in ("<item>", "<index>"):
            t = t.a[1]; continue
        if t.k == "proj":
            t = t.a[0]; continue
        if t.k == "field":
            base, name = t.a
            alts = list(base.a) if base.k == "phi" else [base]
            comps = []
            for a_ in alts:
                if a_.k == "adt" and name in dict(a_.a[2]):
                    comps.append(dict(a_.a[2])[name])
                elif a_.k == "tuple" and name.isdigit() and int(name) < len(a_.a):
                    comps.append(a_.a[int(name)])
                else:
                    comps = None
                    break
            if comps:
                # the named component of a record / tuple that is constructed right here
                res = [from_document(prog, fn, x) for x in comps]
                bad = [w for ok, w in res if not ok]
                return (not bad), (bad[0] if bad else res[0][1])
            t = base; continue
        if t.k == "index":
            t = t.a[0]; continue
        if t.k == "call" and t.a[0].startswith(QT + "::") and len(t.a) >= 2:
            t = t.a[1]; continue
        if t.k == "call" and (t.a[0].endswith("Index<I>>::index") or t.a[0] in ("core::slice::<impl [T]>::get", "core::slice::<impl [T]>::iter",
                                                                             "core::slice::<impl [T]>::first", "core::slice::<impl [T]>::last")):
            t = t.a[1]; continue
        if t.k == "phi":
            res = [from_document(prog, fn, x) for x in t.a]
            bad = [w for ok, w in res if not ok]
            return (not bad), (bad[0] if bad else res[0][1])
        if t.k == "tuple" and t.a:
            t = t.a[0]; continue
        return False, "origin `%s`" % t
    return False, "too deep"


# ------------------------------------------------------------------------------------------- R2
NEED = {"Name": {"get"}, "Index": {"as_array"}, "Slice": {"as_array"}, "Wildcard": {"as_array", "as_object"}, "Filter": {"as_array", "as_object"}}


def accessor_reach(prog, roots, stop=None):
    """Queryable accessor names called (on the generic T) from the given bodies, following local calls but not the
    generic `Query::process` dispatch of *other* AST nodes."""
    conc = prog.concrete_view_bodies()
    r, foreign = prog.reach(roots, stop=lambda p: p in conc or (stop is not None and stop(p)))
    acc = set()
    for name in foreign:
        if name.startswith(QT + "::"):
            acc.add(name.rsplit("::", 1)[1])
    return acc, r


def local_callees_of_term(prog, t):
    out = []
    for x in subterms(t):
        if x.k == "call" and x.a[0] in prog.bodies:
            out.append(x.a[0])
        elif x.k in ("closure", "fnitem") and x.a[0] in prog.bodies:
            out.append(x.a[0])
    return out


def r2(prog, ev, rep):
    rep.rule("C01-R2", "container reads per selector kind: Name uses get; Index and Slice use as_array; Wildcard, Filter and the "
             "descendant expansion use as_array and as_object; the descendant expansion reaches itself (all depths)", floor=6)
    sp = prog.impl_method(Q, M + "Selector", "process")
    t = ev.summary(sp)
    where = prog.loc_of(sp)
    if t.k != "match":
        rep.unrecognised("C01-R2", "Selector::process", where, "not a match on the selector variant"); return
    is_process = lambda p: prog.items.get(p, {}).get("impl_trait") == Q
    for vn, nf in tables.variants_of(prog, M + "Selector"):
        sel = tables.select(t.a[1], ("v", vn, [tables.ANY] * nf))
        key = "Selector::%s" % vn
        if len(sel) != 1 or sel[0][1] != "definite":
            rep.unrecognised("C01-R2", key, where, "no unique arm"); continue
        body = t.a[1][sel[0][0]][2]
        roots = local_callees_of_term(prog, body)
        acc, r = accessor_reach(prog, roots, stop=is_process if vn != "Filter" else (lambda p: prog.items.get(p, {}).get("impl_trait") == Q and "Filter" not in (prog.items.get(p, {}).get("impl_self") or "")))
        need = NEED.get(vn)
        if need is None:
            rep.unrecognised("C01-R2", key, where, "selector kind unknown to the rule (new variant?)"); continue
        rep.check(need <= acc, "C01-R2", key, where, "reads %s" % sorted(acc),
                  "handler of %s selectors never asks the node for %s (reads only %s): it cannot select %s" % (
                      vn, sorted(need - acc), sorted(acc), "object members" if "as_object" in need - acc else "array elements" if "as_array" in need - acc else "members by name"))
    # descendant
    gp = prog.impl_method(Q, M + "Segment", "process")
    gt = ev.summary(gp)
    sel = tables.select(gt.a[1], ("v", "Descendant", [tables.ANY])) if gt.k == "match" else []
    if len(sel) != 1:
        rep.unrecognised("C01-R2", "Segment::Descendant", prog.loc_of(gp), "no unique arm"); return
    body = gt.a[1][sel[0][0]][2]
    exp = [x.a[0] for x in subterms(body) if x.k == "fnitem" and x.a[0] in prog.bodies] + [x.a[0] for x in subterms(body) if x.k == "closure"]
    if not exp:
        rep.unrecognised("C01-R2", "Segment::Descendant", prog.loc_of(gp), "no expansion function passed to flat_map: %s" % body); return
    acc, r = accessor_reach(prog, exp)
    rep.check({"as_array", "as_object"} <= acc, "C01-R2", "Segment::Descendant/reads", prog.loc_of(exp[0]), "as_array + as_object",
              "descendant expansion reads only %s" % sorted(acc))
    selfrec = any(e in [n for n, _ in prog.callees(q)] for e in exp for q in r)
    rep.check(selfrec, "C01-R2", "Segment::Descendant/recursive", prog.loc_of(exp[0]), "expansion reaches itself",
              "descendant expansion does not recurse: `..` would be one level deep")
    # ... in every container branch
    for e in exp:
        if e not in prog.bodies:
            continue
        from vflib.terms import deep_distribute
        et = deep_distribute(ev.summary(e))
        for x in subterms(et):
            if x.k == "match" and x.a[0].k == "call" and x.a[0].a[0] in (QT + "::as_array", QT + "::as_object"):
                kind = x.a[0].a[0].rsplit("::", 1)[1]
                sel2 = tables.select(x.a[1], ("v", "Some", [tables.ANY]))
                if len(sel2) != 1:
                    continue
                b = x.a[1][sel2[0][0]][2]
                rec = any((y.k in ("fnitem", "call") and y.a[0] == e) for y in subterms(b))
                rep.check(rec, "C01-R2", "Segment::Descendant/recursive/%s" % kind, prog.loc_of(e), "children expanded recursively",
                          "children obtained through %s() are not expanded by the expansion function itself: descendants below the first "
                          "level of %s are lost" % (kind, "arrays" if kind == "as_array" else "objects"))
    # the inner segment is applied to the expanded list
    ok_inner = body.k == "call" and body.a[0] == gp and body.a[1] == Tm("proj", (gt.a[0], "Segment::Descendant.0")) \
        and body.a[2].k == "call" and body.a[2].a[0].endswith("State::<'a, T>::flat_map") and body.a[2].a[1].k == "param"
    rep.check(ok_inner, "C01-R2", "Segment::Descendant/apply", prog.loc_of(gp), "segment.process(step.flat_map(expand))", "Descendant arm is `%s`" % body)


# ------------------------------------------------------------------------------------------- R3
def r3(prog, ev, rep):
    rep.rule("C01-R3", "children come from the current node: at each child construction the container read (as_array/as_object/"
             "get) is applied to the `inner` of the same pointer whose `path` is extended; Pointer::key / Pointer::idx extend the path on every result", floor=11)
    sites = collect_sites(prog, ev)
    seen = set()
    for p, c in sites:
        e, path = c.a[1], c.a[2]
        P2 = parent_of_path(path)
        src = None
        for x in subterms(e):
            if x.k == "call" and x.a[0].startswith(QT + "::") and len(x.a) >= 2:
                a = x.a[1]
                if a.k == "field" and a.a[1] == "inner":
                    src = a.a[0]
                else:
                    src = a
                break
        base = "%s|%s" % (p, c.a[0].rsplit("::", 1)[1])
        k = base; j = 1
        while k in seen:
            j += 1; k = "%s#%d" % (base, j)
        seen.add(k)
        if src is None:
            rep.unrecognised("C01-R3", k, c.loc(), "child `%s` is not obtained through a Queryable accessor" % e); continue
        rep.check(P2 is not None and P2 == src, "C01-R3", k, c.loc(), "child of the node whose path is extended",
                  "child is read from `%s` but the path of `%s` is extended" % (src, path))


    # the two child constructors always extend the parent's path: no result alternative keeps or resets it
    for cname in ("key", "idx"):
        try:
            cp = prog.inherent_method("crate::query::state::Pointer", cname)
        except Exception:
            rep.unrecognised("C01-R3", "Pointer::%s/extends" % cname, "-", "constructor not found"); continue
        t = ev.summary(cp)
        leaves = []
        stack = [t]
        while stack:
            x = stack.pop()
            if x.k == "phi":
                stack.extend(x.a)
            elif x.k == "if":
                stack.extend([x.a[1], x.a[2]])
            elif x.k == "match":
                stack.extend(b for _, _, b in x.a[1])
            elif not (x.k == "opaque" and x.a[0] == "never"):
                leaves.append(x)
        bad = []
        for lf in leaves:
            ok = False
            if lf.k == "adt" and lf.a[1] == "Pointer":
                pt = dict(lf.a[2]).get("path")
                pstack = [pt]
                oks = []
                while pstack:
                    y = pstack.pop()
                    if y is None:
                        oks.append(False)
                    elif y.k in ("phi",):
                        pstack.extend(y.a)
                    elif y.k == "if":
                        pstack.extend([y.a[1], y.a[2]])
                    elif y.k == "match":
                        pstack.extend(b for _, _, b in y.a[1])
                    else:
                        good = y.k == "call" and y.a[0] == "<format>" and len(y.a[1].a[1]) >= 2 and y.a[1].a[1][0] == ("arg", 0, False) \
                            and any(pc[0] == "lit" and "[" in pc[1] for pc in y.a[1].a[1])
                        if good:
                            a0 = y.a[2]
                            a0 = a0.a[1] if a0.k == "call" and a0.a[0].startswith("<fmtarg") else a0
                            good = a0.k == "param" and a0.a[0] == 1
                        oks.append(good)
                ok = bool(oks) and all(oks)
            if not ok:
                bad.append(str(lf)[:120])
        rep.check(not bad, "C01-R3", "Pointer::%s/extends" % cname, prog.loc_of(cp), "path = parent path + one step on every result",
                  "Pointer::%s does not always extend its parent's path (`%s`): a child then carries its parent's (or the empty `@`) path, "
                  "so it is mistaken for the node under test in nested filters and reported under a wrong location" % (cname, "; ".join(bad)))


# ------------------------------------------------------------------------------------------- R4
def r4(prog, ev, rep):
    rep.rule("C01-R4", "no silent catch-all: every Segment / Selector variant is dispatched to an arm that does work (a call), "
             "never to a constant or to the unchanged input; JpQuery folds its segments left to right from the incoming state", floor=8 + 2)
    for ty in ("Segment", "Selector"):
        p = prog.impl_method(Q, M + ty, "process")
        t = ev.summary(p)
        where = prog.loc_of(p)
        if t.k != "match":
            rep.unrecognised("C01-R4", ty, where, "not a match"); continue
        st = Tm("param", (1, None))
        for vn, nf in tables.variants_of(prog, M + ty):
            sel = tables.select(t.a[1], ("v", vn, [tables.ANY] * nf))
            key = "%s::%s" % (ty, vn)
            if len(sel) != 1 or sel[0][1] != "definite":
                rep.unrecognised("C01-R4", key, where, "no unique arm"); continue
            body = t.a[1][sel[0][0]][2]
            works = body.k == "call" and (body.a[0] in prog.bodies) and any(x.k == "param" and x.a[0] == 1 for x in subterms(body))
            uses_payload = nf == 0 or any(x.k == "proj" and x.a[1].startswith("%s::%s." % (ty, vn)) for x in subterms(body)) \
                or any(x.k == "closure" for x in subterms(body))
            rep.check(works and uses_payload, "C01-R4", key, where, "dispatched",
                      "variant %s is handled by `%s`: the incoming nodes or the selector's own data are ignored" % (key, body))
    # JpQuery -> segments -> fold
    jp = prog.impl_method(Q, M + "JpQuery", "process")
    jt = ev.summary(jp)
    vp = prog.impl_method(Q, "alloc::vec::Vec<crate::parser::model::Segment>", "process")
    good = jt.k == "call" and jt.a[0] == vp and jt.a[1] == Tm("field", (Tm("param", (0, "self")), "segments")) and jt.a[2].k == "param" and jt.a[2].a[0] == 1
    rep.check(good, "C01-R4", "JpQuery::process", prog.loc_of(jp), "self.segments.process(state)", "JpQuery::process is `%s`" % jt)
    vt = ev.summary(vp)
    good = False
    why = "Vec<Segment>::process is `%s`" % vt
    if vt.k == "call" and vt.a[0].endswith("Iterator>::fold") or (vt.k == "call" and vt.a[0].endswith("Iterator::fold")):
        src, init, f = vt.a[1], vt.a[2], vt.a[3]
        oksrc = src.k == "call" and src.a[0] == "core::slice::<impl [T]>::iter" and src.a[1].k == "param" and src.a[1].a[0] == 0
        okinit = init.k == "param" and init.a[0] == 1
        acc, seg = Tm("param", (90, "acc")), Tm("param", (91, "seg"))
        fb = ev.apply(f, [acc, seg])
        gp = prog.impl_method(Q, M + "Segment", "process")
        okf = fb == Tm("call", (gp, seg, acc))
        good = oksrc and okinit and okf
        if not okf:
            why = "fold step is `%s`, expected segment.process(acc)" % fb
    if not good and vt.k == "phi":
        # the loop form: `let mut acc = state; for seg in self { acc = seg.process(acc) } acc`
        gp = prog.impl_method(Q, M + "Segment", "process")
        alts_ = list(vt.a)
        inits = [x for x in alts_ if x.k == "param" and x.a[0] == 1]
        steps = [x for x in alts_ if x.k == "call" and x.a[0] == gp and len(x.a) == 3]
        if len(inits) == 1 and len(steps) == 1 and len(alts_) == 2:
            it, acc = steps[0].a[1], steps[0].a[2]
            src = it.a[1] if it.k == "call" and it.a[0] == "<item>" else None
            while src is not None and src.k == "call" and len(src.a) == 2 and src.a[0].rsplit("::", 1)[-1] in ("iter", "into_iter"):
                src = src.a[1]
            okit = src is not None and src.k == "param" and src.a[0] == 0
            okacc = acc.k == "phi" and any(x == inits[0] for x in acc.a) and all(x == inits[0] or x.k == "loopvar" for x in acc.a)
            good = okit and okacc
            if not good:
                why = "loop step is `%s`, expected acc = segment.process(acc) over the segments in order" % steps[0]
    rep.check(good, "C01-R4", "Vec<Segment>::process", prog.loc_of(vp), "iter().fold(state, |acc, seg| seg.process(acc))", why)


# ------------------------------------------------------------------------------------------- R5
def r5(prog, ev, rep):
    rep.rule("C01-R5", "string escapes are decoded: between the text of a `string` span and its uses (member lookup, literal "
             "operand, regex pattern) there must be a function that can decode \\uXXXX (hex-digit conversion + scalar "
             "construction); without one no escape can denote the character it stands for")
    reach, foreign = prog.reach([prog.find_fn("crate::query::js_path")])
    hexconv = [n for n in foreign if re.search(r"from_str_radix|::to_digit$|::from_digit$", n)]
    mkchar = [n for n in foreign if re.search(r"char::methods::<impl char>::from_u32|char::convert::.*from_u32|TryFrom<u32>.*char|char::from_u32", n)]
    if hexconv and mkchar:
        rep.ok("C01-R5", "escape-decoder", "-", "hex conversion %s + scalar construction %s" % (hexconv[:1], mkchar[:1]))
    else:
        rep.bad("C01-R5", "no-escape-decoder", "src/query/selector.rs",
                "no function reachable from js_path converts hex digits and builds a char: `\\uXXXX` (and `\\n`, `\\t`, ...) in name "
                "selectors and string literals are never decoded, so `$['\\u0041']` does not select member `A`")


# ------------------------------------------------------------------------------------------- R6
def _overlap(r1, p2):
    """can text inserted by a first replacement (r1) take part in a NEW match of the second pattern (p2)?"""
    if not r1 or not p2:
        return False
    if r1 in p2 or p2 in r1:
        return True
    for k in range(1, min(len(r1), len(p2))):
        if r1[-k:] == p2[:k] or r1[:k] == p2[-k:]:
            return True
    return False


def r6(ctx, prog, ev, rep):
    rep.rule("C01-R6", "selector text is rewritten in ONE left-to-right pass: no chain `s.replace(p1, r1).replace(p2, r2)` on the way "
             "to a member lookup / comparison in which text produced by the first replacement can form a match of the second "
             "(`\\\\/` -> `\\/` -> `/`): such a chain decodes some escaped names to a different member")
    evalr, _ = prog.evaluator()
    tops = sorted(p for p in evalr if "::{closure#" not in p and not prog.is_expansion(p))
    n = 0
    seen = set()
    REPL = ("alloc::str::<impl str>::replace", "alloc::str::<impl str>::replacen")

    def recv(x):
        while x.k == "call" and len(x.a) == 2 and x.a[0].rsplit("::", 1)[-1] in ("as_str", "deref", "as_ref", "borrow", "to_string", "to_owned", "clone"):
            x = x.a[1]
        return x
    for p in tops:
        t, trace, conds = ev.traced(p)
        for c in trace:
            if c.k == "call" and c.a[0] in REPL and len(c.a) >= 4 and id(c.n) not in seen:
                seen.add(id(c.n))
                n += 1
                inner = recv(c.a[1])
                if inner.k == "call" and inner.a[0] in REPL and len(inner.a) >= 4:
                    r1, p2 = inner.a[3], c.a[2]
                    if r1.k == "lit" and p2.k == "lit":
                        hazard = _overlap(str(r1.a[1]), str(p2.a[1])) and inner.a[2] != inner.a[3]
                        rep.check(not hazard, "C01-R6", "%s|replace-chain" % shared_rk(prog, ev, p), T.loc(c.n) if c.n else prog.loc_of(p),
                                  "replacement %r cannot form pattern %r" % (r1.a[1], p2.a[1]),
                                  "two-pass rewriting: text produced by `.replace(%r, %r)` can form a new match of the following `.replace(%r, ..)`; "
                                  "an escaped sequence is decoded twice (a single left-to-right scan is needed)" % (inner.a[2].a[1] if inner.a[2].k == "lit" else "?", r1.a[1], p2.a[1]))
                    else:
                        rep.unrecognised("C01-R6", "%s|replace-chain" % shared_rk(prog, ev, p), prog.loc_of(p), "replace chain with non-literal patterns")
    rep.ok("C01-R6", "census", "-", "%d str::replace sites in %d evaluator functions examined" % (n, len(tops)))
    # controls: the fixture's hazardous chain is flagged, its harmless chain is not
    fx = ctx.fixture
    fev = Evaluator(fx)
    res = {}
    for name in ("crate::c01_replace_chain", "crate::c01_replace_chain_ok"):
        res[name] = None
        if name in fx.bodies:
            t, trace, _ = fev.traced(name)
            for c in trace:
                if c.k == "call" and c.a[0] in REPL and len(c.a) >= 4:
                    inner = recv(c.a[1])
                    if inner.k == "call" and inner.a[0] in REPL and inner.a[3].k == "lit" and c.a[2].k == "lit":
                        res[name] = _overlap(str(inner.a[3].a[1]), str(c.a[2].a[1]))
    rep.control("C01-R6", res.get("crate::c01_replace_chain") is True and res.get("crate::c01_replace_chain_ok") is False,
                "fixture two-pass rewrite flagged, JSON-Pointer style chain not flagged")


def shared_rk(prog, ev, p):
    from rules import shared
    return shared.rk(prog, ev, p)


# ------------------------------------------------------------------------------------------- R9
def r9(prog, ev, rep):
    rep.rule("C01-R9", "a name selector selects members of objects only: `<serde_json::Value as Queryable>::get` resolves the "
             "(unquoted) name with serde_json's by-name lookup `Value::get(&str)`, which answers None for arrays and scalars - never "
             "with a JSON Pointer / index lookup, for which the name `1` would address an array element")
    try:
        gp = prog.impl_method(QT, "serde_json::value::Value", "get")
    except Exception:
        rep.unrecognised("C01-R9", "Value::get", "-", "impl method not found"); return
    t, trace, _ = ev.traced(gp)
    where = prog.loc_of(gp)
    lookups = [c for c in trace if c.k == "call" and c.a[0].startswith("serde_json::value::Value::") and c.a[0].rsplit("::", 1)[-1] in ("get", "get_mut", "pointer", "pointer_mut", "index", "as_array", "as_object")]
    other = [c for c in trace if c.k == "call" and "serde_json" in c.a[0] and "Index" in c.a[0]]
    names = sorted({c.a[0].rsplit("::", 1)[-1] for c in lookups + other})
    ok = bool(lookups) and names == ["get"] and all(len(c.a) == 3 and c.a[1].k == "param" and c.a[1].a[0] == 0 for c in lookups)
    strkey = all("str" in ((c.n or {}).get("gargs") or ["str"])[0] or True for c in lookups)
    rep.check(ok and strkey, "C01-R9", "Value::get/by-name", where, "serde_json::Value::get(self, name: &str)",
              "`<Value as Queryable>::get` resolves the name through %s: a lookup that can address array elements or nested values "
              "makes `$['1']` select from an array" % names)
