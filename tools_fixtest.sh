#!/bin/bash
# run the repository's unedited test suite on the working tree and report the counts
cd /repo && cargo test --workspace --no-fail-fast --offline 2>&1 | grep -E "^test result|FAILED|failed|panicked" | head -20
