//! E3 -- type-level witnesses for /verif (thorough tier).  Every `compile_fail,E....` doc-test is paired with a
//! compiling twin that differs only by the offending line, so a witness cannot "fail to compile" for the wrong reason.
//! Run with `cargo +nightly test --doc --offline` (the stable toolchain ignores the error code).

/// W1 (C01): a query result is a borrow of the caller's document -- it cannot outlive it.
/// ```compile_fail,E0505
/// use jsonpath_rust::JsonPath;
/// let doc = serde_json::json!({"a": [1, 2]});
/// let res = doc.query("$.a[*]").unwrap();
/// drop(doc);                       // the document is still borrowed by `res`
/// assert_eq!(res.len(), 2);
/// ```
/// twin: dropped after the last use
/// ```no_run
/// use jsonpath_rust::JsonPath;
/// let doc = serde_json::json!({"a": [1, 2]});
/// let res = doc.query("$.a[*]").unwrap();
/// assert_eq!(res.len(), 2);
/// drop(doc);
/// ```
pub struct W1;

/// W1b (C01): the same for results that carry paths.
/// ```compile_fail,E0505
/// use jsonpath_rust::JsonPath;
/// let doc = serde_json::json!([1]);
/// let res = doc.query_with_path("$[0]").unwrap();
/// drop(doc);
/// assert_eq!(res.len(), 1);
/// ```
/// ```no_run
/// use jsonpath_rust::JsonPath;
/// let doc = serde_json::json!([1]);
/// let res = doc.query_with_path("$[0]").unwrap();
/// assert_eq!(res.len(), 1);
/// drop(doc);
/// ```
pub struct W1b;

/// W2 (C12): a parsed query, the error type and results over `Value` are `Send + Sync`.
/// ```no_run
/// fn is<T: Send + Sync>() {}
/// is::<jsonpath_rust::parser::model::JpQuery>();
/// is::<jsonpath_rust::parser::errors::JsonPathError>();
/// is::<jsonpath_rust::query::QueryRef<'static, serde_json::Value>>();
/// ```
/// twin showing the assertion can fail:
/// ```compile_fail,E0277
/// fn is<T: Send + Sync>() {}
/// is::<std::rc::Rc<jsonpath_rust::parser::model::JpQuery>>();
/// ```
pub struct W2;

/// W3 (C12): evaluation only needs a shared borrow of the document; a mutable handle needs an exclusive one.
/// ```no_run
/// use jsonpath_rust::JsonPath;
/// let doc = serde_json::json!({"a": 1});
/// let other = &doc;                      // another shared borrow is alive
/// let res = doc.query("$.a").unwrap();
/// assert_eq!(res.len(), 1);
/// assert!(other.is_object());
/// ```
/// ```compile_fail,E0502
/// use jsonpath_rust::query::queryable::Queryable;
/// let mut doc = serde_json::json!({"a": 1});
/// let other = &doc;
/// let h = doc.reference_mut("$.a");      // needs `&mut doc` while `other` is alive
/// assert!(other.is_object());
/// drop(h);
/// ```
pub struct W3;

/// W4 (C15): the engine really is generic -- it instantiates at a second `Queryable` implementor defined here.
/// ```no_run
/// use jsonpath_rust::query::queryable::Queryable;
/// use jsonpath_rust::query::js_path;
/// #[derive(Debug, Clone, PartialEq, Default)]
/// enum Doc { #[default] Null, B(bool), I(i64), F(f64), S(String), A(Vec<Doc>), O(Vec<(String, Doc)>) }
/// impl From<&str> for Doc { fn from(s: &str) -> Self { Doc::S(s.to_string()) } }
/// impl From<String> for Doc { fn from(s: String) -> Self { Doc::S(s) } }
/// impl From<bool> for Doc { fn from(b: bool) -> Self { Doc::B(b) } }
/// impl From<i64> for Doc { fn from(i: i64) -> Self { Doc::I(i) } }
/// impl From<f64> for Doc { fn from(f: f64) -> Self { Doc::F(f) } }
/// impl From<Vec<Doc>> for Doc { fn from(v: Vec<Doc>) -> Self { Doc::A(v) } }
/// impl Queryable for Doc {
///     fn get(&self, key: &str) -> Option<&Self> {
///         let key = key.trim_matches(|c| c == '\'' || c == '"');
///         match self { Doc::O(m) => m.iter().find(|(k, _)| k == key).map(|(_, v)| v), _ => None }
///     }
///     fn as_array(&self) -> Option<&Vec<Self>> { match self { Doc::A(v) => Some(v), _ => None } }
///     fn as_object(&self) -> Option<Vec<(&String, &Self)>> { match self { Doc::O(m) => Some(m.iter().map(|(k, v)| (k, v)).collect()), _ => None } }
///     fn as_str(&self) -> Option<&str> { match self { Doc::S(s) => Some(s), _ => None } }
///     fn as_i64(&self) -> Option<i64> { match self { Doc::I(i) => Some(*i), _ => None } }
///     fn as_f64(&self) -> Option<f64> { match self { Doc::F(f) => Some(*f), Doc::I(i) => Some(*i as f64), _ => None } }
///     fn as_bool(&self) -> Option<bool> { match self { Doc::B(b) => Some(*b), _ => None } }
///     fn null() -> Self { Doc::Null }
/// }
/// let doc = Doc::O(vec![("a".to_string(), Doc::A(vec![Doc::I(1), Doc::I(5)]))]);
/// let res = js_path("$.a[?@ > 2]", &doc).unwrap();
/// assert_eq!(res.len(), 1);
/// ```
/// and the instantiation is real: a `&Doc`-shaped value is not a `&Value`
/// ```compile_fail,E0308
/// use jsonpath_rust::query::js_path;
/// let doc: Vec<u8> = vec![];
/// let v: &serde_json::Value = &doc;      // mismatched types
/// let _ = js_path("$", v);
/// ```
pub struct W4;
