#!/usr/bin/env python3
"""Self-test of the rules: apply each seeded variant (a small edit that still compiles) to /repo's working tree,
run the named check, require that the named rule fires, and restore the file.  Never commits anything.
usage: tools_variants.py [name-substring ...]"""
import json, os, subprocess, sys
HERE = os.path.dirname(os.path.abspath(__file__))
REPO = "/repo"
vs = json.load(open(os.path.join(HERE, "fixtures", "variants.json")))
import shutil, tempfile
EV = os.path.join(HERE, "evidence")
_bak = tempfile.mkdtemp(prefix="vf-evidence-bak-", dir=os.path.join(HERE, ".cache"))
if os.path.isdir(EV):
    shutil.copytree(EV, os.path.join(_bak, "evidence"))
sel = sys.argv[1:]
bad = 0
for v in vs:
    if sel and not any(s in v["name"] for s in sel):
        continue
    path = os.path.join(REPO, v["file"])
    src = open(path).read()
    if src.count(v["old"]) != 1:
        print("SKIP %-28s anchor text occurs %d times" % (v["name"], src.count(v["old"]))); bad += 1; continue
    extra = []
    try:
        open(path, "w").write(src.replace(v["old"], v["new"]))
        for a in v.get("also", []):
            ap = os.path.join(REPO, a["file"])
            asrc = open(ap).read()
            extra.append((ap, asrc))
            open(ap, "w").write(asrc.replace(a["old"], a["new"]))
        r = subprocess.run([os.path.join(HERE, "vf"), "check", v["prop"]], stdout=subprocess.PIPE, stderr=subprocess.STDOUT, text=True)
        out = r.stdout
        fired = [l for l in out.splitlines() if (" %s" % v["rule"]) in l and ("VIOLATION" in l or "UNRECOGNISED" in l)]
        status = "OK  " if (r.returncode == 1 and fired) else "MISS"
        if status == "MISS":
            bad += 1
        print("%s %-28s rc=%d %s" % (status, v["name"], r.returncode, (fired[0].strip()[:230] if fired else out.strip().splitlines()[-1][:230])))
    finally:
        open(path, "w").write(src)
        for ap, asrc in extra:
            open(ap, "w").write(asrc)
# evidence files must describe the unchanged tree: put back what was there before the variants ran
if os.path.isdir(os.path.join(_bak, "evidence")):
    shutil.rmtree(EV, ignore_errors=True)
    shutil.copytree(os.path.join(_bak, "evidence"), EV)
shutil.rmtree(_bak, ignore_errors=True)
shutil.rmtree(os.path.join(HERE, "out", "violations"), ignore_errors=True)
print("variants not detected / skipped:", bad)
sys.exit(1 if bad else 0)
